#!/usr/bin/env python
"""Usage (always through the worktree wrapper):

  /venv/bin/python -W ignore /tmp/wtpy.py /tmp/wt_r10_4 _twins/diffX.py            # both parts
  /venv/bin/python -W ignore /tmp/wtpy.py /tmp/wt_r10_4 _twins/diffX.py existing   # part (a) only - works on a clean tree
  /venv/bin/python -W ignore /tmp/wtpy.py /tmp/wt_r10_4 _twins/diffX.py new        # part (b) only - needs the edit

Part (a) prints 'EXISTING-DIGEST <sha256>' which must be identical on the clean
and on the edited tree.  Part (b) prints 'NEW-FEATURE OK' when every check of
the new feature passed.
"""
import glob
import hashlib
import io
import logging
import math
import os
import subprocess
import sys
import tempfile

logging.disable(logging.CRITICAL)

import atsim.potentials
from atsim.potentials import (EAMPotential, Potential, potentialforms,
                              writeFuncFL, writePotentials, writeSetFL,
                              writeSetFLFinnisSinclair, writeTABEAM,
                              writeTABEAMFinnisSinclair)
from atsim.potentials import eam_tabulation, pair_tabulation
from atsim.potentials.config import (ConfigParser, ConfigParserOverrideTuple,
                                     Configuration, FilteredConfigParser)
from atsim.potentials.config._common import ConfigurationException

WT = os.getcwd()


def _sha(b):
  if not isinstance(b, bytes):
    b = b.encode("utf-8")
  return hashlib.sha256(b).hexdigest()[:16]


class _Digest(object):
  def __init__(self, verbose):
    self.lines = []
    self.verbose = verbose

  def add(self, label, payload):
    flag = "EXC" if payload.startswith("EXC ") else "len=%d" % len(payload)
    line = "%s %s %s" % (label, _sha(payload), flag)
    self.lines.append(line)
    if self.verbose:
      print("  " + line)

  def guarded(self, label, f):
    try:
      payload = f()
    except Exception as e:
      payload = "EXC %s.%s: %s" % (type(e).__module__, type(e).__name__, e)
    self.add(label, payload)

  def total(self):
    return hashlib.sha256("\n".join(self.lines).encode("utf-8")).hexdigest()


def _workbook_text(wb):
  out = []
  for ws in wb.worksheets:
    out.append("SHEET " + ws.title)
    for row in ws.iter_rows(values_only=True):
      out.append(repr(tuple(row)))
  return "\n".join(out)


def _tabulate_cfg(text, target=None, extra_overrides=(), include=None, exclude=None):
  overrides = list(extra_overrides)
  additional = []
  if target is not None:
    has_target = False
    cp0 = ConfigParser(io.StringIO(text))
    has_target = cp0.tabulation.target is not None
    t = ConfigParserOverrideTuple("Tabulation", "target", target)
    if has_target:
      overrides.append(t)
    else:
      additional.append(t)
  cp = ConfigParser(io.StringIO(text), overrides=overrides, additional=additional)
  if include is not None:
    cp = FilteredConfigParser(cp, include=include)
  if exclude is not None:
    cp = FilteredConfigParser(cp, exclude=exclude)
  tab = Configuration().read_from_parser(cp)
  if hasattr(tab, "workbook"):
    return _workbook_text(tab.workbook)
  sio = io.StringIO()
  tab.write(sio)
  return sio.getvalue()


# ---------------------------------------------------------------- python API models
def _api_pair_model():
  # all of these are regular at r = 0 (GULP / excel tabulate the r = 0 row)
  return [
    Potential("O", "U", potentialforms.morse(1.2, 2.3, 0.6)),
    Potential("O", "O", atsim.potentials.plus(potentialforms.morse(1.9, 2.1, 0.7), potentialforms.polynomial(0.5, -0.2, 0.01))),
    Potential("Xe", "B", potentialforms.exponential(2.5, 1.5)),
    Potential("Gd", "O", lambda r: 3.0 * math.exp(-r) + 0.1 * r * r),
  ]


def _api_pair_model_singular():
  # singular at r = 0: fine for LAMMPS / DL_POLY, an error for GULP / excel
  return [
    Potential("O", "U", potentialforms.buck(1761.775, 0.35642, 0.0)),
    Potential("O", "O", atsim.potentials.plus(potentialforms.buck(9547.96, 0.2192, 32.0), potentialforms.lj(0.01, 2.5))),
  ]


def _api_eam_model():
  def dens(a, b):
    return lambda r: a * math.exp(-b * r)

  def embed(a):
    return lambda rho: -a * math.sqrt(rho) + 0.01 * a * rho

  eam = [
    EAMPotential("Cu", 29, 63.55, embed(1.0), dens(1.1, 0.7), latticeConstant=3.61, latticeType="fcc"),
    EAMPotential("Al", 13, 26.98, embed(2.0), dens(0.9, 0.9), latticeConstant=4.05, latticeType="fcc"),
    EAMPotential("Fe", 26, 55.845, embed(3.0), dens(1.7, 1.3), latticeConstant=2.86, latticeType="bcc"),
  ]
  species = ["Cu", "Al", "Fe"]
  fs = []
  for n, (s, e) in enumerate(zip(species, eam)):
    dd = {}
    for m, o in enumerate(species):
      dd[o] = dens(1.0 + n + 0.1 * m, 0.5 + 0.2 * m + 0.05 * n)
    fs.append(EAMPotential(s, e.atomicNumber, e.mass, e.embeddingFunction, dd, latticeConstant=e.latticeConstant, latticeType=e.latticeType))
  pairs = [
    Potential("Al", "Cu", potentialforms.morse(1.1, 2.6, 0.3)),     # reversed w.r.t. header order
    Potential("Fe", "Fe", potentialforms.morse(1.5, 2.4, 0.4)),
    Potential("Cu", "Cu", lambda r: 800.0 * math.exp(-r / 0.31)),
    Potential("Fe", "Cu", potentialforms.polynomial(0.3, -0.1, 0.02, 0.001)),
    # Al-Al and Al-Fe deliberately not declared: zero filled
  ]
  dipoles = [Potential("Cu", "Al", lambda r: 0.3 * math.exp(-0.5 * r)),
             Potential("Fe", "Fe", lambda r: 0.01 * r)]
  quadrupoles = [Potential("Al", "Fe", lambda r: -0.2 * math.exp(-0.25 * r)),
                 Potential("Cu", "Cu", lambda r: 0.5 - 0.01 * r * r)]
  return eam, fs, pairs, dipoles, quadrupoles


def _to_text(f, *args, **kwargs):
  sio = io.StringIO()
  kwargs["out"] = sio
  f(*args, **kwargs)
  return sio.getvalue()


def _tab_text(tab):
  sio = io.StringIO()
  tab.write(sio)
  return sio.getvalue()


def existing_digest(verbose=True):
  d = _Digest(verbose)

  # --- 1. every example model shipped with the project, as written and re-targeted
  files = sorted(glob.glob(os.path.join(WT, "docs/user_guide/example_files/*.aspot"))
                 + glob.glob(os.path.join(WT, "tests/lammps_resources/*.aspot"))
                 + glob.glob(os.path.join(WT, "tests/config/config_resources/*.aspot")))
  pair_targets = ["LAMMPS", "DLPOLY", "DL_POLY", "GULP", "excel"]
  eam_targets = ["setfl", "lammps_eam_alloy", "DL_POLY_EAM", "excel_eam", "eam_adp"]
  fs_targets = ["setfl_fs", "DL_POLY_EAM_fs", "excel_eam_fs"]
  for fn in files:
    rel = os.path.relpath(fn, WT)
    with open(fn) as infile:
      text = infile.read()
    d.guarded("file:%s:asis" % rel, lambda: _tabulate_cfg(text))
    if "EAM-Density" in text and "->" in text:
      targets = fs_targets
    elif "EAM-Embed" in text:
      targets = eam_targets
    else:
      targets = pair_targets
    for t in targets:
      d.guarded("file:%s:%s" % (rel, t), lambda: _tabulate_cfg(text, t))

  # --- 2. filtering and overrides
  with open(os.path.join(WT, "tests/config/config_resources/spinel.aspot")) as infile:
    spinel = infile.read()
  for t in ["LAMMPS", "GULP"]:
    d.guarded("spinel:include:%s" % t, lambda: _tabulate_cfg(spinel, t, include=["O", "Mg"]))
    d.guarded("spinel:exclude:%s" % t, lambda: _tabulate_cfg(spinel, t, exclude=["Al"]))
  with open(os.path.join(WT, "tests/lammps_resources/AlFe_setfl_fs.aspot")) as infile:
    alfe = infile.read()
  for t in fs_targets:
    d.guarded("alfe:include:%s" % t, lambda: _tabulate_cfg(alfe, t, include=["Al"]))
    d.guarded("alfe:exclude:%s" % t, lambda: _tabulate_cfg(alfe, t, exclude=["Al"]))

  # --- 3. error paths of the configuration layer
  bad = [
    ("unknown-target", u"[Tabulation]\ntarget : nonsense\n[Pair]\nA-B : as.buck 1 2 3\n"),
    ("case-target", u"[Tabulation]\ntarget : Excel\n[Pair]\nA-B : as.buck 1 2 3\n"),
    ("upper-csv-target", u"[Tabulation]\ntarget : CSV_TABLE\n[Pair]\nA-B : as.buck 1 2 3\n"),
    ("dlpoly-nr", u"[Tabulation]\ntarget : DL_POLY\nnr : 1001\n[Pair]\nA-B : as.buck 1 2 3\n"),
    ("lammps-nr", u"[Tabulation]\ntarget : LAMMPS\nnr : 2\n[Pair]\nA-B : as.buck 1 2 3\n"),
    ("gulp-nr1", u"[Tabulation]\ntarget : GULP\nnr : 1\n[Pair]\nA-B : as.buck 1 2 3\n"),
    ("three", u"[Tabulation]\ntarget : GULP\nnr : 10\ndr : 0.1\ncutoff : 0.9\n[Pair]\nA-B : as.buck 1 2 3\n"),
    ("dup-pair", u"[Tabulation]\ntarget : GULP\n[Pair]\nA-B : as.buck 1 2 3\nB-A : as.buck 1 2 3\n"),
    ("adp-missing", u"[Tabulation]\ntarget : eam_adp\n[EAM-Embed]\nAl : as.zero\n[EAM-Density]\nAl : as.zero\n[Pair]\nAl-Al : as.zero\n"),
    ("eam-unknown-form", u"[Tabulation]\ntarget : setfl\n[EAM-Embed]\nAl : as.nothing 1\n[EAM-Density]\nAl : as.zero\n"),
  ]
  for label, text in bad:
    d.guarded("bad:" + label, lambda: _tabulate_cfg(text))

  # --- 4. python API, pair
  pots = _api_pair_model()
  for cutoff, nr in [(10.0, 12), (6.5, 101), (3.3, 8)]:
    for otype in ["LAMMPS", "DL_POLY", "GULP", "DLPOLY", "csv", "CSV", "excel"]:
      d.guarded("writePotentials:%s:%s:%d" % (otype, cutoff, nr), lambda: _to_text(writePotentials, otype, pots, cutoff, nr))
    for cls in [pair_tabulation.LAMMPS_PairTabulation, pair_tabulation.DLPoly_PairTabulation, pair_tabulation.GULP_PairTabulation]:
      d.guarded("pairtab:%s:%s:%d" % (cls.__name__, cutoff, nr), lambda: _tab_text(cls(pots, cutoff, nr)))
    d.guarded("pairtab:excel:%s:%d" % (cutoff, nr), lambda: _workbook_text(pair_tabulation.Excel_PairTabulation(pots, cutoff, nr).workbook))

  spots = _api_pair_model_singular()
  for otype in ["LAMMPS", "DL_POLY", "GULP"]:
    d.guarded("writePotentials:singular:%s" % otype, lambda: _to_text(writePotentials, otype, spots, 8.0, 16))

  # --- 5. python API, EAM (every writer, several element orders and subsets)
  eam, fs, pairs, dipoles, quadrupoles = _api_eam_model()
  orders = [[0, 1, 2], [2, 0, 1], [1, 2], [0]]
  grids = [(7, 0.5, 6, 0.4), (21, 0.05, 33, 0.125)]
  for order in orders:
    e = [eam[i] for i in order]
    f = []
    for i in order:
      p = fs[i]
      f.append(EAMPotential(p.species, p.atomicNumber, p.mass, p.embeddingFunction,
                            dict((eam[j].species, p.electronDensityFunction[eam[j].species]) for j in order),
                            latticeConstant=p.latticeConstant, latticeType=p.latticeType))
    otag = "".join(str(i) for i in order)
    for nrho, drho, nr, dr in grids:
      gtag = "%d-%s-%d-%s" % (nrho, drho, nr, dr)
      d.guarded("writeSetFL:%s:%s" % (otag, gtag), lambda: _to_text(writeSetFL, nrho, drho, nr, dr, e, pairs))
      d.guarded("writeSetFL:comments:%s:%s" % (otag, gtag), lambda: _to_text(writeSetFL, nrho, drho, nr, dr, e, pairs, comments=["a", "b"], cutoff=2.5))
      d.guarded("writeSetFLFS:%s:%s" % (otag, gtag), lambda: _to_text(writeSetFLFinnisSinclair, nrho, drho, nr, dr, f, pairs))
      d.guarded("writeSetFLFS:comments:%s:%s" % (otag, gtag), lambda: _to_text(writeSetFLFinnisSinclair, nrho, drho, nr, dr, f, pairs, comments=["x"], cutoff=1.5))
      d.guarded("writeTABEAM:%s:%s" % (otag, gtag), lambda: _to_text(writeTABEAM, nrho, drho, nr, dr, e, pairs))
      d.guarded("writeTABEAMFS:%s:%s" % (otag, gtag), lambda: _to_text(writeTABEAMFinnisSinclair, nrho, drho, nr, dr, f, pairs))
      d.guarded("writeFuncFL:%s:%s" % (otag, gtag), lambda: _to_text(writeFuncFL, nrho, drho, nr, dr, [e[0]], [Potential("X", "X", lambda r: 800.0 * math.exp(-r / 0.31))], title="t"))
      cutoff = dr * (nr - 1)
      cutoff_rho = drho * (nrho - 1)
      for cls, ee in [(eam_tabulation.SetFL_EAMTabulation, e), (eam_tabulation.SetFL_FS_EAMTabulation, f),
                      (eam_tabulation.TABEAM_EAMTabulation, e), (eam_tabulation.TABEAM_FinnisSinclair_EAMTabulation, f)]:
        d.guarded("eamtab:%s:%s:%s" % (cls.__name__, otag, gtag), lambda: _tab_text(cls(pairs, ee, cutoff, nr, cutoff_rho, nrho)))
      d.guarded("eamtab:ADP:%s:%s" % (otag, gtag), lambda: _tab_text(eam_tabulation.ADP_EAMTabulation(pairs, e, dipoles, quadrupoles, cutoff, nr, cutoff_rho, nrho)))
      d.guarded("eamtab:ADP-empty:%s:%s" % (otag, gtag), lambda: _tab_text(eam_tabulation.ADP_EAMTabulation(pairs, e, [], [], cutoff, nr, cutoff_rho, nrho)))
      d.guarded("eamtab:excel:%s:%s" % (otag, gtag), lambda: _workbook_text(eam_tabulation.Excel_EAMTabulation(pairs, e, cutoff, nr, cutoff_rho, nrho).workbook))
      d.guarded("eamtab:excel_fs:%s:%s" % (otag, gtag), lambda: _workbook_text(eam_tabulation.Excel_FinnisSinclair_EAMTabulation(pairs, f, cutoff, nr, cutoff_rho, nrho).workbook))

  # --- 6. failed evaluation: what is left in the file object (C17)
  class _Boom(Exception):
    pass

  def bad_after(n):
    state = {"n": 0}
    def f(r):
      state["n"] += 1
      if state["n"] > n:
        raise _Boom("boom")
      return 1.0
    return f

  for cls in [pair_tabulation.LAMMPS_PairTabulation, pair_tabulation.DLPoly_PairTabulation, pair_tabulation.GULP_PairTabulation]:
    def run():
      sio = io.StringIO()
      try:
        cls([Potential("A", "B", lambda r: 1.0), Potential("A", "A", bad_after(5))], 4.0, 12).write(sio)
      except _Boom:
        return "boom;left=%r" % sio.getvalue()
      return "no failure"
    d.guarded("fail:%s" % cls.__name__, run)

  def run_adp():
    sio = io.StringIO()
    try:
      eam_tabulation.ADP_EAMTabulation(pairs, eam, dipoles, [Potential("Cu", "Cu", bad_after(3))], 2.0, 6, 3.0, 7).write(sio)
    except _Boom:
      return "boom;left=%r" % sio.getvalue()
    return "no failure"
  d.guarded("fail:ADP", run_adp)

  # --- 7. potable command line end to end (fresh processes)
  tmpdir = tempfile.mkdtemp()
  cli = [sys.executable, "-W", "ignore", "/tmp/wtpy.py", WT, "-c", "from atsim.potentials.tools.potable import main; main()"]
  def potable(args, outname=None, opts=()):
    a = list(cli) + list(args)
    if outname:
      outpath = os.path.join(tmpdir, outname)
      if os.path.exists(outpath):
        os.remove(outpath)
      a.append(outpath)
    a.extend(opts)   # options that take several values go after the positional arguments
    p = subprocess.run(a, stdout=subprocess.PIPE, stderr=subprocess.PIPE, cwd=WT, universal_newlines=True)
    res = "rc=%d\nstdout=%s\n" % (p.returncode, p.stdout)
    if p.returncode != 0:
      res += "stderr-tail=%s\n" % p.stderr.strip().split("\n")[-1].replace(tmpdir, "TMP")
    if outname and os.path.exists(outpath):
      with open(outpath, "rb") as infile:
        res += "file=" + _sha(infile.read())
    return res
  basak = "docs/user_guide/example_files/basak_custom_potential_form_a.aspot"
  d.add("cli:basak", potable([basak], "b1"))
  d.add("cli:basak:gulp", potable([basak], "b2", ["--override-item", "Tabulation:target=GULP"]))
  d.add("cli:basak:bad", potable([basak], "b3", ["--override-item", "Tabulation:target=nope"]))
  d.add("cli:basak:list", potable(["--list-items", basak]))
  d.add("cli:std-eam", potable(["docs/user_guide/example_files/standard_eam.aspot"], "e1"))
  d.add("cli:fs-eam", potable(["docs/user_guide/example_files/finnis_sinclair_eam.aspot"], "e2"))
  d.add("cli:adp", potable(["tests/lammps_resources/Al_Cu_adp.aspot"], "e3", ["--override-item", "Tabulation:nr=50", "Tabulation:nrho=40"]))

  total = d.total()
  print("EXISTING-DIGEST %s (%d items)" % (total, len(d.lines)))
  return total


CHECKS = []
def check(cond, what):
  CHECKS.append((bool(cond), what))
  print("  [%s] %s" % ("ok" if cond else "FAIL", what))


def finish_new():
  bad = [w for ok, w in CHECKS if not ok]
  if bad:
    print("NEW-FEATURE FAILED (%d of %d checks)" % (len(bad), len(CHECKS)))
    sys.exit(1)
  print("NEW-FEATURE OK (%d checks)" % len(CHECKS))


# ======================================================================== part (b): edit C
def new_feature():
  import inspect
  import itertools
  from atsim.potentials import writeADP
  from atsim.potentials.eam_tabulation import ADP_EAMTabulation
  from atsim.potentials._lammpsWriteEAM import _writeSetFLPairPots

  eam, fs, pairs, dipoles, quadrupoles = _api_eam_model()
  eamd = dict((e.species, e) for e in eam)
  species = [e.species for e in eam]
  grids = [(7, 0.5, 6, 0.4), (21, 0.05, 33, 0.125)]

  def close(a, b):
    return abs(a - b) <= 1e-14 * max(1.0, abs(a), abs(b))

  def old_adp_text(nrho, drho, nr, dr, e, pp, dd, qq, **kw):
    """The three pieces exactly as ADP_EAMTabulation.write assembled them before the edit"""
    sio = io.StringIO()
    writeSetFL(nrho, drho, nr, dr, e, pp, out=sio, **kw)
    _writeSetFLPairPots(nr, dr, e, dd, sio, scale_r=False)
    _writeSetFLPairPots(nr, dr, e, qq, sio, scale_r=False)
    return sio.getvalue()

  print("C1. public function, exported next to writeSetFL, same calling convention")
  check(atsim.potentials.writeADP is writeADP and writeADP.__module__ == writeSetFL.__module__, "atsim.potentials.writeADP exported from the module of writeSetFL")
  a = inspect.getfullargspec(writeADP).args
  b = inspect.getfullargspec(writeSetFL).args
  check(a == b[:6] + ["dipolepots", "quadrupolepots"] + b[6:], "signature = writeSetFL's with dipolepots, quadrupolepots after pairpots: %s" % a)

  print("C2. writeADP == ADP_EAMTabulation.write == the pieces as they were assembled before (all element orders / subsets, 2 grids)")
  ok_same = True
  ok_faithful = True
  for n in [1, 2, 3]:
    for perm in itertools.permutations(species, n):
      e = [eamd[s] for s in perm]
      for nrho, drho, nr, dr in grids:
        cutoff, cutoff_rho = dr * (nr - 1), drho * (nrho - 1)
        for dd, qq in [(dipoles, quadrupoles), ([], []), (quadrupoles, dipoles)]:
          t1 = _to_text(writeADP, nrho, drho, nr, dr, e, pairs, dd, qq)
          t2 = _tab_text(ADP_EAMTabulation(pairs, e, dd, qq, cutoff, nr, cutoff_rho, nrho))
          t3 = old_adp_text(nrho, drho, nr, dr, e, pairs, dd, qq)
          ok_same = ok_same and t1 == t2 == t3
          # read back: setfl part first, then u(r) blocks, then w(r) blocks, (i, j<=i) in header order, unscaled, zero where undeclared
          setfl = _to_text(writeSetFL, nrho, drho, nr, dr, e, pairs)
          ok = t1.startswith(setfl)
          tail = [float(v) for v in t1[len(setfl):].split()]
          npairs = n * (n + 1) // 2
          ok = ok and len(tail) == 2 * npairs * nr
          pos = 0
          for plist in (dd, qq):
            pd = dict((tuple(sorted((p.speciesA, p.speciesB))), p) for p in plist)
            for i in range(n):
              for j in range(i + 1):
                pp = pd.get(tuple(sorted((perm[i], perm[j]))))
                for k in range(nr):
                  ok = ok and close(tail[pos], 0.0 if pp is None else pp.energy(k * dr))
                  pos += 1
          ok_faithful = ok_faithful and ok
  check(ok_same, "byte identical for 15 element lists x 2 grids x 3 dipole/quadrupole sets")
  check(ok_faithful, "file = setfl of the same model + u(r) blocks + w(r) blocks for pairs (i, j<=i) in header order, unscaled, zero filled (C19)")
  kw = dict(comments=["one", "two", "three"], cutoff=1.75)
  t = _to_text(writeADP, 7, 0.5, 6, 0.4, eam, pairs, dipoles, quadrupoles, **kw)
  check(t == old_adp_text(7, 0.5, 6, 0.4, eam, pairs, dipoles, quadrupoles, **kw) and t.split("\n")[:3] == ["one", "two", "three"] and float(t.split("\n")[4].split()[4]) == 1.75,
        "comments and cutoff are passed through to the setfl header as writeSetFL does")
  check(float(_to_text(writeADP, 7, 0.5, 6, 0.4, eam, pairs, dipoles, quadrupoles).split("\n")[4].split()[4]) == 6 * 0.4, "default cutoff is nr*dr as for writeSetFL")

  print("C3. through potable (target eam_adp) the file equals writeADP on the built objects")
  with open(os.path.join(WT, "tests/lammps_resources/Al_Cu_adp.aspot")) as infile:
    text = infile.read()
  cp = ConfigParser(io.StringIO(text), overrides=[ConfigParserOverrideTuple("Tabulation", "nr", "40"), ConfigParserOverrideTuple("Tabulation", "nrho", "30")])
  tab = Configuration().read_from_parser(cp)
  check(type(tab) is ADP_EAMTabulation and _tab_text(tab) == _to_text(writeADP, tab.nrho, tab.drho, tab.nr, tab.dr, tab.eam_potentials, tab.potentials, tab.dipole_potentials, tab.quadrupole_potentials),
        "Al_Cu_adp.aspot: potable output == writeADP(...)")

  print("C4. all-or-nothing: a failing evaluation anywhere (embedding, density, pair, dipole, quadrupole) writes nothing (C17)")
  class _Boom(Exception):
    pass
  nrho, nr = 3, 4
  def count_model(k):
    state = {"n": 0}
    def f(r):
      state["n"] += 1
      if state["n"] > k:
        raise _Boom()
      return 1.0
    e = [EAMPotential(s, 1, 1.0, f, f) for s in ["A", "B"]]
    pp = [Potential("A", "A", f), Potential("B", "A", f), Potential("B", "B", f)]
    return state, e, pp
  state, e, pp = count_model(10 ** 9)
  writeADP(nrho, 0.5, nr, 0.5, e, pp, pp, pp, out=io.StringIO())
  total = state["n"]
  check(total == 2 * (nrho + nr) + 3 * 3 * nr, "fault-free run performs %d evaluations" % total)
  ok = True
  for k in range(total):
    for use_class in (False, True):
      state, e, pp = count_model(k)
      sio = io.StringIO()
      try:
        if use_class:
          ADP_EAMTabulation(pp, e, pp, pp, 0.5 * (nr - 1), nr, 0.5 * (nrho - 1), nrho).write(sio)
        else:
          writeADP(nrho, 0.5, nr, 0.5, e, pp, pp, pp, out=sio)
        ok = False
      except _Boom:
        ok = ok and sio.getvalue() == ""
  check(ok, "failure at each of the %d evaluation positions raises and leaves the file object untouched (function and class)" % total)

  print("C5. determinism, shared default argument not mutated, hash seed independence (C12)")
  t1 = _to_text(writeADP, 7, 0.5, 6, 0.4, eam, pairs, dipoles, quadrupoles)
  _to_text(writeADP, 7, 0.5, 6, 0.4, eam[:1], pairs, [], [], comments=["x"])
  check(t1 == _to_text(writeADP, 7, 0.5, 6, 0.4, eam, pairs, dipoles, quadrupoles) and inspect.signature(writeADP).parameters["comments"].default == ["", "", ""], "repeated calls identical; default comments list untouched")
  code = ("import io,hashlib;from atsim.potentials.config import Configuration, ConfigParser, ConfigParserOverrideTuple as T;"
          "cp=ConfigParser(open('tests/lammps_resources/Al_Cu_adp.aspot'),overrides=[T('Tabulation','nr','40'),T('Tabulation','nrho','30')]);"
          "t=Configuration().read_from_parser(cp);s=io.StringIO();t.write(s);print(hashlib.sha256(s.getvalue().encode()).hexdigest())")
  digests = set()
  for seed in ["0", "1", "42", "1234", "random"]:
    env = dict(os.environ)
    env["PYTHONHASHSEED"] = seed
    p = subprocess.run([sys.executable, "-W", "ignore", "/tmp/wtpy.py", WT, "-c", code], stdout=subprocess.PIPE, stderr=subprocess.PIPE, env=env, cwd=WT, universal_newlines=True)
    digests.add(p.stdout.strip() or p.stderr.strip()[-200:])
  print("  eam_adp digests over 5 hash seeds: %s" % sorted(digests))
  check(len(digests) == 1 and hashlib.sha256(_tab_text(tab).encode()).hexdigest() in digests, "same bytes in fresh processes with different PYTHONHASHSEED")
  print("  NEW-OUTPUT-DIGEST %s" % hashlib.sha256((t1 + t).encode()).hexdigest())
  finish_new()


if __name__ == "__main__":
  mode = sys.argv[1] if len(sys.argv) > 1 else "both"
  if mode in ("existing", "both"):
    existing_digest(verbose="-v" in sys.argv)
  if mode in ("new", "both"):
    new_feature()

#!/bin/sh
# usage: tools_import_seeds5.sh <PID>   imports /tmp/seed5_<PID>/_seed/{patchI,patchJ}.diff etc. into /verif/seeded/<PID>{I,J}
P=$1
S=/tmp/seed5_$P/_seed
for L in I J; do
  [ -f $S/patch$L.diff ] || { echo "$P$L: no patch"; continue; }
  d=/verif/seeded/$P$L
  mkdir -p $d
  cp $S/patch$L.diff $d/patch.diff
  cp $S/demo$L.py $d/demo.py 2>/dev/null
  cp $S/notes.md $d/agent_notes.md 2>/dev/null
  /venv/bin/python - "$P" "$L" "$d" <<'PY'
import json, sys
pid, L, d = sys.argv[1:]
title = ""
for l in open('/verif/properties.jsonl'):
    r = json.loads(l)
    if r['id'] == pid:
        title = r['title']
json.dump({"id": pid + L, "breaks_property": pid, "property_title": title,
           "source": "independent sub-agent (round 5: refactorings and dead-code removals that look behaviour-preserving but are not) given only the property record and a scratch worktree (see agent_notes.md, mutation %s)" % L,
           "needs_to_manifest": "see agent_notes.md section for mutation %s" % L}, open(d + '/meta.json', 'w'), indent=1)
PY
done

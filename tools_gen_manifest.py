#!/venv/bin/python
"""Regenerates MANIFEST.json from the table below (kept next to the code so the
manifest never drifts from what ./check implements)."""
import json, os
HERE = os.path.dirname(os.path.abspath(__file__))
import sys
sys.path.insert(0, HERE)
from sa.manifest_table import CHECKS, NOT_APPLICABLE, ENGINES

checks = []
for pid, c in sorted(CHECKS.items()):
    checks.append({
        "property_id": pid,
        "quick_cmd": "./check %s --tier quick" % pid,
        "thorough_cmd": "./check %s --tier thorough" % pid,
        "evidence_file": "/verif/evidence/%s.json" % pid,
        "replay_cmd_template": "./check %s --replay {path}" % pid,
        "engine": c["engine"],
        "level_claimed": {"category": c["level"], "text": c["text"], "design_ref": c["design_ref"]},
        "level_note": c["note"],
        "technique": c["technique"],
    })
m = {
    "version": 1,
    "setup_cmd": "/venv/bin/python -m compileall -q /verif/sa",
    "hooks": {
        "guard": "ATSIM_POTENTIALS_VERIF",
        "enable": "no hooks: checks parse /repo's source and never import or run it; the guard variable is unused",
        "baseline_off_cmd": "cd /repo && /venv/bin/python -m pytest -ra -q -p no:cacheprovider --timeout=900 --continue-on-collection-errors",
        "source_commits": [],
        "add_only": True,
    },
    "engines": ENGINES,
    "checks": checks,
    "not_applicable": [{"property_id": p, "reason": r} for p, r in sorted(NOT_APPLICABLE.items())],
    "notes": "All checks are static analyses (stdlib ast/symtable) of /repo's working tree; see DESIGN.md.",
}
with open(os.path.join(HERE, "MANIFEST.json"), "w") as f:
    json.dump(m, f, indent=1)
print("wrote MANIFEST.json with %d checks, %d not_applicable" % (len(checks), len(m["not_applicable"])))

#!/bin/sh
# usage: tools_try_edit.sh <relative file> <old text> <new text> <property...>  (checks against scratch worktree with one textual edit)
F=$1; OLD=$2; NEW=$3; shift 3
WT=/tmp/repo_clean
[ -d $WT ] || git -C /repo worktree add -q --detach $WT HEAD
git -C $WT reset -q --hard; git -C $WT checkout -q --detach $(git -C /repo rev-parse HEAD)
OLD="$OLD" NEW="$NEW" /venv/bin/python - "$WT/$F" <<'PY' || exit 2
import os,sys
p=sys.argv[1]; s=open(p).read(); old=os.environ['OLD']; new=os.environ['NEW']
if s.count(old)!=1:
    print("edit: old text occurs %d times"%s.count(old)); sys.exit(2)
open(p,'w').write(s.replace(old,new))
PY
for p in "$@"; do
  VERIF_EVIDENCE_DIR=/tmp/ev_scratch VERIF_REPO=$WT /verif/check $p > /tmp/_try.out 2>&1; rc=$?
  echo "== edit of $F, check $p exit=$rc"
  grep -E "^VIOLATION|^ANALYSIS-ERROR|^KNOWN|obligation:" /tmp/_try.out | head -${MAXL:-6}
done
git -C $WT reset -q --hard

"""Arity guard for library-contract models.

Every builtin / library model (x_* and m_* handlers) is a small Python function taking (args, kwargs).  A model that
silently ignores an argument it was given misrepresents the library (enumerate(seq, 2) evaluated as enumerate(seq)),
so the dispatcher asks this module, before calling a handler, which positional arguments and whether keyword arguments
the handler's own source ever looks at.  Anything it does not look at is refused: the analysis fails closed
(ANALYSIS-ERROR) instead of evaluating a different program."""
import ast
import inspect
import textwrap

_CACHE = {}


def _profile(fn):
    f = getattr(fn, "__func__", fn)
    if f in _CACHE:
        return _CACHE[f]
    try:
        src = textwrap.dedent(inspect.getsource(f))
        node = ast.parse(src).body[0]
    except (OSError, TypeError, SyntaxError, IndexError):
        _CACHE[f] = (None, True)
        return _CACHE[f]
    if isinstance(node, ast.Assign):      # alias  x_repr = x_str  (source of the aliased function is returned)
        _CACHE[f] = (None, True)
        return _CACHE[f]
    params = [a.arg for a in node.args.args]
    maxidx = -1
    whole_args = False
    uses_kw = False
    for n in ast.walk(node):
        if isinstance(n, ast.Name) and n.id == "kwargs":
            uses_kw = True
        if isinstance(n, ast.Name) and n.id == "args":
            whole_args = True     # provisional: refined below
    # refine: every use of the name `args` that is args[<int>] only
    class V(ast.NodeVisitor):
        def __init__(self):
            self.whole = False
            self.maxidx = -1

        def visit_Subscript(self, n):
            if isinstance(n.value, ast.Name) and n.value.id == "args":
                if isinstance(n.slice, ast.Constant) and isinstance(n.slice.value, int) and n.slice.value >= 0:
                    self.maxidx = max(self.maxidx, n.slice.value)
                    return
                self.whole = True
                return
            self.generic_visit(n)

        def visit_Name(self, n):
            if n.id == "args":
                self.whole = True
    v = V()
    for st in node.body:
        v.visit(st)
    if "args" not in params:
        v.whole = True
    if "kwargs" not in params:
        uses_kw = True
    _CACHE[f] = (None if v.whole else v.maxidx + 1, uses_kw)
    return _CACHE[f]


def unread(fn, args, kwargs):
    """-> None when the handler reads everything it is given, else a description of what it would ignore"""
    npos, uses_kw = _profile(fn)
    if npos is not None and len(args) > npos:
        return "positional argument %d" % (npos + 1)
    if kwargs and not uses_kw:
        return "keyword argument(s) %s" % ", ".join(sorted(kwargs))
    return None

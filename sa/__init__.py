"""Static-analysis engines and property rules for atsim-potentials (see /verif/DESIGN.md)."""

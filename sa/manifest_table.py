"""Single source for MANIFEST.json (see tools_gen_manifest.py)."""

ENGINES = [
    {"name": "E-TAINT", "path": "sa/taint.py", "serves_properties": ["C12"], "kind_free_text": "field-based interprocedural hash-order taint to output effects"},
    {"name": "E-LIBMODEL", "path": "sa/cfgmodel.py, sa/excelmodel.py", "serves_properties": ["C09", "C12", "C14", "C15", "C16", "C19", "C20"], "kind_free_text": "call-level models of configparser base class, cexprtk, openpyxl used under the repo's real overrides"},
    {"name": "E-MODEL", "path": "sa/model.py", "serves_properties": ["C01-C20"], "kind_free_text": "program model / resolver over /repo's ast (modules, classes, MRO, imports)"},
    {"name": "E-EP", "path": "sa/ep.py", "serves_properties": ["C01", "C02", "C03", "C04", "C05", "C06", "C07", "C10", "C11", "C18", "C19"], "kind_free_text": "exact exp-polynomial / rational normal forms, symbolic differentiation, tolerant equality"},
    {"name": "E-SYM", "path": "sa/interp.py (symeval*.py, values.py, strtree.py, fmt.py)", "serves_properties": ["C01", "C02", "C03", "C04", "C05", "C06", "C07", "C10", "C17", "C19"], "kind_free_text": "abstract evaluator: if-converted (gated) translation of repo functions into normal-form values, output-expression trees and effect logs; loops by recurrences/families"},
    {"name": "E-CMP", "path": "sa/treecmp.py + sa/specs/writers.py", "serves_properties": ["C01", "C02", "C03", "C04", "C05", "C19"], "kind_free_text": "reference writers transcribed from the property statements; structural/algebraic tree equality modulo alpha-renaming"},
]

_W = ("translation of the real write path into an output-expression tree by abstract evaluation of /repo's source "
      "(no execution), compared field by field with a reference writer transcribed from the statement; values are compared "
      "as exact rational normal forms, so equality holds for all grids, potentials and element lists at once")
_N = ("trusted: CPython's ast parser, the abstract evaluator and normal-form algebra under /verif/sa, the reference writers "
      "in sa/specs/writers.py (read them: they are the oracle). Not decided: floating-point rounding of the evaluated "
      "formulas, third-party library behaviour.")

CHECKS = {
    "C01": {"engine": "E-SYM", "level": "other", "design_ref": "DESIGN.md section 4 C01 and section 11",
            "text": "Conformance of every piece of the LAMMPS table emitted by LAMMPS_PairTabulation.write and writePotentials('LAMMPS') to the reference table (header N/lo/hi, rows 1..N at n*dr, E and -dE/dr of the same callable), of the potable factory route, and of gradient()/num_deriv() (analytic iff .deriv, else central difference). " + _W,
            "note": _N, "technique": "abstract interpretation to output-expression trees + algebraic normal-form equality against a reference writer"},
    "C02": {"engine": "E-SYM", "level": "other", "design_ref": "DESIGN.md section 4 C02 and section 11",
            "text": "Conformance of the DL_POLY TABLE written by DLPoly_PairTabulation.write / writePotentials('DL_POLY') to the reference (exact field formats, energies then -r dV/dr at k*delpot, 4 per record) and of the divisible-by-four rejection on the API and factory routes (both target spellings). " + _W,
            "note": _N, "technique": "abstract interpretation to output-expression trees (accumulator recurrences, chunk idiom) + normal-form equality; raise-condition extraction"},
    "C03": {"engine": "E-SYM", "level": "other", "design_ref": "DESIGN.md section 4 C03 and section 11",
            "text": "Conformance of the setfl file (class and public function) to the reference, of the potable route for all three target spellings, of the EAM builder's constructor binding and metadata defaults (builder run through its public constructor on stand-ins of the parser views, form builder and reference data), the three comment lines of the header, and of Reference_Data precedence. " + _W,
            "note": _N, "technique": "abstract interpretation to output-expression trees with symbolic dictionary lookups + normal-form equality; abstract evaluation of builder and reference-data code"},
    "C04": {"engine": "E-SYM", "level": "other", "design_ref": "DESIGN.md section 4 C04 and section 11",
            "text": "Index-role agreement of Finnis-Sinclair densities in the eam/fs and EEAM writers (tree equality with reference writers that state the consumer's convention), Excel columns, 'A->B' key parsing, FS builder nesting and zero filling (builder run through its public constructor; definitions are concrete tuples, some equal up to a range boundary or marker), all on models with pairwise distinct opaque density functions so that any transposition changes a compared value.",
            "note": _N + " The consumers' conventions are those restated in the property.", "technique": "abstract interpretation + index-role comparison (who subscripts whom) against reference writers"},
    "C05": {"engine": "E-SYM", "level": "other", "design_ref": "DESIGN.md section 4 C05 and section 11",
            "text": "Conformance of TABEAM/EEAM output (classes and public functions) to the reference, and an identity proof in n = len(eampots) that the declared function count equals the number of blocks counted in the implementation's own output tree (n(n+1)/2 sorted unordered pairs + n + n or n*n).",
            "note": _N, "technique": "abstract interpretation to output-expression trees + symbolic block counting (polynomial identity in n)"},
    "C17": {"engine": "E-SYM", "level": "other", "design_ref": "DESIGN.md section 4 C17 and section 11",
            "text": "Effect-order rule over every registered tabulation class (11 today): in the abstract evaluation of write(fp) no evaluation of a user-supplied callable may follow (or share a loop with) a write that reaches fp; with every function role (pair, density, embedding, dipole, quadrupole) in turn made to fail, write() called twice on the same object emits nothing either time (no half-built state is kept); action_tabulate builds before it opens the file and writes to the file it opened; open_fp(name) of every class opens the named file for writing. Lazy generators are modelled as interleaving with their consumer.",
            "note": "trusted: the abstract evaluator's effect log (EVAL = call of an opaque user callable, WRITE = write on the file parameter; StringIO writes are local). Not decided: I/O errors, failures inside openpyxl.save.",
            "technique": "effect/ordering analysis (EVAL* WRITE* typestate) over inlined call graph with loop nesting"},
}

_F = ("exact exp-polynomial normal forms (rational coefficients, symbolic exponents, merged exponentials) computed from /repo's "
      "source by the abstract evaluator; equality of normal forms is equality of the functions for every r and parameter vector")

CHECKS.update({
    "C06": {"engine": "E-SYM", "level": "proof", "design_ref": "DESIGN.md section 4 C06 and section 11",
            "text": "Identity proofs: for each of the 14 documented built-in forms (any further form the package registers gets every rule that needs no reference formula) the normal form of __call__ equals that of the manual's formula (sa/specs/forms.py) and of the class's _as_sympy sibling; parameter order equals the manual's ':potable signature:' (parsed on each run); the factory, registry ('as.NAME') and formula-call routes are evaluated through the real wrapper code and give the same normal form; arity checks raise. " + _F,
            "note": _N + " ZBL is proved against _as_sympy only (manual entry schematic). Tolerance 1e-9 relative on machine-generated constants.",
            "technique": "symbolic normal-form identity (term rewriting to canonical exp-polynomials) over abstractly evaluated source"},
    "C07": {"engine": "E-SYM", "level": "proof", "design_ref": "DESIGN.md section 4 C07 and section 11",
            "text": "Identity proofs D(value) = deriv and D(deriv) = deriv2 by syntax-directed differentiation of normal forms for all built-in forms (polynomial orders 0..8, thorough 0..16), plus/product/pow over opaque operands (including mixed analytic/numeric operands), trans(), multi-range forms, splined potentials per region, Buck4 selection, factory wrappers and the table form's derivative objects; gradient()/num_deriv() bodies checked separately.",
            "note": _N + " Accuracy of the h=1e-6 central difference and scipy's spline derivative are assumptions.",
            "technique": "symbolic differentiation + normal-form identity; Phi-tree (region) alignment"},
    "C08": {"engine": "E-SYM", "level": "proof", "design_ref": "DESIGN.md section 4 C08 and section 11",
            "text": "Premise by dataflow (r, starts, markers only in comparisons), then exhaustive enumeration of every order type of (r, starts), marker assignment and listing permutation for k <= 3 (quick) / k <= 5 (thorough) ranges, evaluating the real constructor, sorted setter and the public __call__/deriv/deriv2 abstractly against the stated selection (range i is the opaque function f_i, so the value names the selected range); class selection of create_Multi_Range_Potential_Form over all availability patterns; whole potable definitions from the text of a [Pair] entry (grammar evaluated through a model of pyparsing's combinators) to the built callable at probe separations: default range, marker binding, '>=' before '>', lone parts, two definitions sharing one builder.",
            "note": _N + " Exhaustive within the stated bound on the number of ranges.",
            "technique": "comparison-only dataflow premise + exhaustive finite-domain abstract evaluation (order types)"},
    "C10": {"engine": "E-SYM", "level": "other", "design_ref": "DESIGN.md section 4 C10 and section 11",
            "text": "The spline-defining linear systems are extracted by abstract evaluation of the public constructors Exp_Spline(...) / Buck4_Spline(...) (numpy.linalg.solve captured) and every row/right-hand side is proved to be the stated C2 / stationary-point constraint (Exp_Spline on both branches of the positivity shift, Buck4 as a set of 10 linear equations); region map, spline() modifier bindings, buck4 shorthand and region-wise derivatives are compared by role.",
            "note": _N + " Solvability/conditioning of numpy.linalg.solve is assumed.", "technique": "constraint-matrix extraction by abstract evaluation + row-wise normal-form identities"},
    "C11": {"engine": "E-SYM", "level": "other", "design_ref": "DESIGN.md section 4 C11 and section 11",
            "text": "Exhaustive decision table (presence x sign of nr/dr/cutoff, both instances, 128 cases) of the [Tabulation] grid options, reached as potable reaches them (ConfigParser(text).tabulation on the configparser model) with symbolic positive values; rounding-safe quotient-to-count idiom on the normal form (rejects bare truncation and tolerances below the quotient's rounding error); defaults and grid-step definitions.",
            "note": _N, "technique": "finite-domain abstract evaluation + idiom rule on arithmetic normal forms"},
    "C13": {"engine": "E-SYM", "level": "other", "design_ref": "DESIGN.md section 4 C13 and section 11",
            "text": "Exhaustive filter table (all include/exclude sets over {A,B,C,unknown}, one- and two-species keys, four views) evaluated abstractly with wrapt.ObjectProxy's attribute forwarding modelled, a multi-view history for isolation (the views themselves, and both EAM builders run on several views of one parsed file in one evaluation, functools.lru_cache modelled), exhaustiveness of overridden views, and the CLI's presence tests evaluated from the registered console entry point on an argparse model.",
            "note": _N + " wrapt's documented rule (_self_ prefix) is modelled, not wrapt itself.", "technique": "finite-domain abstract evaluation with proxy-attribute (ownership) model; who-may-access lint"},
    "C19": {"engine": "E-SYM", "level": "other", "design_ref": "DESIGN.md section 4 C19 and section 11",
            "text": "GULP, ADP and funcfl writers: output-expression tree equality with reference writers; ADP factory slot binding; Excel workbooks evaluated on a recording openpyxl model with symbolic rows (first column = grid, labelled column = that label's function).",
            "note": _N, "technique": "abstract interpretation to output-expression trees / recorded worksheet cells + normal-form equality"},
})

_L = ("configparser, wrapt, cexprtk, openpyxl, numpy and scipy are not analysed: their documented call-level behaviour is modelled in "
      "sa/cfgmodel.py, sa/excelmodel.py and the rule modules, and the repository's own overrides/wrappers are evaluated on top of the models")

CHECKS.update({
    "C09": {"engine": "E-SYM", "level": "other", "design_ref": "DESIGN.md section 4 C09 and section 11",
            "text": "Structural clauses of the model language only: modifier-to-combinator binding and reduction order, trans shift, parse-tree walker (ranges, nesting), grammar/consumer name agreement, builder argument order, positional parameter binding and mutual registration of custom formulas, signature parsing, documented modifiers/pymath names, every pymath wrapper forwarding its arguments in order to math.NAME, key normalisation and delimiters - each by abstract evaluation of the real functions on opaque arguments or by syntax-tree comparison. Definitions are given as texts: the package's grammar construction is evaluated into a grammar tree and literal texts are matched by pyparsing's rules (sa/pyparsingmodel.py), so grammar and tree walker are checked together through ConfigParser's public properties. The semantics of cexprtk expressions are not decided.",
            "note": _N + " " + _L, "technique": "abstract interpretation over opaque operands + grammar/consumer name agreement on the syntax tree"},
    "C12": {"engine": "E-TAINT", "level": "other", "design_ref": "DESIGN.md section 4 C12 and section 11",
            "text": "Hash-order taint (unsorted set iteration -> containers -> fields/arguments/returns -> output effects) over the whole package with a must-flag positive example; shared-state rules (global statements, module/class-level containers, factory singletons, mutable defaults and the fields storing them); purity of custom-formula evaluation (unconditional re-binding, no call state; abstract evaluation of interleaved calls); write-once caches; nondeterminism sources.",
            "note": "trusted: the taint engine's propagation rules (sa/taint.py) and name-based call resolution (class-hierarchy analysis); dict/list order is deterministic, only set order depends on the hash seed. Not decided: bytes written inside openpyxl.",
            "technique": "field-based interprocedural taint analysis + effect/ownership lints + abstract evaluation of call histories"},
    "C14": {"engine": "E-SYM", "level": "other", "design_ref": "DESIGN.md section 4 C14 and section 11",
            "text": "Overrides/removals/additions evaluated on the repository's real _RawConfigParser overrides over a model of configparser's base class: resulting file state (items and their order) equals the hand edit for every spelling of the key, presence scenario and two-edit sequence on one item, rejections are the documented configuration errors; optionxform proved equal to the dictionary key transform for every key (symbolic string-transformation chains); the console entry point registered in setup.py run end to end on an argparse model: -e/-a/-r splitting on every delimiter pattern, later-wins / removal / addition tables, --list-items and --item-value output and exit status on a file with every section kind.",
            "note": _N + " " + _L, "technique": "finite-domain abstract evaluation over a library-contract model + symbolic equality of string-transform chains"},
    "C15": {"engine": "E-SYM", "level": "other", "design_ref": "DESIGN.md section 4 C15 and section 11",
            "text": "For a file with every section kind, every raw section view and every ConfigParser accessor is evaluated with and without a block of unreferenced variables named like options of each section and must agree; placeholders equal textual substitution; parser construction arguments; deny-list of default-merging parser APIs.",
            "note": _N + " " + _L, "technique": "differential abstract evaluation over a library-contract model + who-may-call lint"},
    "C16": {"engine": "E-SYM", "level": "other", "design_ref": "DESIGN.md section 4 C16 and section 11",
            "text": "Error-discipline conformance: undefined-name pass over all functions, who-may-raise rule on the configuration modules, exhaustive input-partition evaluation of every validating function (keys, numbers, table-form option subsets, spline/trans part counts and r_min positions, configparser error classes, unknown names), names the expression library refuses, wrong arity in nested custom-form calls, handlers that would swallow a user-input error, denominators versus accepted row counts per target, main()'s conversion, documented-valid subset of accepted values.",
            "note": _N + " " + _L + " Python can raise from almost anything: this is conformance to the enumerated partitions and rules.",
            "technique": "symbol-table lint + who-may-raise rule + finite input-partition abstract evaluation + division-site analysis"},
    "C18": {"engine": "E-SYM", "level": "other", "design_ref": "DESIGN.md section 4 C18 and section 11",
            "text": "Table form construction arguments (ext=1 only), derivative objects, xy de-interleaving on every parity, TableReader.getValue on every position of x for tables of 1..4 (thorough: 1..7) points with symbolic ordinates (comparison-only premise), DatReader on every class of input line, plotToFile and wrappers as output trees.",
            "note": _N + " scipy's interpolation property itself is an assumption.", "technique": "finite-domain abstract evaluation + output-tree equality"},
    "C20": {"engine": "E-SYM", "level": "other", "design_ref": "DESIGN.md section 4 C20 and section 11",
            "text": "Every kind of duplication named in the property evaluated on the real parser overrides over the strict base-class model (whitespace variants, repeated sections), the same item added twice, the constructor's reversed-pair (multi-character species, different lengths) and table-form-name checks, registry clashes in every role (table form vs formula vs built-in incl. forms registered last), repeated A->B densities; optionxform == dictionary transform for every key.",
            "note": _N + " " + _L, "technique": "finite-domain abstract evaluation over a library-contract model + symbolic transform equality"},
})

_PENDING = "checker not built yet in this session (design in DESIGN.md section 4); not claimed until its check exists"
NOT_APPLICABLE = dict(("C%02d" % i, _PENDING) for i in range(1, 21) if ("C%02d" % i) not in CHECKS)

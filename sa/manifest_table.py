"""Single source for MANIFEST.json (see tools_gen_manifest.py)."""

ENGINES = [
    {"name": "E-MODEL", "path": "sa/model.py", "serves_properties": [], "kind_free_text": "program model / resolver (ast)"},
]

CHECKS = {}

_PENDING = "checker not built yet in this session (design in DESIGN.md section 4); not claimed until its check exists"
NOT_APPLICABLE = dict(("C%02d" % i, _PENDING) for i in range(1, 21))

"""Single source for MANIFEST.json (see tools_gen_manifest.py)."""

ENGINES = [
    {"name": "E-MODEL", "path": "sa/model.py", "serves_properties": ["C01-C20"], "kind_free_text": "program model / resolver over /repo's ast (modules, classes, MRO, imports)"},
    {"name": "E-EP", "path": "sa/ep.py", "serves_properties": ["C01", "C02", "C03", "C04", "C05", "C06", "C07", "C10", "C11", "C18", "C19"], "kind_free_text": "exact exp-polynomial / rational normal forms, symbolic differentiation, tolerant equality"},
    {"name": "E-SYM", "path": "sa/interp.py (symeval*.py, values.py, strtree.py, fmt.py)", "serves_properties": ["C01", "C02", "C03", "C04", "C05", "C06", "C07", "C10", "C17", "C19"], "kind_free_text": "abstract evaluator: if-converted (gated) translation of repo functions into normal-form values, output-expression trees and effect logs; loops by recurrences/families"},
    {"name": "E-CMP", "path": "sa/treecmp.py + sa/specs/writers.py", "serves_properties": ["C01", "C02", "C03", "C04", "C05", "C19"], "kind_free_text": "reference writers transcribed from the property statements; structural/algebraic tree equality modulo alpha-renaming"},
]

_W = ("translation of the real write path into an output-expression tree by abstract evaluation of /repo's source "
      "(no execution), compared field by field with a reference writer transcribed from the statement; values are compared "
      "as exact rational normal forms, so equality holds for all grids, potentials and element lists at once")
_N = ("trusted: CPython's ast parser, the abstract evaluator and normal-form algebra under /verif/sa, the reference writers "
      "in sa/specs/writers.py (read them: they are the oracle). Not decided: floating-point rounding of the evaluated "
      "formulas, third-party library behaviour.")

CHECKS = {
    "C01": {"engine": "E-SYM", "level": "other", "design_ref": "DESIGN.md section 4 C01 and section 11",
            "text": "Conformance of every piece of the LAMMPS table emitted by LAMMPS_PairTabulation.write and writePotentials('LAMMPS') to the reference table (header N/lo/hi, rows 1..N at n*dr, E and -dE/dr of the same callable), of the potable factory route, and of gradient()/num_deriv() (analytic iff .deriv, else central difference). " + _W,
            "note": _N, "technique": "abstract interpretation to output-expression trees + algebraic normal-form equality against a reference writer"},
    "C02": {"engine": "E-SYM", "level": "other", "design_ref": "DESIGN.md section 4 C02 and section 11",
            "text": "Conformance of the DL_POLY TABLE written by DLPoly_PairTabulation.write / writePotentials('DL_POLY') to the reference (exact field formats, energies then -r dV/dr at k*delpot, 4 per record) and of the divisible-by-four rejection on the API and factory routes (both target spellings). " + _W,
            "note": _N, "technique": "abstract interpretation to output-expression trees (accumulator recurrences, chunk idiom) + normal-form equality; raise-condition extraction"},
    "C03": {"engine": "E-SYM", "level": "other", "design_ref": "DESIGN.md section 4 C03 and section 11",
            "text": "Conformance of the setfl file (class and public function) to the reference, of the potable route for all three target spellings, of the EAM builder's constructor binding and metadata defaults, and of Reference_Data precedence. " + _W,
            "note": _N, "technique": "abstract interpretation to output-expression trees with symbolic dictionary lookups + normal-form equality; abstract evaluation of builder and reference-data code"},
    "C04": {"engine": "E-SYM", "level": "other", "design_ref": "DESIGN.md section 4 C04 and section 11",
            "text": "Index-role agreement of Finnis-Sinclair densities in the eam/fs and EEAM writers (tree equality with reference writers that state the consumer's convention), Excel columns, 'A->B' key parsing, FS builder nesting and zero filling, all on models with pairwise distinct opaque density functions so that any transposition changes a compared value.",
            "note": _N + " The consumers' conventions are those restated in the property.", "technique": "abstract interpretation + index-role comparison (who subscripts whom) against reference writers"},
    "C05": {"engine": "E-SYM", "level": "other", "design_ref": "DESIGN.md section 4 C05 and section 11",
            "text": "Conformance of TABEAM/EEAM output (classes and public functions) to the reference, and an identity proof in n = len(eampots) that the declared function count equals the number of blocks counted in the implementation's own output tree (n(n+1)/2 sorted unordered pairs + n + n or n*n).",
            "note": _N, "technique": "abstract interpretation to output-expression trees + symbolic block counting (polynomial identity in n)"},
    "C17": {"engine": "E-SYM", "level": "other", "design_ref": "DESIGN.md section 4 C17 and section 11",
            "text": "Effect-order rule over all 11 registered tabulation classes: in the abstract evaluation of write(fp) no evaluation of a user-supplied callable may follow (or share a loop with) a write that reaches fp; action_tabulate builds before it opens the file. Lazy generators are modelled as interleaving with their consumer.",
            "note": "trusted: the abstract evaluator's effect log (EVAL = call of an opaque user callable, WRITE = write on the file parameter; StringIO writes are local). Not decided: I/O errors, failures inside openpyxl.save.",
            "technique": "effect/ordering analysis (EVAL* WRITE* typestate) over inlined call graph with loop nesting"},
}

_PENDING = "checker not built yet in this session (design in DESIGN.md section 4); not claimed until its check exists"
NOT_APPLICABLE = dict(("C%02d" % i, _PENDING) for i in range(1, 21) if ("C%02d" % i) not in CHECKS)

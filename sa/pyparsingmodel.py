"""Library-contract model of the part of pyparsing the package uses.

The package builds its grammar by calling pyparsing's combinators (Literal, Group, Combine, ZeroOrMore, Optional, Forward,
delimitedList, pyparsing_common.number / identifier, `+`, `|`, `<<`, results names, suppress).  The abstract evaluator
evaluates that construction code; each combinator is modelled by a node of a grammar tree, and parseString(text) on a
*literal* text is decided by matching the text against the tree with pyparsing's own rules:

* And: elements in sequence; MatchFirst (`|`): first alternative that matches, no later re-trial; ZeroOrMore / Optional:
  greedy, never given back; leading white space (blank, tab, newline, carriage return) skipped before every terminal,
  except between the pieces of a Combine;
* Group wraps the tokens of its expression in one nested result that carries the group's results name and holds the
  results names set inside it; a results name on a non-group element names the (last) token it produced;
* parseString(text, parseAll=True) raises ParseException unless the whole text (up to trailing white space) is consumed.

Parse results are model objects offering what the package's tree walker uses: iteration, len(), [index], [name],
getName(), `name in results`.  The text must be a constant; the model refuses (ANALYSIS-ERROR) anything it does not know."""
import re
from fractions import Fraction

from . import ep
from .model import AnalysisError
from .values import *    # noqa
from .symeval import RaiseSignal
from .symeval_ops import ExcV, PyObjV

WS = " \t\n\r"
NUMBER_RE = re.compile(r"[+-]?(?:\d+(?:[eE][+-]?\d+)|(?:\d+\.\d*|\.\d+)(?:[eE][+-]?\d+)?)|[+-]?\d+")
INT_RE = re.compile(r"[+-]?\d+$")
IDENT_RE = re.compile(r"[A-Za-z_][A-Za-z0-9_]*")


class Fail(Exception):
    def __init__(self, loc, msg):
        self.loc, self.msg = loc, msg


class PE(object):
    """parser element"""
    name = None          # results name

    def __init__(self, kind, *args):
        self.kind = kind
        self.args = list(args)

    def copy(self):
        c = PE(self.kind, *self.args)
        c.name = self.name
        c.__dict__.update((k, v) for k, v in self.__dict__.items() if k not in ("kind", "args", "name"))
        return c

    def __repr__(self):
        return "%s%r%s" % (self.kind, tuple(self.args), "(%r)" % self.name if self.name else "")

    # ---- the element as seen by the evaluated package code
    def m___call__(self, I, args, kwargs):
        return self.m_setResultsName(I, args, kwargs)

    def m_setResultsName(self, I, args, kwargs):
        nm = args[0] if args else kwargs.get("name")
        extra = set(kwargs) - {"name"}
        if len(args) > 1 or extra or not (isinstance(nm, Const) and isinstance(nm.v, str)):
            raise AnalysisError("pyparsing model: setResultsName%r %r" % (tuple(args), kwargs))
        if nm.v.endswith("*"):
            raise AnalysisError("pyparsing model: listAllMatches results names are not modelled")
        c = self.copy()
        c.name = nm.v
        return PyObjV(c)

    m_set_results_name = m_setResultsName

    def m_suppress(self, I, args, kwargs):
        if args or kwargs:
            raise AnalysisError("pyparsing model: suppress arguments")
        return PyObjV(PE("suppress", self))

    def m_streamline(self, I, args, kwargs):
        if args or kwargs:
            raise AnalysisError("pyparsing model: streamline arguments")
        return PyObjV(self)

    def m_copy(self, I, args, kwargs):
        if args or kwargs:
            raise AnalysisError("pyparsing model: copy arguments")
        return PyObjV(self.copy())

    def binop(self, I, op, other, reflected=False):
        import ast
        o = as_pe(other)
        a, b = (o, self) if reflected else (self, o)
        if isinstance(op, ast.Add):
            items = (a.args if a.kind == "and" and a.name is None else [a]) + [b]
            return PyObjV(PE("and", *items))
        if isinstance(op, ast.BitOr):
            items = (a.args if a.kind == "first" and a.name is None else [a]) + [b]
            return PyObjV(PE("first", *items))
        if isinstance(op, ast.LShift) and not reflected and self.kind == "forward":
            self.args = [o]
            return PyObjV(self)
        raise AnalysisError("pyparsing model: operator %s on parser elements" % type(op).__name__)

    def m_parseString(self, I, args, kwargs):
        text = args[0] if args else kwargs.get("instring", kwargs.get("string"))
        pall = args[1] if len(args) > 1 else kwargs.get("parseAll", kwargs.get("parse_all", FALSE))
        if len(args) > 2 or set(kwargs) - {"instring", "string", "parseAll", "parse_all"}:
            raise AnalysisError("pyparsing model: parseString arguments %r %r" % (args, kwargs))
        if not (isinstance(text, Const) and isinstance(text.v, str)):
            raise AnalysisError("pyparsing model: the text handed to parseString is not a literal: %r" % (text,))
        if not (isinstance(pall, Const) and isinstance(pall.v, bool)):
            raise AnalysisError("pyparsing model: parseAll=%r" % (pall,))
        s = text.v
        try:
            pos, toks, named = match(self, s, 0, False)
            if pall.v:
                end = skip_ws(s, pos)
                if end != len(s):
                    raise Fail(end, "Expected end of text")
        except Fail as f:
            ex = ExcV(ExtV("pyparsing.ParseException"), [Const(f.msg)])
            ex.attrs = {"loc": Num(ep.const(f.loc)), "msg": Const(f.msg), "pstr": text}
            raise RaiseSignal(ex, None)
        return PyObjV(Results(toks, named, None))

    m_parse_string = m_parseString


def as_pe(v):
    if isinstance(v, PyObjV) and isinstance(v.obj, PE):
        return v.obj
    if isinstance(v, Const) and isinstance(v.v, str):
        return PE("literal", v.v)          # pyparsing promotes strings in expressions to Literal
    raise AnalysisError("pyparsing model: %r used as a parser element" % (v,))


class Results(object):
    """ParseResults"""
    def __init__(self, toks, named, name):
        self.toks, self.named, self.name = list(toks), dict(named), name

    def iter_items(self, I):
        return list(self.toks)

    def length(self, I):
        return Num(ep.const(len(self.toks)))

    def getitem(self, I, idx):
        if isinstance(idx, Const) and isinstance(idx.v, str):
            if idx.v not in self.named:
                raise RaiseSignal(ExcV(ExtV("builtins.KeyError"), [idx]), None)
            return self.named[idx.v]
        c = idx.const() if isinstance(idx, Num) else None
        if c is None or c.denominator != 1:
            raise AnalysisError("pyparsing model: results[%r]" % (idx,))
        i = int(c)
        if not -len(self.toks) <= i < len(self.toks):
            raise RaiseSignal(ExcV(ExtV("builtins.IndexError"), [idx]), None)
        return self.toks[i]

    def contains(self, I, item):
        if isinstance(item, Const) and isinstance(item.v, str):
            return item.v in self.named
        raise AnalysisError("pyparsing model: %r in results" % (item,))

    def m_getName(self, I, args, kwargs):
        if args or kwargs:
            raise AnalysisError("pyparsing model: getName arguments")
        return Const(self.name)

    m_get_name = m_getName

    def m_get(self, I, args, kwargs):
        if kwargs or not 1 <= len(args) <= 2 or not (isinstance(args[0], Const) and isinstance(args[0].v, str)):
            raise AnalysisError("pyparsing model: results.get%r" % (tuple(args),))
        if args[0].v in self.named:
            return self.named[args[0].v]
        return args[1] if len(args) == 2 else NONE

    def m_asList(self, I, args, kwargs):
        if args or kwargs:
            raise AnalysisError("pyparsing model: asList arguments")
        return ListV([PyObjV(t.obj).obj.m_asList(I, [], {}) if isinstance(t, PyObjV) and isinstance(t.obj, Results) else t
                      for t in self.toks], "list")

    m_as_list = m_asList

    def __repr__(self):
        return "Results(%r, %r, %r)" % (self.toks, sorted(self.named), self.name)


def skip_ws(s, pos):
    while pos < len(s) and s[pos] in WS:
        pos += 1
    return pos


def match(e, s, pos, adjacent):
    """-> (new position, tokens, named results); raises Fail"""
    toks, named = [], {}
    k = e.kind
    if k in ("literal", "number", "identifier"):
        if not adjacent:
            pos = skip_ws(s, pos)
        if k == "literal":
            lit = e.args[0]
            if not s.startswith(lit, pos):
                raise Fail(pos, "Expected %r" % lit)
            pos, toks = pos + len(lit), [Const(lit)]
        elif k == "number":
            m = NUMBER_RE.match(s, pos)
            if not m:
                raise Fail(pos, "Expected number")
            txt = m.group(0)
            if INT_RE.match(txt):
                val = Num(ep.const(int(txt)))
            else:
                val = Num(ep.const(Fraction(txt)), True)
            pos, toks = m.end(), [val]
        else:
            m = IDENT_RE.match(s, pos)
            if not m:
                raise Fail(pos, "Expected identifier")
            pos, toks = m.end(), [Const(m.group(0))]
    elif k == "and":
        first = True
        for sub in e.args:
            pos, t, n = match(sub, s, pos, adjacent and not first if False else adjacent)
            toks.extend(t)
            named.update(n)
            first = False
    elif k == "first":
        best = None
        for sub in e.args:
            try:
                pos2, t, n = match(sub, s, pos, adjacent)
            except Fail as f:
                if best is None or f.loc > best.loc:
                    best = f
                continue
            pos, toks, named = pos2, t, n
            break
        else:
            raise best if best is not None else Fail(pos, "no alternative")
    elif k == "many":
        while True:
            try:
                pos2, t, n = match(e.args[0], s, pos, adjacent)
            except Fail:
                break
            if pos2 == pos and not t:
                break
            pos = pos2
            toks.extend(t)
            named.update(n)
    elif k == "oneormore":
        pos, t, n = match(e.args[0], s, pos, adjacent)
        toks.extend(t)
        named.update(n)
        pos, t, n = match(PE("many", e.args[0]), s, pos, adjacent)
        toks.extend(t)
        named.update(n)
    elif k == "optional":
        try:
            pos, toks, named = match(e.args[0], s, pos, adjacent)
        except Fail:
            pass
    elif k == "group":
        pos, t, n = match(e.args[0], s, pos, adjacent)
        toks, named = [PyObjV(Results(t, n, e.name))], {}
    elif k == "combine":
        if not adjacent:
            pos = skip_ws(s, pos)
        pos, t, n = match_adjacent(e.args[0], s, pos)
        if not all(isinstance(x, Const) and isinstance(x.v, str) for x in t):
            raise AnalysisError("pyparsing model: Combine over non-string tokens")
        toks, named = [Const("".join(x.v for x in t))], {}
    elif k == "suppress":
        pos, t, n = match(e.args[0], s, pos, adjacent)
        toks, named = [], {}
    elif k == "forward":
        if not e.args:
            raise AnalysisError("pyparsing model: Forward used before an expression is assigned to it")
        pos, toks, named = match(e.args[0], s, pos, adjacent)
    else:
        raise AnalysisError("pyparsing model: element kind %s" % k)
    if e.name is not None and k != "group":
        if toks:
            named = dict(named)
            named[e.name] = toks[-1] if len(toks) == 1 else PyObjV(Results(toks, {}, e.name))
    elif e.name is not None and k == "group":
        named = {e.name: toks[0]}
    return pos, toks, named


def match_adjacent(e, s, pos):
    return match(e, s, pos, True)


# --------------------------------------------------------------------------------------------------------------------
def install(I):
    """bind the pyparsing names the package may use to the model"""
    def ctor(kind, nargs=1):
        def make(args, kwargs, node, env):
            if kwargs or len(args) != nargs:
                raise AnalysisError("pyparsing model: %s%r %r" % (kind, tuple(args), kwargs))
            return PyObjV(PE(kind, *[as_pe(a) for a in args]))
        return make

    def literal(args, kwargs, node, env):
        if kwargs or len(args) != 1 or not (isinstance(args[0], Const) and isinstance(args[0].v, str) and args[0].v):
            raise AnalysisError("pyparsing model: Literal%r" % (tuple(args),))
        return PyObjV(PE("literal", args[0].v))

    def suppress(args, kwargs, node, env):
        if kwargs or len(args) != 1:
            raise AnalysisError("pyparsing model: Suppress%r" % (tuple(args),))
        return PyObjV(PE("suppress", as_pe(args[0])))

    def forward(args, kwargs, node, env):
        if kwargs or len(args) > 1:
            raise AnalysisError("pyparsing model: Forward%r" % (tuple(args),))
        return PyObjV(PE("forward", *[as_pe(a) for a in args]))

    def delimited(args, kwargs, node, env):
        delim = kwargs.get("delim", args[1] if len(args) > 1 else Const(","))
        if len(args) > 2 or set(kwargs) - {"delim"} or not args:
            raise AnalysisError("pyparsing model: delimitedList%r %r" % (tuple(args), kwargs))
        e, d = as_pe(args[0]), as_pe(delim)
        return PyObjV(PE("and", e, PE("many", PE("and", PE("suppress", d), e))))

    for prefix in ("pyparsing_", "pyparsing_core_"):
        pass
    names = {
        "Literal": literal, "Suppress": suppress, "Forward": forward,
        "Group": ctor("group"), "Combine": ctor("combine"), "ZeroOrMore": ctor("many"), "OneOrMore": ctor("oneormore"),
        "Optional": ctor("optional"), "Opt": ctor("optional"),
        "delimitedList": delimited, "delimited_list": delimited, "DelimitedList": delimited,
    }
    for nm, fn in names.items():
        setattr(I, "x_pyparsing_" + nm, fn)
    I.ext_values = getattr(I, "ext_values", {})
    I.ext_values["pyparsing.pyparsing_common.number"] = PyObjV(PE("number"))
    I.ext_values["pyparsing.pyparsing_common.identifier"] = PyObjV(PE("identifier"))

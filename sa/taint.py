"""E-TAINT: hash-order taint (field-based, interprocedural, flow-insensitive to a fixpoint).

Locations: local variables (function, name), attribute fields (by name),
function returns.  Flags: ORDER - the location's own iteration order derives
from unsorted set iteration; ELEM - its elements/values carry ORDER.
A violation is an ordered *output* effect (write/print, directly or through a
callee that writes) performed inside an iteration over an ORDER-tainted value or
an unsorted set.  sorted()/min/max/len/sum/set algebra/membership sanitise.
"""
import ast

from .model import FuncInfo, ClassInfo, Module

ORDER = "ORDER"
ELEM = "ELEM"

SET_METHODS_RETURNING_SET = ("union", "intersection", "difference", "symmetric_difference", "copy")
SANITISERS = ("sorted", "min", "max", "len", "sum", "any", "all", "set", "frozenset")
MATERIALISE = ("list", "tuple", "enumerate", "zip", "iter", "reversed")


class Taint(object):
    def __init__(self, program, modules=None):
        self.p = program
        self.funcs = [f for f in program.all_functions() if modules is None or f.module.name.startswith(modules)]
        self.flags = {}          # location -> set(flags)
        self.setvars = set()     # (fq, name) set-typed locals
        self.setfields = set()
        self.returns_set = set()  # fq
        self.has_write = set()   # fq
        self.violations = []     # (FuncInfo, node, description, chain)
        self.why = {}            # location -> (reason text)
        self.iterations = 0
        self.loops_seen = 0
        self.set_loops = []      # (fi, node, sorted?)
        self.by_name = {}
        for f in self.funcs:
            self.by_name.setdefault(f.name, []).append(f)

    # -- helpers
    def loc_var(self, fi, name):
        return ("var", fi.fq + ("@%d" % fi.node.lineno), name)

    def add(self, loc, flag, why):
        s = self.flags.setdefault(loc, set())
        if flag not in s:
            s.add(flag)
            self.why[(loc, flag)] = why
            self.changed = True

    def has(self, loc, flag):
        return flag in self.flags.get(loc, ())

    def callees(self, fi, call):
        """resolved FuncInfos for a call expression (may be several through the class hierarchy)"""
        f = call.func
        out = []
        if isinstance(f, ast.Name):
            r = self.p.resolve_name(fi.module, f.id)
            if isinstance(r, FuncInfo):
                out.append(r)
            elif isinstance(r, ClassInfo):
                init = r.lookup("__init__")
                if init is not None:
                    out.append(init)
            else:
                # nested function or parameter holding a function: by name among nested functions of this module
                for g in self.by_name.get(f.id, []):
                    if g.module is fi.module and g.parent is not None:
                        out.append(g)
        elif isinstance(f, ast.Attribute):
            name = f.attr
            if isinstance(f.value, ast.Name) and f.value.id in ("self", "cls") and fi.cls is not None:
                seen = set()
                for c in [fi.cls] + self.p.subclasses(fi.cls, strict=True):
                    g = c.lookup(name)
                    if g is not None and id(g) not in seen:
                        seen.add(id(g))
                        out.append(g)
            else:
                r = self.p.resolve_expr(fi.module, f)
                if isinstance(r, FuncInfo):
                    out.append(r)
                elif isinstance(r, ClassInfo):
                    init = r.lookup("__init__")
                    if init is not None:
                        out.append(init)
                else:
                    cands = [g for g in self.by_name.get(name, []) if g.cls is not None]
                    if 0 < len(cands) <= 4:
                        out.extend(cands)
        return out

    # -- set typing
    def is_set_expr(self, fi, e):
        if isinstance(e, (ast.Set, ast.SetComp)):
            return True
        if isinstance(e, ast.Call):
            if isinstance(e.func, ast.Name) and e.func.id in ("set", "frozenset"):
                return True
            if isinstance(e.func, ast.Attribute) and e.func.attr in SET_METHODS_RETURNING_SET and self.is_set_expr(fi, e.func.value):
                return True
            for g in self.callees(fi, e):
                if g.fq in self.returns_set:
                    return True
            return False
        if isinstance(e, ast.BinOp) and isinstance(e.op, (ast.BitOr, ast.BitAnd, ast.Sub, ast.BitXor)):
            return self.is_set_expr(fi, e.left) or self.is_set_expr(fi, e.right)
        if isinstance(e, ast.Name):
            return (fi.fq, e.id) in self.setvars
        if isinstance(e, ast.Attribute):
            return e.attr in self.setfields
        return False

    def expr_flags(self, fi, e):
        """taint flags of the value of expression e"""
        out = set()
        if isinstance(e, ast.Name):
            out |= self.flags.get(self.loc_var(fi, e.id), set())
        elif isinstance(e, ast.Attribute):
            out |= self.flags.get(("field", e.attr), set())
            for g in self.by_name.get(e.attr, []):
                if g.is_property:
                    out |= self.flags.get(("ret", g.fq), set())
        elif isinstance(e, ast.Call):
            fn = e.func
            if isinstance(fn, ast.Name) and fn.id in SANITISERS:
                return set()
            if isinstance(fn, ast.Name) and fn.id in MATERIALISE + ("dict",):
                for a in e.args:
                    if self.is_set_expr(fi, a):
                        out.add(ORDER)
                    out |= self.expr_flags(fi, a)
                return out
            if isinstance(fn, ast.Attribute) and fn.attr == "join" and e.args:
                a = e.args[0]
                if self.is_set_expr(fi, a) or ORDER in self.expr_flags(fi, a):
                    out.add(ORDER)
                return out
            if isinstance(fn, ast.Attribute) and fn.attr in ("keys", "values", "items", "copy"):
                base = self.expr_flags(fi, fn.value)
                if ORDER in base:
                    out.add(ORDER)
                if ELEM in base and fn.attr in ("values", "items", "copy"):
                    out.add(ELEM)
                return out
            if isinstance(fn, ast.Attribute) and fn.attr in ("get", "setdefault", "pop"):
                base = self.expr_flags(fi, fn.value)
                if ELEM in base:
                    out.add(ORDER)
                return out
            for g in self.callees(fi, e):
                out |= self.flags.get(("ret", g.fq), set())
        elif isinstance(e, ast.Subscript):
            base = self.expr_flags(fi, e.value)
            if isinstance(e.slice, ast.Slice):
                out |= base
            elif ELEM in base:
                out.add(ORDER)
        elif isinstance(e, (ast.ListComp, ast.GeneratorExp, ast.DictComp)):
            for g in e.generators:
                if (self.is_set_expr(fi, g.iter) and not _sorted(g.iter)) or ORDER in self.expr_flags(fi, g.iter):
                    out.add(ORDER)
        elif isinstance(e, (ast.List, ast.Tuple)):
            for x in e.elts:
                if self.expr_flags(fi, x) & {ORDER}:
                    out.add(ELEM)
        elif isinstance(e, ast.BinOp) and isinstance(e.op, ast.Add):
            out |= self.expr_flags(fi, e.left) | self.expr_flags(fi, e.right)
        elif isinstance(e, ast.IfExp):
            out |= self.expr_flags(fi, e.body) | self.expr_flags(fi, e.orelse)
        elif isinstance(e, ast.Starred):
            out |= self.expr_flags(fi, e.value)
        return out

    def assign_flags(self, fi, target, flags, why):
        if isinstance(target, ast.Name):
            for fl in flags:
                self.add(self.loc_var(fi, target.id), fl, why)
        elif isinstance(target, ast.Attribute):
            for fl in flags:
                self.add(("field", target.attr), fl, why)
        elif isinstance(target, (ast.Tuple, ast.List)):
            for t in target.elts:
                self.assign_flags(fi, t, flags, why)

    # -- the analysis
    def run(self):
        self.compute_has_write()
        # set typing fixpoint
        for _ in range(10):
            before = (len(self.setvars), len(self.returns_set), len(self.setfields))
            for fi in self.funcs:
                for node in _own_nodes(fi.node):
                    if isinstance(node, ast.Assign) and self.is_set_expr(fi, node.value):
                        for t in node.targets:
                            if isinstance(t, ast.Name):
                                self.setvars.add((fi.fq, t.id))
                            elif isinstance(t, ast.Attribute):
                                self.setfields.add(t.attr)
                    if isinstance(node, ast.Return) and node.value is not None and self.is_set_expr(fi, node.value):
                        self.returns_set.add(fi.fq)
                # set-typed parameters
                for node in _own_nodes(fi.node):
                    if isinstance(node, ast.Call):
                        for g in self.callees(fi, node):
                            params = g.params()
                            off = 1 if (g.cls is not None and not g.is_staticmethod) else 0
                            for i, a in enumerate(node.args):
                                if self.is_set_expr(fi, a) and i + off < len(params):
                                    self.setvars.add((g.fq, params[i + off]))
            if before == (len(self.setvars), len(self.returns_set), len(self.setfields)):
                break
        # taint fixpoint
        for it in range(30):
            self.changed = False
            self.iterations = it + 1
            for fi in self.funcs:
                self.visit_function(fi)
            if not self.changed:
                break
        # collect violations (after the fixpoint)
        self.violations = []
        for fi in self.funcs:
            self.visit_function(fi, report=True)
        return self.violations

    def compute_has_write(self):
        for _ in range(10):
            n = len(self.has_write)
            for fi in self.funcs:
                if fi.fq in self.has_write:
                    continue
                for node in _own_nodes(fi.node):
                    if isinstance(node, ast.Call):
                        f = node.func
                        if isinstance(f, ast.Attribute) and f.attr in ("write", "writelines"):
                            self.has_write.add(fi.fq)
                        elif isinstance(f, ast.Name) and f.id == "print":
                            self.has_write.add(fi.fq)
                        elif any(g.fq in self.has_write for g in self.callees(fi, node)):
                            self.has_write.add(fi.fq)
                        elif any(isinstance(a, ast.Name) and any(h.fq in self.has_write for h in self.by_name.get(a.id, [])) for a in node.args):
                            pass
            if len(self.has_write) == n:
                break

    def iter_source_tainted(self, fi, it):
        """-> reason or None: is iterating expression ``it`` hash-order dependent?"""
        if _sorted(it):
            return None
        if self.is_set_expr(fi, it):
            return "unsorted iteration over the set %s" % ast.unparse(it)
        base = it
        if isinstance(it, ast.Call) and isinstance(it.func, ast.Attribute) and it.func.attr in ("keys", "values", "items"):
            base = it.func.value
        if isinstance(it, ast.Call) and isinstance(it.func, ast.Name) and it.func.id in ("enumerate", "list", "tuple", "reversed", "iter") and it.args:
            return self.iter_source_tainted(fi, it.args[0])
        if ORDER in self.expr_flags(fi, base) or ORDER in self.expr_flags(fi, it):
            return "iteration over %s whose order derives from set iteration" % ast.unparse(it)
        return None

    def visit_function(self, fi, report=False):
        for node in _own_nodes(fi.node):
            if isinstance(node, ast.Assign):
                fl = self.expr_flags(fi, node.value)
                if fl:
                    for t in node.targets:
                        self.assign_flags(fi, t, fl, "assigned from %s in %s" % (ast.unparse(node.value)[:60], fi.qualname))
                # alias of a container element: var = D.setdefault(k, {}) / D[k]
            elif isinstance(node, ast.AugAssign):
                fl = self.expr_flags(fi, node.value)
                if fl:
                    self.assign_flags(fi, node.target, fl, "augmented in %s" % fi.qualname)
            elif isinstance(node, ast.Return) and node.value is not None:
                for fl in self.expr_flags(fi, node.value):
                    self.add(("ret", fi.fq), fl, "returned by %s" % fi.qualname)
            elif isinstance(node, (ast.Yield,)) and node.value is not None:
                for fl in self.expr_flags(fi, node.value):
                    self.add(("ret", fi.fq), ELEM, "yielded by %s" % fi.qualname)
            elif isinstance(node, ast.Call):
                self.visit_call(fi, node)
            elif isinstance(node, ast.For):
                self.loops_seen += 1
                why = self.iter_source_tainted(fi, node.iter)
                if self.is_set_expr(fi, node.iter) or (isinstance(node.iter, ast.Call) and isinstance(node.iter.func, ast.Name)
                                                       and node.iter.func.id == "sorted" and node.iter.args and self.is_set_expr(fi, node.iter.args[0])):
                    if report:
                        self.set_loops.append((fi, node, _sorted(node.iter)))
                # loop variable receives element taint
                srcfl = self.expr_flags(fi, node.iter.func.value if (isinstance(node.iter, ast.Call) and isinstance(node.iter.func, ast.Attribute)
                                                                      and node.iter.func.attr in ("values", "items")) else node.iter)
                if ELEM in srcfl:
                    self.assign_flags(fi, node.target, {ORDER}, "element of %s" % ast.unparse(node.iter)[:50])
                if why is not None:
                    self.tainted_loop(fi, node, why, report)

    def visit_call(self, fi, call):
        # argument -> parameter propagation
        for g in self.callees(fi, call):
            params = g.params()
            off = 1 if (g.cls is not None and not g.is_staticmethod and not (isinstance(call.func, ast.Attribute) and isinstance(call.func.value, ast.Name)
                                                                            and isinstance(self.p.resolve_name(fi.module, call.func.value.id), ClassInfo))) else 0
            for i, a in enumerate(call.args):
                if isinstance(a, ast.Starred):
                    fl = self.expr_flags(fi, a.value)
                    if ELEM in fl or ORDER in fl:
                        for p in params[off:]:
                            if ELEM in fl:
                                self.add(self.loc_var(g, p), ORDER, "star-argument %s of %s" % (ast.unparse(a.value)[:40], fi.qualname))
                    continue
                fl = self.expr_flags(fi, a)
                if fl and i + off < len(params):
                    for f_ in fl:
                        self.add(self.loc_var(g, params[i + off]), f_, "argument %s passed by %s" % (ast.unparse(a)[:40], fi.qualname))
            for k in call.keywords:
                if k.arg is not None and k.arg in params:
                    for f_ in self.expr_flags(fi, k.value):
                        self.add(self.loc_var(g, k.arg), f_, "argument %s= passed by %s" % (k.arg, fi.qualname))
        # parameters flow back (mutation of an argument container inside the callee)
        for g in self.callees(fi, call):
            params = g.params()
            off = 1 if (g.cls is not None and not g.is_staticmethod) else 0
            for i, a in enumerate(call.args):
                if isinstance(a, ast.Name) and i + off < len(params):
                    for f_ in self.flags.get(self.loc_var(g, params[i + off]), set()):
                        if (self.loc_var(g, params[i + off]), f_) in self.why and "mutated" in self.why[(self.loc_var(g, params[i + off]), f_)]:
                            self.add(self.loc_var(fi, a.id), f_, "mutated by callee %s" % g.qualname)

    def tainted_loop(self, fi, loop, why, report):
        """effects inside a hash-ordered iteration"""
        for node in ast.walk(ast.Module(body=loop.body, type_ignores=[])):
            if isinstance(node, ast.Call):
                f = node.func
                if isinstance(f, ast.Attribute) and f.attr in ("append", "extend", "insert") and isinstance(f.value, (ast.Name, ast.Attribute)):
                    self.assign_flags(fi, _store(f.value), {ORDER}, "mutated: appended to inside %s (%s)" % (why, fi.qualname))
                elif isinstance(f, ast.Attribute) and f.attr in ("setdefault", "update") and isinstance(f.value, (ast.Name, ast.Attribute)):
                    self.assign_flags(fi, _store(f.value), {ORDER}, "mutated: keys inserted inside %s (%s)" % (why, fi.qualname))
                    self.note_element_alias(fi, f.value)
                elif isinstance(f, ast.Attribute) and f.attr in ("write", "writelines"):
                    if report:
                        self.violations.append((fi, node, "output written inside %s" % why))
                elif isinstance(f, ast.Name) and f.id == "print":
                    if report:
                        self.violations.append((fi, node, "output printed inside %s" % why))
                else:
                    for g in self.callees(fi, node):
                        if g.fq in self.has_write and report:
                            self.violations.append((fi, node, "%s (which writes output) called inside %s" % (g.qualname, why)))
                            break
            elif isinstance(node, ast.Assign):
                for t in node.targets:
                    if isinstance(t, ast.Subscript) and isinstance(t.value, (ast.Name, ast.Attribute)):
                        self.assign_flags(fi, _store(t.value), {ORDER}, "mutated: keys inserted inside %s (%s)" % (why, fi.qualname))
                        self.note_element_alias(fi, t.value)
            elif isinstance(node, (ast.Yield, ast.YieldFrom)):
                self.add(("ret", fi.fq), ORDER, "yields inside %s" % why)

    def note_element_alias(self, fi, container):
        """if ``container`` is itself an element fetched from another container D (x = D.setdefault(k, {})), D gets ELEM"""
        if not isinstance(container, ast.Name):
            return
        for node in _own_nodes(fi.node):
            if isinstance(node, ast.Assign) and any(isinstance(t, ast.Name) and t.id == container.id for t in node.targets):
                v = node.value
                src = None
                if isinstance(v, ast.Call) and isinstance(v.func, ast.Attribute) and v.func.attr in ("setdefault", "get") \
                        and isinstance(v.func.value, (ast.Name, ast.Attribute)):
                    src = v.func.value
                elif isinstance(v, ast.Subscript) and isinstance(v.value, (ast.Name, ast.Attribute)):
                    src = v.value
                if src is not None:
                    self.assign_flags(fi, _store(src), {ELEM}, "mutated: element %s filled in hash order (%s)" % (container.id, fi.qualname))


def _store(e):
    return e


def _sorted(it):
    return isinstance(it, ast.Call) and isinstance(it.func, ast.Name) and it.func.id in ("sorted",)


def _own_nodes(fnode):
    """nodes of this function excluding nested function/class bodies"""
    out = []
    stack = list(fnode.body)
    while stack:
        n = stack.pop()
        out.append(n)
        for c in ast.iter_child_nodes(n):
            if isinstance(c, (ast.FunctionDef, ast.ClassDef, ast.Lambda)):
                continue
            stack.append(c)
    return out

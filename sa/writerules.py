"""Shared machinery for the writer-family properties (C01-C05, C17, C19):
summarise a repository writer and its reference specification into output
trees and compare them obligation by obligation."""
import os

from . import ep, treecmp
from .model import Program, AnalysisError
from .interp import Interp, normalize_chunks
from .values import *    # noqa
from .strtree import *   # noqa
from .symeval_ops import DerivV, NTV

SPEC_DIR = os.path.join(os.path.dirname(os.path.abspath(__file__)), "specs")

POT = ("atsim.potentials._potential", "Potential")
EAMPOT = ("atsim.potentials._eam_potential", "EAMPotential")


def load_program():
    P = Program()
    P.add_file("spec.writers", os.path.join(SPEC_DIR, "writers.py"))
    return P


def semantic_hooks():
    """gradient(f) is summarised as 'the derivative of f' (its real body is the
    subject of obligations G1-G3 in gradient_obligations())."""
    return {
        "atsim.potentials._util:gradient": lambda i, fv, a, k, n: DerivV(a[0]),
        "spec.writers:D": lambda i, fv, a, k, n: DerivV(a[0]),
    }


def make_interp(P, elem=None, hooks=True, assumptions=None):
    ec = {}
    for path, (mod, cls) in (elem or {}).items():
        ec[path] = P.cls(mod, cls)
    I = Interp(P, elem_classes=ec, assumptions=assumptions or {})
    if hooks:
        I.hooks.update(semantic_hooks())
    return I


def param(name):
    return Opaque(("param", name))


def nsym(name):
    return Num(ep.sym(name))


def out_tree(buf):
    return normalize_chunks(SCat(list(buf.pieces)))


def run_method(I, inst, meth, args, kwargs=None):
    return I.call(I.getattr(inst, meth), args, kwargs or {})


def compare_trees(chk, rule, entry, I, found, expect, opts=None, site=None):
    """records one obligation per compared piece of the specification tree"""
    c = treecmp.compare(I, found, expect, opts)
    n = 0
    for where, kind, ok, detail, fsite, desc in c.checks:
        n += 1
        chk.ob(rule, "%s: %s %s" % (entry, where, desc), ok, site=fsite or site,
               found=detail if not ok else None,
               expect=desc if not ok else None,
               key="%s|%s|%s|%s" % (rule, entry, kind, _stable(where, desc)))
    if not c.checks:
        raise AnalysisError("comparison of %s produced no obligations (empty output tree?)" % entry)
    return c


def _stable(where, desc):
    # a key that does not depend on line numbers or fresh symbol numbering
    import re
    d = re.sub(r"#\d+", "", desc)
    return "%s:%s" % (where, d[:80])


# ---------------------------------------------------------------------------
# effect order (C17)

def first_write_then_eval(events):
    """-> list of offending descriptions: an EVAL that can happen after a WRITE to a real file"""
    bad = []
    state = {"written": False}

    def walk(evs, in_loop):
        for e in evs:
            if e[0] == "loop":
                sub = e[1]
                has_w = _contains(sub, "write")
                has_e = _contains(sub, "eval")
                if has_w and has_e:
                    bad.append("a loop both evaluates a user function and writes to the output file "
                               "(evaluation %s after an earlier iteration's write)" % _first(sub, "eval"))
                walk(sub, True)
            elif e[0] == "write":
                state["written"] = True
            elif e[0] == "eval":
                if state["written"]:
                    bad.append("user function %s evaluated after bytes were written to the output file" % (fmt_path(e[1]),))
    walk(events, False)
    return bad


def _contains(evs, kind):
    for e in evs:
        if e[0] == kind:
            return True
        if e[0] == "loop" and _contains(e[1], kind):
            return True
    return False


def _first(evs, kind):
    for e in evs:
        if e[0] == kind:
            return fmt_path(e[1])
        if e[0] == "loop":
            r = _first(e[1], kind)
            if r:
                return r
    return None


def count_events(evs, kind):
    n = 0
    for e in evs:
        if e[0] == kind:
            n += 1
        elif e[0] == "loop":
            n += count_events(e[1], kind)
    return n


# ---------------------------------------------------------------------------
# gradient / num_deriv obligations (shared by C01 and C07)

def gradient_obligations(chk, P, rule="G"):
    """The real body of _util.gradient: analytic branch iff .deriv present,
    else a symmetric difference quotient; .deriv exposed iff wrapped has .deriv2."""
    I = make_interp(P, hooks=False)
    util = P.module("atsim.potentials._util")
    gfi = P.func("atsim.potentials._util", "gradient")
    f = param("f")
    h = nsym("h")
    x = nsym("x")
    g = I.run(gfi, [f, h])
    val = I.call(g, [x], {})
    site = gfi.site()
    fpath = f.path
    ok = isinstance(val, Phi) and isinstance(val.cond, Cond) and val.cond.kind == "hasattr" \
        and val.cond.args[0].key() == f.key() and val.cond.args[1].v == "deriv"
    chk.ob(rule + "1", "gradient(f)(x) selects on hasattr(f, 'deriv')", ok, site=site, found=val,
           expect="phi(hasattr(f,'deriv') ? f.deriv(x) : central difference)", key=rule + "1|gradient|select")
    if ok:
        a = I.num(val.a)
        want_a = ep.app(("attr", fpath, "deriv"), [x.rf])
        chk.ob(rule + "2", "analytic branch is f.deriv(x)", ep.equal(a, want_a)[0], site=site, found=a, expect=want_a,
               key=rule + "2|gradient|analytic")
        b = I.num(val.b)
        half = h.rf / ep.const(2)
        want_b = (ep.app(fpath, [x.rf + half]) - ep.app(fpath, [x.rf - half])) / h.rf
        chk.ob(rule + "3", "fallback is the symmetric difference quotient (f(x+h/2)-f(x-h/2))/h", ep.equal(b, want_b)[0],
               site=P.func("atsim.potentials._util", "num_deriv").site(), found=b, expect=want_b,
               key=rule + "3|num_deriv|central")
    hd = I.hasattr(g, "deriv")
    ok = isinstance(hd, Cond) and hd.kind == "hasattr" and hd.args[1].v == "deriv2" and hd.args[0].key() == f.key()
    chk.ob(rule + "4", "gradient(f) offers .deriv iff f has .deriv2", ok, site=site, found=hd, expect="hasattr(f,'deriv2')",
           key=rule + "4|gradient|deriv-iff-deriv2")
    if ok:
        I2 = make_interp(P, hooks=False, assumptions={hd.key(): True})
        g2 = I2.run(gfi, [f, h])
        d = I2.call(I2.getattr(g2, "deriv"), [x], {})
        want = ep.app(("attr", fpath, "deriv2"), [x.rf])
        chk.ob(rule + "5", "gradient(f).deriv(x) delegates to f.deriv2(x)", ep.equal(I2.num(d), want)[0], site=site, found=d,
               expect=want, key=rule + "5|gradient|deriv2-delegation")
    # default step sizes
    for fq, pname in (("gradient", "h"), ("num_deriv", "h"), ("deriv", "h")):
        fi = P.func("atsim.potentials._util", fq)
        dv = default_of(I, fi, pname)
        step_ok(chk, rule + "6", fi, pname, dv)
    pinit = P.func(*("atsim.potentials._potential", "Potential.__init__"))
    step_ok(chk, rule + "6", pinit, "h", default_of(I, pinit, "h"))


def default_of(I, fi, pname):
    a = fi.node.args
    params = [x.arg for x in a.args]
    if pname not in params:
        raise AnalysisError("%s has no parameter %s" % (fi.fq, pname))
    i = params.index(pname) - (len(params) - len(a.defaults))
    if i < 0:
        return None
    from .symeval import Env
    return I.eval(a.defaults[i], Env(module=fi.module, label=fi.fq))


def step_ok(chk, rule, fi, pname, dv):
    c = dv.const() if isinstance(dv, Num) else None
    ok = c is not None and ep.frac("1e-8") <= c <= ep.frac("1e-5")
    chk.ob(rule, "default finite-difference step %s of %s lies in [1e-8, 1e-5]" % (pname, fi.qualname), ok, site=fi.site(),
           found=dv, expect="1e-8 <= h <= 1e-5 (truncation h^2|f'''|/24 and round-off eps|f|/h both below the printed 8 decimals "
                            "for |f'''| <= 1e3, |f| <= 1)",
           key="%s|%s|default-step" % (rule, fi.qualname))

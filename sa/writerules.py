"""Shared machinery for the writer-family properties (C01-C05, C17, C19):
summarise a repository writer and its reference specification into output
trees and compare them obligation by obligation."""
import os

from . import ep, treecmp
from .model import Program, AnalysisError
from .interp import Interp, normalize_chunks
from .values import *    # noqa
from .strtree import *   # noqa
from .symeval_ops import DerivV, NTV, SJoin, PyObjV

SPEC_DIR = os.path.join(os.path.dirname(os.path.abspath(__file__)), "specs")

POT = ("atsim.potentials._potential", "Potential")
EAMPOT = ("atsim.potentials._eam_potential", "EAMPotential")


def load_program():
    P = Program()
    P.add_file("spec.writers", os.path.join(SPEC_DIR, "writers.py"))
    return P


def semantic_hooks():
    """gradient(f) is summarised as 'the derivative of f' (its real body is the
    subject of obligations G1-G3 in gradient_obligations())."""
    def grad(i, fv, a, k, n):
        f = a[0]
        if isinstance(f, DerivV):
            return DerivV(f.f, f.order + 1)
        return DerivV(f)
    return {
        "atsim.potentials._util:gradient": grad,
        "spec.writers:D": grad,
        "spec.writers:ANY": lambda i, fv, a, k, n: Opaque(("any",)),
        "spec.writers:WS": lambda i, fv, a, k, n: StrV(SOptWS()),
    }


ALL_INTERPS = []


def inlined_repo_functions():
    """fully qualified names of every function of the package that any evaluation of this run went through"""
    out = set()
    for i in ALL_INTERPS:
        out |= set(f for f in i.inlined if f.startswith("atsim"))
    return out


def path_state_rule(chk, P, rule, what):
    from .props import c12
    chk.rule(rule, "no function on this check's call path keeps state between calls (default-argument objects, fields holding them, "
                   "module-level containers)", 1)
    chk.attempt(rule.split(".")[-1], lambda: c12.path_state(chk, P, rule, inlined_repo_functions(), what))


def make_interp(P, elem=None, hooks=True, assumptions=None):
    ec = {}
    for path, (mod, cls) in (elem or {}).items():
        ec[path] = P.cls(mod, cls)
    I = Interp(P, elem_classes=ec, assumptions=assumptions or {})
    ALL_INTERPS.append(I)
    from . import pyparsingmodel
    pyparsingmodel.install(I)
    from . import numpymodel
    numpymodel.install(I)
    I.assumption_fns.append(species_nonempty)
    I.assumption_fns.append(inputs_callable)
    if hooks:
        I.hooks.update(semantic_hooks())
    return I


def species_nonempty(cond):
    """species labels are non-empty strings"""
    if isinstance(cond, Cond) and cond.kind == "truthy" and isinstance(cond.args[0], Opaque):
        if "species" in repr(cond.args[0].path):
            return True
    return None


species_nonempty.text = "species labels are non-empty strings"


def inputs_callable(cond):
    """model inputs that stand for user-supplied potential functions are callable objects"""
    if isinstance(cond, Cond) and cond.kind == "callable":
        return True
    return None


inputs_callable.text = "model inputs standing for user-supplied functions are callable"


def param(name):
    return Opaque(("param", name))


def nsym(name):
    return Num(ep.sym(name))


def out_tree(buf):
    return normalize_rotation(normalize_optws(normalize_chunks(SCat(list(buf.pieces)))))


def normalize_rotation(node):
    """separator-first repetitions are rotated to separator-last:  REP(s B) s rest  ==  s REP(B s) rest
    ('\\n'.join(lines + ['']) and a loop of print(line) write the same bytes)"""
    node = flatten(node)
    if isinstance(node, SCat):
        parts = [normalize_rotation(p) for p in node.parts]
        out = []
        i = 0
        while i < len(parts):
            p = parts[i]
            if isinstance(p, (SRep, SSeqRep)) and i + 1 < len(parts) and isinstance(parts[i + 1], SLit):
                bparts = parts_of(p.body)
                nxt = parts[i + 1].text
                if bparts and isinstance(bparts[0], SLit) and bparts[0].text and nxt.startswith(bparts[0].text) \
                        and not (isinstance(bparts[-1], SLit) and len(bparts) == 1):
                    s_ = bparts[0].text
                    body = SCat(list(bparts[1:]) + [SLit(s_)])
                    rot = SRep(p.var, p.lo, p.hi, flatten(body)) if isinstance(p, SRep) else SSeqRep(p.var, p.seq, flatten(body))
                    out.append(SLit(s_))
                    out.append(rot)
                    rest = nxt[len(s_):]
                    if rest:
                        out.append(SLit(rest))
                    i += 2
                    continue
            out.append(p)
            i += 1
        return flatten(SCat(out))
    if isinstance(node, SRep):
        return SRep(node.var, node.lo, node.hi, normalize_rotation(node.body))
    if isinstance(node, SSeqRep):
        return SSeqRep(node.var, node.seq, normalize_rotation(node.body))
    if isinstance(node, SAlt):
        return SAlt(node.cond, normalize_rotation(node.a), normalize_rotation(node.b))
    if isinstance(node, SJoin):
        return SJoin(node.sep, node.var, node.lo, node.hi, node.seq, normalize_rotation(node.body))
    return node


def _unknown_cond(c):
    return "unknown" in repr(c.key()) or "carried" in repr(c.key())


def _ws_only(n):
    return all(isinstance(p, (SLit, SOptWS)) and (isinstance(p, SOptWS) or p.text.strip() == "") for p in parts_of(n))


def normalize_optws(node):
    """line wrapping driven by a counter the analysis does not track: ALT[unknown ? whitespace : whitespace] -> WS?;
    consecutive WS? collapse"""
    node = flatten(node)
    if isinstance(node, SAlt):
        a, b = normalize_optws(node.a), normalize_optws(node.b)
        if _unknown_cond(node.cond) and _ws_only(a) and _ws_only(b):
            return SOptWS()
        return SAlt(node.cond, a, b)
    if isinstance(node, SCat):
        out = []
        for p in node.parts:
            q = normalize_optws(p)
            if isinstance(q, SOptWS) and out and isinstance(out[-1], SOptWS):
                continue
            out.append(q)
        return SCat(out) if len(out) != 1 else out[0]
    if isinstance(node, SRep):
        return SRep(node.var, node.lo, node.hi, normalize_optws(node.body))
    if isinstance(node, SSeqRep):
        return SSeqRep(node.var, node.seq, normalize_optws(node.body))
    return node


def run_method(I, inst, meth, args, kwargs=None):
    """call a method a check names; a private one that the class does not (any longer) have is the check's problem
    (ANALYSIS-ERROR), a missing public one is the package's (AttributeError -> rule .X)"""
    if meth.startswith("_") and not meth.startswith("__") and isinstance(inst, InstV) and meth not in inst.attrs \
            and inst.ci.lookup(meth) is None:
        raise AnalysisError("the check relies on the private method %s.%s, which this tree does not have" % (inst.ci.name, meth))
    return I.call(I.getattr(inst, meth), args, kwargs or {})


def compare_trees(chk, rule, entry, I, found, expect, opts=None, site=None):
    """records one obligation per compared piece of the specification tree"""
    c = treecmp.compare(I, found, expect, opts)
    n = 0
    for where, kind, ok, detail, fsite, desc in c.checks:
        n += 1
        chk.ob(rule, "%s: %s %s" % (entry, where, desc), ok, site=fsite or site,
               found=detail if not ok else None,
               expect=desc if not ok else None,
               key="%s|%s|%s|%s" % (rule, entry, kind, _stable(where, desc)))
    if not c.checks:
        raise AnalysisError("comparison of %s produced no obligations (empty output tree?)" % entry)
    return c


def _stable(where, desc):
    # a key that does not depend on line numbers or fresh symbol numbering
    import re
    d = re.sub(r"#\d+", "", desc)
    return "%s:%s" % (where, d[:80])


# ---------------------------------------------------------------------------
# effect order (C17)

def first_write_then_eval(events):
    """-> list of offending descriptions: an EVAL that can happen after a WRITE to a real file"""
    bad = []
    state = {"written": False}

    def walk(evs, in_loop):
        for e in evs:
            if e[0] == "loop":
                sub = e[1]
                has_w = _contains(sub, "write")
                has_e = _contains(sub, "eval")
                if has_w and has_e:
                    bad.append("a loop both evaluates a user function and writes to the output file "
                               "(evaluation %s after an earlier iteration's write)" % _first(sub, "eval"))
                walk(sub, True)
            elif e[0] == "write":
                state["written"] = True
            elif e[0] == "eval":
                if state["written"]:
                    bad.append("user function %s evaluated after bytes were written to the output file" % (fmt_path(e[1]),))
    walk(events, False)
    return bad


def _contains(evs, kind):
    for e in evs:
        if e[0] == kind:
            return True
        if e[0] == "loop" and _contains(e[1], kind):
            return True
    return False


def _first(evs, kind):
    for e in evs:
        if e[0] == kind:
            return fmt_path(e[1])
        if e[0] == "loop":
            r = _first(e[1], kind)
            if r:
                return r
    return None


def count_events(evs, kind):
    n = 0
    for e in evs:
        if e[0] == kind:
            n += 1
        elif e[0] == "loop":
            n += count_events(e[1], kind)
    return n


# ---------------------------------------------------------------------------
# gradient / num_deriv obligations (shared by C01 and C07)

def gradient_obligations(chk, P, rule="G"):
    """The real body of _util.gradient: analytic branch iff .deriv present,
    else a symmetric difference quotient; .deriv exposed iff wrapped has .deriv2."""
    I = make_interp(P, hooks=False)
    util = P.module("atsim.potentials._util")
    gfi = P.func("atsim.potentials._util", "gradient")
    f = param("f")
    h = nsym("h")
    x = nsym("x")
    g = I.run(gfi, [f, h])
    val = I.call(g, [x], {})
    site = gfi.site()
    fpath = f.path
    # the selection is decided by evaluating under each answer to hasattr(f, 'deriv') (not by the shape of the merged value)
    sel = Cond("hasattr", f, Const("deriv"))
    branch = {}
    for ans in (True, False):
        Ia = make_interp(P, hooks=False, assumptions={sel.key(): ans})
        ga = Ia.run(gfi, [f, h])
        branch[ans] = Ia.call(ga, [x], {})
    ok = isinstance(val, Phi) and not isinstance(branch[True], Phi) and not isinstance(branch[False], Phi)
    chk.ob(rule + "1", "gradient(f)(x) selects on hasattr(f, 'deriv') and on nothing else", ok, site=site, found=val,
           expect="phi(hasattr(f,'deriv') ? f.deriv(x) : central difference)", key=rule + "1|gradient|select")
    if ok:
        a = I.num(branch[True])
        want_a = ep.app(fpath, [x.rf], dorder=1)
        chk.ob(rule + "2", "analytic branch is f.deriv(x)", ep.equal(a, want_a)[0], site=site, found=a, expect=want_a,
               key=rule + "2|gradient|analytic")
        b = I.num(branch[False])
        half = h.rf / ep.const(2)
        want_b = (ep.app(fpath, [x.rf + half]) - ep.app(fpath, [x.rf - half])) / h.rf
        chk.ob(rule + "3", "fallback is the symmetric difference quotient (f(x+h/2)-f(x-h/2))/h", ep.equal(b, want_b)[0],
               site=P.func("atsim.potentials._util", "num_deriv").site(), found=b, expect=want_b,
               key=rule + "3|num_deriv|central")
    hd = I.hasattr(g, "deriv")
    ok = isinstance(hd, Cond) and hd.kind == "hasattr" and hd.args[1].v == "deriv2" and hd.args[0].key() == f.key()
    chk.ob(rule + "4", "gradient(f) offers .deriv iff f has .deriv2", ok, site=site, found=hd, expect="hasattr(f,'deriv2')",
           key=rule + "4|gradient|deriv-iff-deriv2")
    if ok:
        I2 = make_interp(P, hooks=False, assumptions={hd.key(): True})
        g2 = I2.run(gfi, [f, h])
        d = I2.call(I2.getattr(g2, "deriv"), [x], {})
        want = ep.app(fpath, [x.rf], dorder=2)
        chk.ob(rule + "5", "gradient(f).deriv(x) delegates to f.deriv2(x)", ep.equal(I2.num(d), want)[0], site=site, found=d,
               expect=want, key=rule + "5|gradient|deriv2-delegation")
    # default step sizes
    for fq, pname in (("gradient", "h"), ("num_deriv", "h"), ("deriv", "h")):
        fi = P.func("atsim.potentials._util", fq)
        dv = default_of(I, fi, pname)
        step_ok(chk, rule + "6", fi, pname, dv)
    pinit = P.func(*("atsim.potentials._potential", "Potential.__init__"))
    step_ok(chk, rule + "6", pinit, "h", default_of(I, pinit, "h"))


def default_of(I, fi, pname):
    a = fi.node.args
    params = [x.arg for x in a.args]
    if pname not in params:
        raise AnalysisError("%s has no parameter %s" % (fi.fq, pname))
    i = params.index(pname) - (len(params) - len(a.defaults))
    if i < 0:
        return None
    from .symeval import Env
    return I.eval(a.defaults[i], Env(module=fi.module, label=fi.fq))


def step_ok(chk, rule, fi, pname, dv):
    c = dv.const() if isinstance(dv, Num) else None
    ok = c is not None and ep.frac("1e-8") <= c <= ep.frac("1e-5")
    chk.ob(rule, "default finite-difference step %s of %s lies in [1e-8, 1e-5]" % (pname, fi.qualname), ok, site=fi.site(),
           found=dv, expect="1e-8 <= h <= 1e-5 (truncation h^2|f'''|/24 and round-off eps|f|/h both below the printed 8 decimals "
                            "for |f'''| <= 1e3, |f| <= 1)",
           key="%s|%s|default-step" % (rule, fi.qualname))


def tabulation_output(P, clsname, elem, module="atsim.potentials.pair_tabulation", ctor=None, assumptions=None):
    I = make_interp(P, elem=elem, assumptions=assumptions)
    cls = P.cls(module, clsname)
    inst = I.instantiate(cls, ctor or [param("potentials"), nsym("cutoff"), nsym("nr")], {}, None)
    fp = BufV("fp", is_file=True)
    run_method(I, inst, "write", [fp])
    # the same object asked to write again, into a fresh file: what a tabulation emits must not depend on what it emitted before
    fp2 = BufV("fp", is_file=True)
    run_method(I, inst, "write", [fp2])
    I.second_write_tree = out_tree(fp2)
    return I, out_tree(fp)


def second_write(chk, rule, entry, I, expect, opts=None):
    """obligations of `rule` for the second write() of the object tabulation_output made: the same file again"""
    compare_trees(chk, rule, "%s (second call on the same object, fresh file)" % entry, I, I.second_write_tree, expect, opts)


def spec_output(P, name, args, assumptions=None):
    J = make_interp(P, assumptions=assumptions)
    fp = BufV("fp", is_file=True)
    J.run(P.func("spec.writers", name), list(args) + [fp])
    return J, out_tree(fp)



def cli_defaults(P, modname="atsim.potentials.tools.potable"):
    """{dest: default} of every add_argument(...) call of the command line module, read from the source:
    store_true -> False, store_false -> True, an explicit constant default=, otherwise None (argparse's rule)"""
    import ast as _ast
    m = P.module(modname)
    out = {}
    for n in _ast.walk(m.tree):
        if not (isinstance(n, _ast.Call) and isinstance(n.func, _ast.Attribute) and n.func.attr == "add_argument"):
            continue
        kw = dict((k.arg, k.value) for k in n.keywords if k.arg)
        flags = [a.value for a in n.args if isinstance(a, _ast.Constant) and isinstance(a.value, str)]
        if not flags:
            continue
        if "dest" in kw and isinstance(kw["dest"], _ast.Constant):
            dest = kw["dest"].value
        else:
            longs = [f for f in flags if f.startswith("--")]
            dest = (longs[0][2:] if longs else flags[0].lstrip("-")).replace("-", "_")
        default = NONE
        act = kw.get("action")
        if isinstance(act, _ast.Constant) and act.value == "store_true":
            default = FALSE
        elif isinstance(act, _ast.Constant) and act.value == "store_false":
            default = TRUE
        if "default" in kw and isinstance(kw["default"], _ast.Constant):
            dv = kw["default"].value
            default = Num(ep.const(dv)) if isinstance(dv, (int, float)) and not isinstance(dv, bool) else Const(dv)
        out[dest] = default
    if not out:
        raise AnalysisError("no add_argument() call found in %s" % modname)
    return out


class ArgsModel(object):
    """an argparse.Namespace as the command line parser of the package would produce it: the given options over the
    defaults of every declared option"""
    def __init__(self, defaults, given):
        self._defaults, self._given = defaults, given

    def __getattr__(self, name):
        if name.startswith("get_"):
            dest = name[4:]
            d = self.__dict__
            if dest in d["_given"]:
                return lambda J: d["_given"][dest]
            if dest in d["_defaults"]:
                return lambda J: d["_defaults"][dest]
        raise AttributeError(name)


class _Delivers(object):
    """stand-in for a builder object: its documented result property hands out the named parameter"""
    def __init__(self, prop, value, received):
        self._prop, self._value, self.received = prop, value, received

    def __getattr__(self, name):
        if name == "get_" + self.__dict__["_prop"]:
            return lambda J: self.__dict__["_value"]
        raise AttributeError(name)


def install_collaborator_standins(I, P):
    """The tabulation factories are analysed with their collaborators replaced at the constructor: the two registries by
    opaque objects, the pair / EAM builders by objects whose .potentials / .eam_potentials are the symbolic model, the
    reference data by an opaque object.  (What those classes do is the subject of C03.B, C04.B, C09.O7, C20.)"""
    cfgpkg = "atsim.potentials.config."
    st = I.__dict__.setdefault("class_standins", {})
    rec = I.__dict__.setdefault("standin_calls", [])

    def opaque(tag):
        def h(J, ci, args, kwargs):
            rec.append((ci.name, args, kwargs))
            return Opaque(("collaborator", tag))
        return h

    def delivers(prop, value):
        def h(J, ci, args, kwargs):
            rec.append((ci.name, args, kwargs))
            from .symeval_ops import PyObjV
            return PyObjV(_Delivers(prop, value, (args, kwargs)))
        return h
    for modname, clsname, h in (
            ("_potential_form_registry", "Potential_Form_Registry", opaque("potential_form_registry")),
            ("_modifier_registry", "Modifier_Registry", opaque("modifier_registry")),
            ("_pair_potential_builder", "Pair_Potential_Builder", delivers("potentials", param("potentials"))),
            ("_eam_potential_builder", "EAM_Potential_Builder", delivers("eam_potentials", param("eam_potentials"))),
            ("_eam_potential_builder", "EAM_Potential_Builder_FS", delivers("eam_potentials", param("eam_potentials")))):
        ci = P.cls(cfgpkg + modname, clsname)
        st[ci.fq] = h
    rd = P.cls("atsim.potentials.referencedata._reference_data", "Reference_Data")
    st[rd.fq] = opaque("reference_data")


def factory_route(chk, P, rule, target, clsname, min_nr=None, eam=False, label=None):
    """TABULATION_FACTORIES[target].create_tabulation(cp) -> instance of clsname with the parser's grid"""
    I = make_interp(P)
    mod = P.module("atsim.potentials.config._tabulation_factories")
    table = I.module_global(mod, "TABULATION_FACTORIES")
    if not isinstance(table, DictV):
        raise AnalysisError("TABULATION_FACTORIES is not a dict literal")
    k = Const(target).key()
    label = label or target
    site = "%s TABULATION_FACTORIES[%r]" % (mod.relpath, target)
    if k not in table.items:
        chk.ob(rule, "target %r registered" % label, False, site=site, found=sorted(x.v for x, _ in table.items.values()),
               expect=target, key="%s|%s|registered" % (rule, label))
        return None
    fac = table.items[k][1]
    tc = I.getattr(fac, "tabulation_class")
    ok = isinstance(tc, ClassV) and tc.ci.name == clsname
    chk.ob(rule, "factory for %r instantiates %s" % (label, clsname), ok, site=site, found=tc, expect=clsname,
           key="%s|%s|class" % (rule, label))
    # run create_tabulation with an opaque parser; builders replaced by opaque results
    install_collaborator_standins(I, P)
    def log_only(cond):
        if isinstance(cond, Cond) and cond.kind == "isinstance":
            return False
        return None
    log_only.text = "isinstance() tests in the factories only select log messages"
    I.assumption_fns.append(log_only)
    cp = param("cp")
    tab = run_method(I, fac, "create_tabulation", [cp])
    if not isinstance(tab, InstV):
        raise AnalysisError("create_tabulation did not return an instance: %r" % (tab,))
    tabpath = ("attr", ("param", "cp"), "tabulation")

    def grid(attr, default):
        o = Opaque(("attr", tabpath, attr))
        return Phi(Cond("isnone", o), Num(ep.const(default)), o)

    checks = [("potentials", param("potentials")), ("cutoff", grid("cutoff", 10)), ("nr", grid("nr", 1001))]
    if eam:
        checks += [("eam_potentials", param("eam_potentials")), ("cutoff_rho", grid("cutoff_rho", 100)), ("nrho", grid("nrho", 1001))]
    from .treecmp import Cmp
    c = Cmp(I)
    for attr, want in checks:
        got = I.getattr(tab, attr)
        ok = c.val_eq(got, want)
        chk.ob(rule, "%s tabulation.%s is the parser's value (documented default when absent)" % (label, attr), ok, site=site,
               found=got, expect=want, key="%s|%s|arg-%s" % (rule, label, attr))
    return I, tab


# ---------------------------------------------------------------------------
# EAM family helpers

EAM_ELEM = {("param", "potentials"): POT, ("param", "eam_potentials"): EAMPOT}


def eam_ctor():
    return [param("potentials"), param("eam_potentials"), nsym("cutoff"), nsym("nr"), nsym("cutoff_rho"), nsym("nrho")]


def eam_class_vs_spec(chk, rule, P, clsname, specname, opts=None, ctor=None, elem=None):
    elem = elem or EAM_ELEM
    ctor = ctor or eam_ctor()
    I, found = tabulation_output(P, clsname, elem, module="atsim.potentials.eam_tabulation", ctor=ctor)
    J = make_interp(P, elem=elem)
    fp = BufV("fp", is_file=True)
    J.run(P.func("spec.writers", specname), list(ctor) + [fp])
    expect = out_tree(fp)
    compare_trees(chk, rule, "%s.write" % clsname, I, found, expect, opts)
    second_write(chk, rule, "%s.write" % clsname, I, expect, opts)
    return I, found, expect


def eam_api_vs_spec(chk, rule, P, modname, funcname, specname, opts=None):
    """public writer function f(nrho, drho, nr, dr, eampots, pairpots, out) against its reference"""
    args = [nsym("nrho"), nsym("drho"), nsym("nr"), nsym("dr"), param("eam_potentials"), param("potentials")]
    I = make_interp(P, elem=EAM_ELEM)
    fp = BufV("fp", is_file=True)
    fi = P.func(modname, funcname)
    rest = fi.params()[len(args) + 1:]
    if rest:
        # honest scope: options of the entry point that this rule leaves at their defaults are not explored
        chk.assume("%s(...): optional parameter(s) %s keep their default value (behaviour under other values is not decided by this rule)"
                   % (funcname, ", ".join(rest)))
    I.run(fi, args + [fp])
    found = out_tree(fp)
    J = make_interp(P, elem=EAM_ELEM)
    fp2 = BufV("fp", is_file=True)
    J.run(P.func("spec.writers", specname), args + [fp2])
    compare_trees(chk, rule, funcname, I, found, out_tree(fp2), opts)
    return I, found


def resolve_target(P, given):
    """the factory key that the configuration layer produces for a target spelling: a file with only
    '[Tabulation] target : <given>' is parsed on the configparser model and ConfigParser.tabulation.target is read"""
    from .props.c14 import parse
    from .symeval import RaiseSignal
    out = parse(P, "[Tabulation]\ntarget : %s\n" % given)
    if out[0] != "ok":
        raise AnalysisError("a file with target %r does not parse: %r" % (given, out[1]))
    I, cp = out[3], out[4]
    try:
        got = I.getattr(I.getattr(cp, "tabulation"), "target")
    except RaiseSignal as e:
        raise AnalysisError("target spelling %r is refused: %r" % (given, e.exc))
    if not (isinstance(got, Const) and isinstance(got.v, str)):
        raise AnalysisError("the [Tabulation] section did not produce a constant target for %r: %r" % (given, got))
    return got.v


def count_blocks(I, tree, prefixes):
    """symbolic number of blocks whose text starts with one of ``prefixes`` (literal pieces), counting
    enclosing repetitions by their trip counts -> RF, or raises AnalysisError for an uncountable loop"""
    def trips(node):
        if isinstance(node, SRep):
            return node.hi - node.lo
        if isinstance(node, SSeqRep):
            return seq_count(node.seq)
        return None

    def seq_count(key):
        if isinstance(key, tuple) and key and key[0] == "seq":
            path = key[1]
            if isinstance(path, tuple) and path and path[0] == "sorted_set":
                card = set_cardinality(path[1])
                if card is None:
                    raise AnalysisError("cannot count the elements of %r" % (path,))
                return card
            if isinstance(path, tuple) and path and path[0] == "sorted":
                inner = path[1]
                if inner[0] == "seqmap":
                    return seq_count(inner[1])
            return ep.app(("len", path), [])
        raise AnalysisError("cannot count repetitions over %r" % (key,))

    def walk(node):
        total = ep.const(0)
        for p in parts_of(node):
            if isinstance(p, SLit):
                for pre in prefixes:
                    total = total + ep.const(p.text.count(pre))
            elif isinstance(p, (SRep, SSeqRep)):
                total = total + trips(p) * walk(p.body)
            elif isinstance(p, SAlt):
                a, b = walk(p.a), walk(p.b)
                if not ep.equal(a, b)[0]:
                    raise AnalysisError("block count differs between branches")
                total = total + a
        return total
    return walk(tree)


def set_cardinality(setkey):
    """|{sorted(a(x), a(y)) : x, y in S}| = n(n+1)/2 for the key of a SetAccV"""
    from .treecmp import key_eq
    if not (isinstance(setkey, tuple) and setkey[0] == "setacc" and len(setkey[1]) == 1 and not setkey[2]):
        return None
    doms, ek = setkey[1][0]
    if len(doms) == 2 and key_eq(doms[0], doms[1]) and isinstance(ek, tuple) and ek and ek[0] == "sorted" and len(ek[1]) == 2:
        a, b = ek[1]
        sa = ep._subst_key(a, {"@s0": ep.sym("@x"), "@s1": ep.sym("@y")})
        sb = ep._subst_key(b, {"@s0": ep.sym("@y"), "@s1": ep.sym("@x")})
        if key_eq(sa, sb) and doms[0][0] == "seq":
            n = ep.app(("len", doms[0][1]), [])
            return n * (n + ep.const(1)) / ep.const(2)
    return None


# ---------------------------------------------------------------------------------------------------------------------
# the command line entry point, run as a whole
# ---------------------------------------------------------------------------------------------------------------------
def console_entry(P, script="potable"):
    """the function setup.py registers as console script (the public anchor of every command-line obligation)"""
    import re as _re
    # setup.py ('potable=mod:func'), setup.cfg ([options.entry_points] potable = mod:func) or pyproject.toml
    # ([project.scripts] potable = "mod:func")
    for fname in ("setup.py", "setup.cfg", "pyproject.toml"):
        path = os.path.join(P.repo, fname)
        if not os.path.exists(path):
            continue
        txt = open(path, encoding="utf-8").read()
        m = _re.search(r"(?:^|['\"\s])%s\s*=\s*['\"]?\s*([A-Za-z_][\w.]*)\s*:\s*([A-Za-z_]\w*)" % _re.escape(script), txt, _re.M)
        if m:
            return P.func(m.group(1), m.group(2))
    raise AnalysisError("no console script %r is registered in setup.py, setup.cfg or pyproject.toml" % script)


class ArgParserModel(object):
    """argparse.ArgumentParser as far as the package uses it: add_argument declarations give destinations and defaults
    (argparse's rules: store_true -> False, store_false -> True, default= honoured, otherwise None); groups share the
    parser's namespace; parse_args() returns the options of the scenario over those defaults; error() exits."""
    def __init__(self, given):
        self.given = given
        self.defaults = {}
        self.errors = []

    def m_add_argument(self, I, args, kwargs):
        flags = [a.v for a in args if isinstance(a, Const) and isinstance(a.v, str)]
        if not flags or len(flags) != len(args):
            raise AnalysisError("add_argument with non-literal flags")
        kw = dict(kwargs)
        for k in ("help", "metavar", "type", "nargs", "required", "choices"):
            kw.pop(k, None)
        if "dest" in kw:
            dest = kw.pop("dest").v
        else:
            longs = [f for f in flags if f.startswith("--")]
            dest = (longs[0][2:] if longs else flags[0].lstrip("-")).replace("-", "_")
        default = NONE
        act = kw.pop("action", None)
        if act is not None:
            if not isinstance(act, Const) or act.v not in ("store_true", "store_false", "store", "append"):
                raise AnalysisError("add_argument action %r is not modelled" % (act,))
            if act.v == "store_true":
                default = FALSE
            elif act.v == "store_false":
                default = TRUE
        if "default" in kw:
            default = kw.pop("default")
        if kw:
            raise AnalysisError("add_argument keyword(s) %s are not modelled" % sorted(kw))
        self.defaults[dest] = default
        return NONE

    def m_add_argument_group(self, I, args, kwargs):
        _ = (args, kwargs)       # title / description: help text only
        return PyObjV(self)

    def m_add_mutually_exclusive_group(self, I, args, kwargs):
        _ = (args, kwargs)       # exclusivity restricts which command lines parse, not what a parsed one means
        return PyObjV(self)

    def m_set_defaults(self, I, args, kwargs):
        self.defaults.update(kwargs)
        return NONE

    def m_parse_args(self, I, args, kwargs):
        given = args[0] if args else kwargs.get("args", NONE)
        if not (isinstance(given, Const) and given.v is None):
            raise AnalysisError("parse_args() of an explicit argument list is not modelled")
        unknown = set(self.given) - set(self.defaults)
        if unknown:
            raise AnalysisError("the scenario sets option(s) %s that the parser does not declare" % sorted(unknown))
        return PyObjV(ArgsModel(self.defaults, self.given))

    def m_error(self, I, args, kwargs):
        self.errors.append(args[0] if args else NONE)
        from .symeval import RaiseSignal
        from .symeval_ops import ExcV
        raise RaiseSignal(ExcV(ExtV("builtins.SystemExit"), [Num(ep.const(2))]), None)


class PotableRun(object):
    pass


def run_potable(P, given, hooks=None, make=None, watch=None):
    """evaluate the registered console entry point on the command line described by {dest: value};
    returns an object with .parser (ArgParserModel: .errors), .exit (exit code value or None), .raised (escaping exception
    value or None) and .interp"""
    from .symeval import RaiseSignal
    from .symeval_ops import ExcV
    J = (make or make_interp)(P)
    parser = ArgParserModel(given)
    J.x_argparse_ArgumentParser = lambda args, kwargs, node, env: PyObjV(parser)
    J.x_argparse_FileType = lambda args, kwargs, node, env: Opaque(("argparse.FileType",) + tuple(a.key() for a in args))

    def _exit(args, kwargs, node, env):
        raise RaiseSignal(ExcV(ExtV("builtins.SystemExit"), list(args)), node)
    J.x_sys_exit = _exit
    for k, h in (hooks or {}).items():
        J.hooks[k] = h
    r = PotableRun()
    r.parser, r.interp, r.exit, r.raised = parser, J, None, None
    r.receivers = []
    if watch is not None:
        # which functions of the package receive the watched value as an argument
        inner = J.call_function

        def traced(fv, args, kwargs, node):
            vals = [a for a in args if not isinstance(a, tuple)] + list(kwargs.values())
            if any(hasattr(a, "key") and a.key() == watch.key() for a in vals) and fv.fi not in r.receivers:
                r.receivers.append(fv.fi)
            return inner(fv, args, kwargs, node)
        J.call_function = traced
    try:
        J.run(console_entry(P), [])
    except RaiseSignal as e:
        if isinstance(e.exc, ExcV) and isinstance(e.exc.cls, ExtV) and e.exc.cls.name == "builtins.SystemExit":
            r.exit = e.exc.args[0] if e.exc.args else NONE
        else:
            r.raised = e.exc
            r.signal = e
    return r


def setfl_comment_lines(chk, rule, P, funcname):
    """lines 1-3 of a setfl file are comments whatever the caller passes: the element line is line 4 for 0..4 comment strings"""
    fi = P.func("atsim.potentials._lammpsWriteEAM", funcname)
    for n in range(0, 5):
        I = make_interp(P, elem=EAM_ELEM)
        fp = BufV("fp", is_file=True)
        given = ["c%d" % i for i in range(n)]
        I.run(fi, [nsym("nrho"), nsym("drho"), nsym("nr"), nsym("dr"), param("eam_potentials"), param("potentials"), fp],
              {"comments": ListV([Const(c) for c in given], "list")})
        parts = parts_of(out_tree(fp))
        head = ""
        for p in parts:
            if isinstance(p, SLit):
                head += p.text
            else:
                break
        want = "\n".join((given + ["", "", ""])[:3]) + "\n"
        ok = head.replace("\r\n", "\n").startswith(want) and not head.replace("\r\n", "\n")[len(want):].startswith("\n")
        chk.ob(rule, "%s with %d comment string(s): exactly three comment lines precede the element line" % (funcname, n), ok,
               site=fi.site(), found=head[:60], expect=want, key="%s|comments|%d" % (rule, n))

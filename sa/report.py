"""Obligation bookkeeping, evidence writing, known-findings handling."""
import json
import os
import sys
import time

from .model import AnalysisError

VERIF = os.path.dirname(os.path.dirname(os.path.abspath(__file__)))
EVIDENCE_DIR = os.environ.get("VERIF_EVIDENCE_DIR") or os.path.join(VERIF, "evidence")
REPLAY_DIR = os.path.join(EVIDENCE_DIR, "replay")
KNOWN_FILE = os.path.join(VERIF, "known_findings.json")


def load_known():
    if not os.path.exists(KNOWN_FILE):
        return []
    with open(KNOWN_FILE) as f:
        return json.load(f)["findings"]


class Obligation(object):
    def __init__(self, rule, desc, ok, site, found, expect, key, path=None):
        self.rule = rule
        self.desc = desc
        self.ok = ok
        self.site = site
        self.found = found
        self.expect = expect
        self.key = key
        self.path = path

    def as_dict(self):
        d = {"rule": self.rule, "obligation": self.desc, "discharged": bool(self.ok)}
        if self.site:
            d["site"] = self.site
        if self.found is not None:
            d["found"] = _short(self.found)
        if self.expect is not None:
            d["expect"] = _short(self.expect)
        if self.key:
            d["key"] = self.key
        if self.path:
            d["reached_from"] = self.path
        return d


def _short(x, n=400):
    s = str(x)
    return s if len(s) <= n else s[: n - 3] + "..."


class Check(object):
    def __init__(self, pid, tier="quick", level="other", replay=None):
        self.pid = pid
        self.tier = tier
        self.level = level
        self.t0 = time.time()
        self.obligations = []
        self.rule_instances = {}
        self.rule_min = {}
        self.rule_desc = {}
        self.assumptions = []
        self.trusted_base = ["CPython ast/symtable parser",
                             "/verif/sa engines (model, ep, symeval, fd, cfg, taint, fmt)",
                             "/verif/sa/oracles.py tables (provenance stated per entry)"]
        self.info = {}
        self.exhaustive = None
        self.states = None
        self.explanation = ""
        self.errors = []
        self.replay = replay
        self.seed = int(os.environ.get("VERIF_SEED", "0") or 0)
        self.samples_extra = []

    # ------------------------------------------------------------------
    def rule(self, rid, desc, min_instances=1):
        self.rule_desc[rid] = desc
        self.rule_min[rid] = min_instances
        self.rule_instances.setdefault(rid, 0)

    def ob(self, rule, desc, ok, site=None, found=None, expect=None, key=None, path=None):
        """Record one obligation instance.  ``key`` identifies the construct
        for known-findings matching (never a line number)."""
        if rule not in self.rule_desc:
            self.rule(rule, rule)
        self.rule_instances[rule] = self.rule_instances.get(rule, 0) + 1
        if key is None:
            key = "%s|%s" % (rule, desc)
        o = Obligation(rule, desc, ok, site, found, expect, key, path)
        self.obligations.append(o)
        return ok

    def guard(self, rule, desc, fn, site=None, key=None):
        """Run fn() -> (ok, found, expect); AnalysisError is propagated."""
        ok, found, expect = fn()
        return self.ob(rule, desc, ok, site=site, found=found, expect=expect, key=key)

    def attempt(self, label, fn):
        """run one group of obligations; an AnalysisError inside it is recorded
        and the remaining groups still run"""
        try:
            return fn()
        except AnalysisError as e:
            self.error("%s: %s" % (label, e))
        except RecursionError as e:
            self.error("%s: recursion limit (%s)" % (label, e))
        except Exception as e:
            if type(e).__name__ == "RaiseSignal":
                node = getattr(e, "node", None)
                import ast as _ast
                cls = getattr(getattr(e.exc, "cls", None), "name", "")
                definite = (cls in ("builtins.TypeError", "builtins.AttributeError", "builtins.NameError", "builtins.ZeroDivisionError")
                            and not isinstance(node, _ast.Raise)) or cls == "verif.FloatControlledOutputLoop"
                if definite:
                    # not a 'raise' statement of the package but Python itself refusing an operation (wrong arity, a missing
                    # attribute on a concrete object, float() of an object): on the well-formed abstract input of this check the
                    # entry point cannot deliver what the property describes
                    rule = "%s.X" % self.pid
                    if rule not in self.rule_desc:
                        self.rule(rule, "the analysed entry point does not fail with a Python TypeError/AttributeError/NameError/ZeroDivisionError (exactly zero divisor) "
                                        "on well-formed input, and no output loop's trip count hangs on a floating-point comparison", 0)
                    what = getattr(e.exc, "args", None)
                    if cls == "verif.FloatControlledOutputLoop":
                        self.ob(rule, "%s: the number of records written is fixed by integer loop bounds, not by a floating-point comparison" % label,
                                False, site=getattr(e, "where", None) or ("line %s" % getattr(node, "lineno", "?")),
                                found=what[0].v if what and hasattr(what[0], "v") else what,
                                expect="an integer-controlled loop (rounding must not add or drop a record)",
                                key="%s|%s|float-controlled-loop" % (rule, label))
                        return None
                    self.ob(rule, "%s: runs without a Python %s" % (label, cls.split(".")[-1]), False,
                            site=getattr(e, "where", None) or ("line %s" % getattr(node, "lineno", "?")),
                            found="%s: %s" % (cls.split(".")[-1], what[0].v if what and hasattr(what[0], "v") else what),
                            expect="no exception", key="%s|%s|%s" % (rule, label, cls.split(".")[-1]))
                    return None
                self.error("%s: the analysed code raises %r (line %s) on the abstract input and nothing handles it"
                           % (label, e.exc, getattr(node, "lineno", "?")))
            else:
                raise
        return None

    def assume(self, text):
        if text not in self.assumptions:
            self.assumptions.append(text)

    def error(self, msg):
        self.errors.append(msg)

    # ------------------------------------------------------------------
    def finish(self):
        known = [k for k in load_known() if k.get("property") == self.pid]
        known_open = {k["key"]: k for k in known if k.get("status") == "known"}
        # vacuity
        for rid, mn in self.rule_min.items():
            if self.rule_instances.get(rid, 0) < mn:
                self.errors.append("rule %s matched %d instance(s), fewer than the %d confirmed by hand"
                                   % (rid, self.rule_instances.get(rid, 0), mn))
        failed = [o for o in self.obligations if not o.ok]
        if self.replay:
            want = self.replay.get("key")
            failed = [o for o in failed if o.key == want]
        lines = []
        nviol = 0
        known_hit = []
        os.makedirs(REPLAY_DIR, exist_ok=True)
        for o in failed:
            if o.key in known_open:
                known_hit.append(o)
                lines.append("KNOWN-FINDING: property=%s %s [%s]" % (self.pid, known_open[o.key]["what"], o.key))
                continue
            nviol += 1
            rp = os.path.join(REPLAY_DIR, "%s-%d.json" % (self.pid, nviol))
            with open(rp, "w") as f:
                json.dump({"property": self.pid, "key": o.key, "obligation": o.as_dict()}, f, indent=1)
            lines.append("VIOLATION property=%s replay=%s" % (self.pid, rp))
            lines.append("  rule %s  (%s)" % (o.rule, self.rule_desc.get(o.rule, "")))
            if o.site:
                lines.append("  %s" % o.site)
            lines.append("  obligation: %s" % o.desc)
            if o.found is not None:
                lines.append("  found   %s" % _short(o.found, 600))
            if o.expect is not None:
                lines.append("  expect  %s" % _short(o.expect, 600))
            if o.path:
                lines.append("  reached from %s" % o.path)
            lines.append("  key %s" % o.key)
        # stale known entries are informational only
        hit_keys = set(o.key for o in known_hit)
        for k, ent in known_open.items():
            if k not in hit_keys and not self.replay:
                lines.append("NOTE: known finding no longer re-derived (repaired?): %s" % k)
        if self.errors:
            for e in self.errors:
                lines.append("ANALYSIS-ERROR property=%s %s" % (self.pid, e))
        wall = time.time() - self.t0
        self._write_evidence(nviol, len(known_hit), wall)
        n_ok = sum(1 for o in self.obligations if o.ok)
        out = ["%s [%s] %d obligations, %d discharged, %d known finding(s), %d violation(s), %.2fs"
               % (self.pid, self.tier, len(self.obligations), n_ok, len(known_hit), nviol, wall)]
        for rid in sorted(self.rule_desc):
            out.append("  rule %-10s instances=%-4d %s" % (rid, self.rule_instances.get(rid, 0), self.rule_desc[rid]))
        out.extend(lines)
        _emit(out)
        if nviol:
            return 1
        if self.errors:
            return 2
        return 0

    def _write_evidence(self, nviol, nknown, wall):
        obs = self.obligations
        n_ok = sum(1 for o in obs if o.ok)
        distinct = len(set((o.rule, o.desc) for o in obs))
        samples = [o.as_dict() for o in obs[:12]]
        # make sure at least one sample per rule is written out
        seen_rules = set(s["rule"] for s in samples)
        for o in obs:
            if o.rule not in seen_rules:
                samples.append(o.as_dict())
                seen_rules.add(o.rule)
        for o in obs:
            if not o.ok and o.as_dict() not in samples:
                samples.append(o.as_dict())
        samples.extend(self.samples_extra)
        cov = {
            "explanation": self.explanation,
            "obligations": len(obs),
            "discharged": n_ok + nknown if self.level != "proof" else n_ok,
            "known_findings_rederived": nknown,
            "evaluations": len(obs),
            "distinct_nontrivial": distinct,
            "rule": "one evaluation = one obligation instance (rule applied to one construct of /repo's "
                    "current source); distinct_nontrivial = distinct (rule, construct) pairs; every counted "
                    "instance matched a real construct (rules that match nothing fail the check instead)",
            "rules": dict((rid, {"description": self.rule_desc[rid],
                                 "instances": self.rule_instances.get(rid, 0),
                                 "min_instances": self.rule_min.get(rid, 0)})
                          for rid in sorted(self.rule_desc)),
            "samples": samples,
            "checker_cmd": "./check %s --tier %s" % (self.pid, self.tier),
            "trusted_base": self.trusted_base,
        }
        cov.update(self.info)
        if self.exhaustive is not None:
            cov["exhaustive"] = bool(self.exhaustive)
        if self.states is not None:
            cov["states"] = int(self.states)
        ev = {
            "property_id": self.pid,
            "tier": self.tier,
            "seed": self.seed,
            "level": self.level,
            "coverage": cov,
            "assumptions": self.assumptions,
            "wall_s": round(wall, 3),
            "violations": nviol,
        }
        if self.errors:
            ev["analysis_errors"] = self.errors
        os.makedirs(EVIDENCE_DIR, exist_ok=True)
        with open(os.path.join(EVIDENCE_DIR, "%s.json" % self.pid), "w") as f:
            json.dump(ev, f, indent=1, sort_keys=True, default=str)


class RuleView(object):
    """lets the obligations of another property's rule group be discharged under one rule of this check (the shared code is
    evaluated again, on this run's tree; only the rule id and the keys are this check's own)"""
    def __init__(self, chk, rule):
        self._chk, self._rule = chk, rule

    def ob(self, rule, desc, ok, site=None, found=None, expect=None, key=None, path=None):
        return self._chk.ob(self._rule, desc, ok, site=site, found=found, expect=expect,
                            key="%s|%s" % (self._rule, key if key is not None else "%s|%s" % (rule, desc)), path=path)

    def rule(self, *a, **k):
        pass

    def attempt(self, label, fn):
        return self._chk.attempt(label, fn)

    def assume(self, text):
        self._chk.assume(text)

    def error(self, msg):
        self._chk.error(msg)

    def __getattr__(self, name):
        return getattr(self._chk, name)


def _emit(lines):
    """print; a reader that went away (closed pipe) must not turn into a different exit code"""
    try:
        sys.stdout.write("\n".join(lines) + "\n")
        sys.stdout.flush()
    except (BrokenPipeError, OSError):
        try:
            sys.stdout = open(os.devnull, "w")
        except OSError:
            pass


def run_check(pid, fn, level, argv):
    """Common main(): parses --tier / --replay, runs fn(check), exit code."""
    tier = os.environ.get("VERIF_TIER", "quick")
    replay = None
    i = 0
    while i < len(argv):
        if argv[i] == "--tier":
            tier = argv[i + 1]
            i += 2
        elif argv[i] == "--replay":
            with open(argv[i + 1]) as f:
                replay = json.load(f)
            i += 2
        else:
            i += 1
    if tier not in ("quick", "thorough"):
        tier = "quick"
    chk = Check(pid, tier, level, replay)
    try:
        chk.attempt("run", lambda: fn(chk))      # a signal escaping the check's own top level is classified like any other
    except AnalysisError as e:
        chk.error(str(e))
    except Exception as e:  # checker crash: never a VIOLATION
        import traceback
        chk.error("checker crashed: %r\n%s" % (e, traceback.format_exc()))
    try:
        rc = chk.finish()
    except Exception as e:
        import traceback
        _emit(["ANALYSIS-ERROR property=%s could not finish: %r\n%s" % (pid, e, traceback.format_exc())])
        rc = 2
    try:
        sys.stdout.flush()
    except (BrokenPipeError, OSError):
        pass
    return rc

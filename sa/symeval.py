"""Symbolic abstract evaluator: translates repo functions into normal-form
values (ep.RF) and string-expression trees (strtree) without running them.

It is a compositional translation (gated-SSA style): statements are folded in
program order into an abstract state, calls to repo functions are inlined
through the resolver (model.Program), loops with symbolic trip counts are
translated once with a symbolic index (accumulators by their recurrence,
appends as families, writes as SRep nodes), conditionals on symbolic
conditions fork and merge into Phi/SAlt nodes.  No path is enumerated against
a solver and nothing from /repo is imported or executed.
"""
import ast
import copy
import itertools

from . import ep
from .ep import Unsupported
from .model import AnalysisError, FuncInfo, ClassInfo, Module, External, strip_docstring
from .values import *   # noqa
from .strtree import *  # noqa
from . import fmt as fmtmod


class Env(object):
    def __init__(self, parent=None, module=None, label=""):
        self.vars = {}
        self.parent = parent
        self.module = module
        self.label = label
        self.globals_decl = set()

    def lookup(self, name):
        e = self
        while e is not None:
            if name in e.vars:
                return e.vars[name]
            e = e.parent
        return None

    def find_module(self):
        e = self
        while e is not None:
            if e.module is not None:
                return e.module
            e = e.parent
        return None


class ReturnSignal(Exception):
    def __init__(self, value):
        self.value = value


class BreakSignal(Exception):
    pass


class ContinueSignal(Exception):
    pass


class RaiseSignal(Exception):
    def __init__(self, exc, node=None):
        self.exc = exc
        self.node = node


_EXT_MODULES = ("math", "os", "sys", "io", "sympy", "numpy", "np", "functools", "itertools",
                "collections", "logging", "inspect", "operator", "re", "bisect", "tempfile", "openpyxl")


class InterpCore(object):
    MAX_DEPTH = 40
    UNROLL_LIMIT = 64

    def __init__(self, program, elem_classes=None, assumptions=None):
        self.p = program
        self.depth = 0
        self.fresh = itertools.count()
        self.stack = []
        self.events = []          # effect log (nested lists for loops)
        self.event_stack = [self.events]
        self.elem_classes = elem_classes or {}   # seq path -> ClassInfo
        self.assumptions = assumptions or {}     # cond key -> bool
        self.used_assumptions = set()
        self.trace = []
        self.call_sites = 0
        self.inlined = set()
        self.module_cache = {}
        self.raises = []          # (cond-path, exc value, site)
        self.path_conds = []
        self.sticky_conds = []
        self.assumption_fns = []
        self.divisions = []       # (denominator RF, line, function label) of every true division evaluated
        self.float_as_frac = True
        self.hooks = {}           # fq name -> python callable(interp, args, kwargs) overriding a repo function

    # ------------------------------------------------------------------ utils
    def fresh_sym(self, base):
        return "%s#%d" % (base, next(self.fresh))

    def err(self, node, msg):
        ln = getattr(node, "lineno", "?")
        where = self.stack[-1].label if self.stack else "?"
        raise AnalysisError("outside analysable subset at %s line %s: %s" % (where, ln, msg))

    def log_event(self, ev):
        self.event_stack[-1].append(ev)

    # --------------------------------------------------------------- modules
    def module_global(self, module, name, node=None):
        key = (module.name, name)
        if key in self.module_cache:
            return self.module_cache[key]
        self.ensure_module_init(module)
        if key in self.module_cache:
            return self.module_cache[key]
        r = self.p.resolve_name(module, name)
        v = self.wrap_resolved(r, module, name, node)
        self.module_cache[key] = v
        return v

    def ensure_module_init(self, module):
        """import-time effects of a module, in source order: class decorators and top-level statements that call a
        repository function or mutate a module-level container (registries filled while the module is imported)"""
        done = self.__dict__.setdefault("_modules_inited", set())
        if module.name in done or getattr(module, "tree", None) is None:
            return
        done.add(module.name)
        effects = []
        for st in module.tree.body:
            if isinstance(st, ast.ClassDef) and st.decorator_list:
                effects.append(st)
            elif isinstance(st, ast.Expr) and isinstance(st.value, ast.Call):
                root = st.value.func
                while isinstance(root, (ast.Attribute, ast.Call, ast.Subscript)):
                    root = root.func if isinstance(root, ast.Call) else root.value
                if isinstance(root, ast.Name) and root.id in module.bindings and root.id != "__import__":
                    b = self.p.resolve_name(module, root.id)
                    if isinstance(b, (FuncInfo, ClassInfo)) or (isinstance(b, tuple) and b[0] == "assign"):
                        effects.append(st)
        if not effects:
            return
        menv = Env(module=module, label=module.name)
        self.stack.append(menv)
        initing = self.__dict__.setdefault("_modules_initing", set())
        initing.add(module.name)
        saved_conds, self.path_conds = self.path_conds, []
        saved_loops = getattr(self, "loop_stack", None)
        if saved_loops is not None:
            self.loop_stack = []
        try:
            for st in effects:
                menv.at_line = getattr(st, "lineno", None)
                if isinstance(st, ast.ClassDef):
                    r = self.p.resolve_name(module, st.name)
                    if not isinstance(r, ClassInfo) or r.node is not st:
                        continue
                    v = ClassV(r)
                    for d in reversed(st.decorator_list):
                        v = self.call(self.eval(d, menv), [v], {}, st, menv)
                    self.module_cache[(module.name, st.name)] = v
                else:
                    self.eval(st.value, menv)
        finally:
            self.stack.pop()
            initing.discard(module.name)
            self.path_conds = saved_conds
            if saved_loops is not None:
                self.loop_stack = saved_loops

    def wrap_resolved(self, r, module, name, node=None):
        if r is None:
            if name in ("math", "os", "sys"):
                return ModV(name)
            return None
        if isinstance(r, FuncInfo):
            fv = FuncV(r)
            if r.cls is None and r.node.decorator_list:
                denv = Env(module=r.module, label=r.module.name)
                self.stack.append(denv)
                try:
                    for d in reversed(r.node.decorator_list):
                        fv = self.call(self.eval(d, denv), [fv], {}, r.node, denv)
                finally:
                    self.stack.pop()
            return fv
        if isinstance(r, ClassInfo):
            nt = self.typing_namedtuple(r, node)
            if nt is not None:
                return nt
            return ClassV(r)
        if isinstance(r, Module):
            return ModV(r.name, r)
        if isinstance(r, External):
            return ExtV(r.name)
        if isinstance(r, tuple) and r[0] == "assign":
            _, m, st = r
            # module level constant: evaluate its value in that module's env
            menv = Env(module=m, label=m.name)
            menv.at_line = getattr(st, "lineno", None)
            self.stack.append(menv)
            saved_conds, self.path_conds = self.path_conds, []
            saved_loops = getattr(self, "loop_stack", None)
            if saved_loops is not None:
                self.loop_stack = []
            try:
                if isinstance(st, ast.Assign):
                    val = self.eval(st.value, menv)
                    for t in st.targets:
                        self.assign(t, val, menv)
                else:
                    val = self.eval(st.value, menv)
                    self.assign(st.target, val, menv)
            finally:
                self.stack.pop()
                self.path_conds = saved_conds
                if saved_loops is not None:
                    self.loop_stack = saved_loops
            return menv.vars.get(name)
        return None

    def typing_namedtuple(self, ci, node):
        """class X(typing.NamedTuple): <annotated fields>  ->  the named tuple type with those fields, in order"""
        bases = [self.p.resolve_expr(ci.module, b) for b in ci.node.bases]
        if not any(type(b).__name__ == "External" and b.name in ("typing.NamedTuple", "typing_extensions.NamedTuple") for b in bases):
            return None
        if len(bases) != 1 or ci.methods or ci.node.decorator_list:
            self.err(node, "typing.NamedTuple class %s with methods, decorators or further bases" % ci.name)
        from .symeval_ops import NTClassV
        nt = NTClassV(ci.name, [n for n, _ in ci.ann_fields])
        nt.defaults = {}
        for n, d in ci.ann_fields:
            if d is not None:
                nt.defaults[n] = self.eval(d, Env(module=ci.module, label=ci.fq))
        return nt

    # ------------------------------------------------------------ name lookup
    _BUILTINS = ("range", "len", "float", "int", "str", "print", "tuple", "list", "sorted", "enumerate", "zip",
                 "sum", "min", "max", "abs", "hasattr", "getattr", "isinstance", "dict", "set", "iter", "next",
                 "super", "round", "reversed", "open", "bool", "object", "Exception", "ValueError", "KeyError",
                 "NotImplementedError", "ImportError", "StopIteration", "AttributeError", "TypeError", "any", "all",
                 "map", "filter", "repr", "callable", "id", "type", "divmod", "pow", "setattr", "frozenset", "delattr",
                 "vars", "globals", "hash",
                 "staticmethod", "classmethod", "property",
                 "IndexError", "RuntimeError", "LookupError", "ZeroDivisionError", "OverflowError", "ArithmeticError",
                 "AssertionError", "OSError", "IOError", "FloatingPointError", "NameError", "UnicodeError", "BaseException")

    def lookup_name(self, name, env, node=None):
        v = env.lookup(name)
        if v is not None:
            return v
        m = env.find_module()
        if m is not None:
            at = getattr(env, "at_line", None)
            b = m.bindings.get(name)
            if at is not None and b is not None and name in self._BUILTINS:
                bl = getattr(getattr(b.node, "node", b.node), "lineno", None)
                if bl is not None and bl > at:
                    # module-level statement executed before the later redefinition of a builtin's name
                    return ExtV("builtins." + name)
            v = self.module_global(m, name, node)
            if v is not None:
                return v
        if name in self._BUILTINS:
            return ExtV("builtins." + name)
        if name == "__name__" and m is not None:
            return Const(m.name)
        if name in ("True", "False", "None"):
            return Const({"True": True, "False": False, "None": None}[name])
        self.err(node, "unresolved name %r" % name)

    # ------------------------------------------------------------ expressions
    def eval(self, node, env):
        meth = getattr(self, "e_" + type(node).__name__, None)
        if meth is None:
            self.err(node, "expression kind %s" % type(node).__name__)
        return meth(node, env)

    def e_Constant(self, node, env):
        v = node.value
        if isinstance(v, bool) or v is None or isinstance(v, str):
            return Const(v)
        if isinstance(v, (int, float)):
            if isinstance(v, float):
                return self._float_const(node, env, v)
            if False:
                src = ast.get_source_segment(env.find_module().src, node) if env.find_module() else None
                try:
                    return Num(ep.const(ep.frac(src.replace("_", "")) if src and _is_plain_decimal(src) else ep.frac(v)))
                except Exception:
                    return Num(ep.const(ep.frac(v)))
            return Num(ep.const(v))
        if isinstance(v, bytes):
            return Const(v)
        self.err(node, "constant %r" % (v,))

    def _float_const(self, node, env, v):
        m = env.find_module()
        src = ast.get_source_segment(m.src, node) if m is not None else None
        try:
            fr = ep.frac(src.replace("_", "")) if src and _is_plain_decimal(src) else ep.frac(v)
        except Exception:
            fr = ep.frac(v)
        return Num(ep.const(fr), inexact=(fr.denominator != 1))

    def e_Name(self, node, env):
        return self.lookup_name(node.id, env, node)

    def e_Tuple(self, node, env):
        return ListV([self.eval(e, env) for e in node.elts], "tuple")

    def e_List(self, node, env):
        return ListV([self.eval(e, env) for e in node.elts], "list")

    def e_Set(self, node, env):
        return ListV([self.eval(e, env) for e in node.elts], "set")

    def e_Dict(self, node, env):
        d = DictV()
        for k, v in zip(node.keys, node.values):
            kv = self.eval(k, env)
            d.items[kv.key()] = (kv, self.eval(v, env))
        return d

    def e_JoinedStr(self, node, env):
        parts = []
        for v in node.values:
            if isinstance(v, ast.Constant):
                parts.append(SLit(v.value))
            else:
                val = self.eval(v.value, env)
                spec = ""
                if v.format_spec is not None:
                    spec = "".join(x.value for x in v.format_spec.values if isinstance(x, ast.Constant))
                fields = fmtmod.parse_format("{:" + spec + "}")
                f = fields[0]
                parts.append(self.make_field(f, val))
        return StrV(SCat(parts))

    def e_UnaryOp(self, node, env):
        v = self.eval(node.operand, env)
        if isinstance(node.op, ast.USub):
            return Num(-self.num(v, node))
        if isinstance(node.op, ast.UAdd):
            return v
        if isinstance(node.op, ast.Not):
            t = self.truth(v)
            if isinstance(t, bool):
                return Const(not t)
            return neg_cond(t)
        self.err(node, "unary op")

    def num(self, v, node=None):
        if isinstance(v, Num):
            return v.rf
        if isinstance(v, Const) and isinstance(v.v, bool):
            return ep.const(int(v.v))
        if isinstance(v, Phi):
            # numeric phi: represent as opaque selection atom
            a = self.num(v.a, node)
            b = self.num(v.b, node)
            ok, _ = ep.equal(a, b)
            if ok:
                return a
            return ep.app(("phi", v.cond.key()), [a, b])
        if isinstance(v, Opaque):
            return ep.app(v.path, [])
        if isinstance(v, ExtV) and v.name.split(".")[-1] == "pi":
            return ep.sym("pi")
        if isinstance(v, ExtV) and v.name == "sys.float_info.epsilon":
            return ep.const(ep.frac("2.220446049250313e-16"))
        if isinstance(v, ExtV) and v.name in ("math.inf",):
            return ep.sym("inf")
        if isinstance(v, LookupV):
            return ep.app(("lookupval", v.key()), [])
        if isinstance(v, Unknown):
            return ep.app(("unknown", v.tag), [])
        if isinstance(v, (FuncV, ClassV, ListV, DictV, BufV, ModV)) or type(v).__name__ == "NTV" or is_strlike(v) \
                or (isinstance(v, Const) and (v.v is None or isinstance(v.v, str))):
            # arithmetic / numeric conversion of something that is plainly not a number
            from .symeval_ops import ExcV
            raise RaiseSignal(ExcV(ExtV("builtins.TypeError"), [Const("a number is required, not %s" % type(v).__name__)]), node)
        self.err(node, "numeric value expected, got %r" % (v,))

    def e_BinOp(self, node, env):
        a = self.eval(node.left, env)
        b = self.eval(node.right, env)
        return self.binop(node.op, a, b, node)

    def binop(self, op, a, b, node=None):
        # operators of library-model objects (e.g. parser elements)
        if type(a).__name__ == "PyObjV" and hasattr(a.obj, "binop"):
            return a.obj.binop(self, op, b)
        if type(b).__name__ == "PyObjV" and hasattr(b.obj, "binop"):
            return b.obj.binop(self, op, a, reflected=True)
        # string / sequence operators first
        if isinstance(op, ast.Mod) and is_strlike(a):
            return self.printf(a, b, node)
        if isinstance(op, ast.Add):
            if is_strlike(a) and is_strlike(b):
                if isinstance(a, Const) and isinstance(b, Const):
                    return Const(a.v + b.v)
                return StrV(SCat([to_node(a), to_node(b)]))
            if isinstance(a, ListV) and isinstance(b, ListV):
                return ListV(a.items + b.items, a.kind)
            if isinstance(a, (ListV, SeqV)) and isinstance(b, (ListV, SeqV)):
                return seq_concat(a, b)
        if isinstance(op, ast.Mult):
            if isinstance(a, Const) and isinstance(a.v, str) and isinstance(b, Num) and b.const() is not None:
                return Const(a.v * int(b.const()))
            if isinstance(b, Const) and isinstance(b.v, str) and isinstance(a, Num) and a.const() is not None:
                return Const(b.v * int(a.const()))
            if isinstance(a, ListV) and isinstance(b, Num) and b.const() is not None:
                return ListV(a.items * int(b.const()), a.kind)
        # sets that were only ever filled outside symbolic loops are ordinary concrete sets
        if isinstance(op, (ast.BitOr, ast.BitAnd, ast.Sub, ast.BitXor)):
            def _as_set(v):
                if type(v).__name__ == "SetAccV" and not v.adds:
                    seen = {}
                    for c in v.concrete:
                        seen.setdefault(c.key(), c)
                    return ListV(list(seen.values()), "set")
                return v
            a, b = _as_set(a), _as_set(b)
        if isinstance(op, (ast.BitOr, ast.BitAnd, ast.Sub, ast.BitXor)) and isinstance(a, ListV) and isinstance(b, ListV) \
                and a.kind == "set" and b.kind == "set":
            ka = dict((x.key(), x) for x in a.items)
            kb = dict((x.key(), x) for x in b.items)
            if isinstance(op, ast.BitOr):
                keys = list(ka) + [k for k in kb if k not in ka]
            elif isinstance(op, ast.BitAnd):
                keys = [k for k in ka if k in kb]
            elif isinstance(op, ast.Sub):
                keys = [k for k in ka if k not in kb]
            else:
                keys = [k for k in ka if k not in kb] + [k for k in kb if k not in ka]
            allv = dict(ka)
            allv.update(kb)
            return ListV([allv[k] for k in keys], "set")
        if isinstance(a, Unknown) or isinstance(b, Unknown):
            src = a if isinstance(a, Unknown) else b
            return Unknown(src.tag if src.tag.endswith("+arith") else src.tag + "+arith")
        def _container(v):
            return isinstance(v, (ListV, DictV, SeqV)) or type(v).__name__ in ("SetAccV", "NTV", "LoopDictV")
        if isinstance(op, ast.Mult) and ((_container(a) or is_strlike(a)) and isinstance(b, Num)
                                         or (_container(b) or is_strlike(b)) and isinstance(a, Num)):
            # sequence repetition with a count that is not a literal: [x] * n is n copies of x
            seq, n = (a, b) if isinstance(b, Num) else (b, a)
            if isinstance(seq, ListV) and len(seq.items) == 1 and not getattr(seq, "tail", None) and seq.kind in ("list", "tuple"):
                var = self.fresh_sym("i")
                return SeqV("family", var=var, lo=ep.const(0), hi=n.rf, elem=seq.items[0])
            self.err(node, "repetition %r * %r" % (seq, n))
        if _container(a) and _container(b):
            # Python defines operators between containers (set algebra, concatenation, dict union); one the evaluator does
            # not model is the evaluator's gap, not a TypeError of the program
            self.err(node, "operator %s between %r and %r" % (type(op).__name__, a, b))
        x = self.num(a, node)
        y = self.num(b, node)
        inex = bool(getattr(a, "inexact", False) or getattr(b, "inexact", False))
        try:
            if isinstance(op, ast.Add):
                return Num(x + y, inex)
            if isinstance(op, ast.Sub):
                return Num(x - y, inex)
            if isinstance(op, ast.Mult):
                return Num(x * y, inex)
            if isinstance(op, (ast.Div, ast.FloorDiv, ast.Mod)) and y.as_const() is not None and y.as_const() == 0:
                # the divisor is exactly zero on this path: Python raises ZeroDivisionError
                from .symeval_ops import ExcV
                raise RaiseSignal(ExcV(ExtV("builtins.ZeroDivisionError"), [Const("division by zero")]), node)
            if isinstance(op, ast.Div):
                self.divisions.append((y, getattr(node, "lineno", None), self.stack[-1].label if self.stack else "?"))
                return Num(x / y, True)
            if isinstance(op, ast.Pow):
                if x.as_const() is not None and x.as_const() == 0 and y.as_const() is not None and y.as_const() < 0:
                    # 0 ** negative: Python raises ZeroDivisionError ("0.0 cannot be raised to a negative power")
                    from .symeval_ops import ExcV
                    raise RaiseSignal(ExcV(ExtV("builtins.ZeroDivisionError"), [Const("0.0 cannot be raised to a negative power")]), node)
                return Num(ep.pow_(x, y), inex or y.as_const() is None or y.as_const().denominator != 1 or y.as_const() < 0)
            if isinstance(op, ast.FloorDiv):
                cx, cy = x.as_const(), y.as_const()
                if cx is not None and cy is not None:
                    return Num(ep.const(cx // cy))
                return Num(ep.app("floordiv", [x, y]))
            if isinstance(op, ast.Mod):
                cx, cy = x.as_const(), y.as_const()
                if cx is not None and cy is not None:
                    return Num(ep.const(cx % cy))
                return Num(ep.app("mod", [x, y]))
        except Unsupported as e:
            self.err(node, str(e))
        self.err(node, "binary operator %s" % type(op).__name__)

    def e_BoolOp(self, node, env):
        isand = isinstance(node.op, ast.And)
        result = None
        vals = []
        for sub in node.values:
            v = self.eval(sub, env)
            t = self.truth(v)
            if isinstance(t, bool):
                if isand and not t:
                    vals.append((v, t))
                    break
                if (not isand) and t:
                    vals.append((v, t))
                    break
                # neutral element: only matters if last
                vals.append((v, t))
                continue
            vals.append((v, t))
        # all concrete?
        if all(isinstance(t, bool) for _, t in vals):
            return vals[-1][0]
        # symbolic: drop neutral concrete operands
        if isand and any(t is False for _, t in vals):
            return [v for v, t in vals if t is False][0]
        if (not isand) and any(t is True for _, t in vals):
            # result is truthy whichever operand is chosen - value is the first truthy; only truthiness is known
            conds = [t for _, t in vals if not isinstance(t, bool)]
            return Cond("or", *conds + [Const(True)]) if False else TRUE
        conds = [t for _, t in vals if not isinstance(t, bool)]
        if len(conds) == 1 and all(isinstance(t, bool) for _, t in vals[:-1]) and not isinstance(vals[-1][1], bool):
            return vals[-1][0]
        return Cond("and" if isand else "or", *conds)

    def e_Compare(self, node, env):
        left = self.eval(node.left, env)
        result = None
        for op, rnode in zip(node.ops, node.comparators):
            right = self.eval(rnode, env)
            c = self.compare(op, left, right, node)
            if isinstance(c, bool):
                if not c:
                    return FALSE
            else:
                result = c if result is None else Cond("and", result, c)
            left = right
        if result is None:
            return TRUE
        return result

    def compare(self, op, a, b, node=None):
        opn = type(op).__name__
        # comparisons of library-model objects that compare elementwise (arrays)
        if type(a).__name__ == "PyObjV" and hasattr(a.obj, "compare") and opn not in ("Is", "IsNot", "In", "NotIn"):
            return a.obj.compare(self, op, b)
        if type(b).__name__ == "PyObjV" and hasattr(b.obj, "compare") and opn not in ("Is", "IsNot", "In", "NotIn"):
            return b.obj.compare(self, op, a, reflected=True)
        if opn in ("Is", "IsNot") and (isinstance(a, Phi) != isinstance(b, Phi)) \
                and (_is_sentinel(a) or _is_sentinel(b)):
            # identity of a conditional value with a sentinel object: decided in each branch
            ph, other = (a, b) if isinstance(a, Phi) else (b, a)
            ra = self.compare(op, ph.a, other, node)
            rb = self.compare(op, ph.b, other, node)
            if isinstance(ra, bool) and isinstance(rb, bool):
                if ra == rb:
                    return ra
                return ph.cond if ra else neg_cond(ph.cond)
            self.err(node, "identity comparison of %r and %r" % (a, b))
        if opn in ("Is", "IsNot"):
            r = None
            if isinstance(a, Const) and isinstance(b, Const):
                r = a.v is b.v
            elif (isinstance(a, Const) and a.v is None) or (isinstance(b, Const) and b.v is None):
                other = b if (isinstance(a, Const) and a.v is None) else a
                if isinstance(other, (Opaque, Phi, LookupV, Unknown)):
                    c = self.isnone_of(other)
                    if isinstance(c, bool):
                        return c if opn == "Is" else (not c)
                    return c if opn == "Is" else neg_cond(c)
                elif not isinstance(other, (Undefined,)):
                    r = False
            elif a is b:
                r = True
            elif (_is_sentinel(a) or _is_sentinel(b)) and not isinstance(a, (Phi, Unknown)) and not isinstance(b, (Phi, Unknown)):
                # a fresh object() is identical to itself only
                r = _is_sentinel(a) and _is_sentinel(b) and a.obj is b.obj
            elif isinstance(a, ExtV) or isinstance(b, ExtV):
                r = isinstance(a, ExtV) and isinstance(b, ExtV) and a.name == b.name
            if r is None:
                self.err(node, "identity comparison of %r and %r" % (a, b))
            return r if opn == "Is" else (not r)
        if opn in ("In", "NotIn"):
            r = self.contains(b, a, node)
            if isinstance(r, bool):
                return r if opn == "In" else (not r)
            return r if opn == "In" else neg_cond(r)
        if opn in ("Eq", "NotEq"):
            r = self.equals(a, b, node)
            if isinstance(r, bool):
                return r if opn == "Eq" else (not r)
            return r if opn == "Eq" else neg_cond(r)
        # ordering
        if isinstance(a, Unknown) or isinstance(b, Unknown):
            return Cond("unknown", Const(next(self.fresh)))
        if (isinstance(a, (ListV, SeqV)) or type(a).__name__ == "NTV" or is_strlike(a)) \
                and (isinstance(b, (ListV, SeqV)) or type(b).__name__ == "NTV" or is_strlike(b)):
            if isinstance(a, Const) and isinstance(b, Const) and isinstance(a.v, str) and isinstance(b.v, str):
                return {"Lt": a.v < b.v, "LtE": a.v <= b.v, "Gt": a.v > b.v, "GtE": a.v >= b.v}[opn]
            # sequences and strings are ordered lexicographically in Python: not a TypeError, just not modelled here
            self.err(node, "ordering comparison of %r and %r" % (a, b))
        x = self.num(a, node)
        y = self.num(b, node)
        cx, cy = x.as_const(), y.as_const()
        if cx is not None and cy is not None:
            return {"Lt": cx < cy, "LtE": cx <= cy, "Gt": cx > cy, "GtE": cx >= cy}[opn]
        # float('inf') / -float('inf') against anything finite (every other number of the analysis is finite)
        def inf_sign(v):
            if ep.equal(v, ep.sym("inf"))[0]:
                return 1
            if ep.equal(v, -ep.sym("inf"))[0]:
                return -1
            return 0
        sx, sy = inf_sign(x), inf_sign(y)
        if (sx or sy) and not (sx and sy) and not (x.depends_on("inf") and not sx) and not (y.depends_on("inf") and not sy):
            big_left = (sx == 1) or (sy == -1)       # left operand is the larger one
            return {"Lt": not big_left, "LtE": not big_left, "Gt": big_left, "GtE": big_left}[opn]
        if sx and sy:
            return {"Lt": sx < sy, "LtE": sx <= sy, "Gt": sx > sy, "GtE": sx >= sy}[opn]
        sgn = self.sign_by_intervals(x - y)
        if sgn is not None:
            lo_s, hi_s = sgn      # the difference lies in an interval whose ends have these signs (-1, 0, 1), ends excluded
            if lo_s >= 0 and hi_s >= 0:
                return {"Lt": False, "LtE": False, "Gt": True, "GtE": True}[opn]        # strictly positive inside
            if lo_s <= 0 and hi_s <= 0:
                return {"Lt": True, "LtE": True, "Gt": False, "GtE": False}[opn]
        sym = {"Lt": "<", "LtE": "<=", "Gt": ">", "GtE": ">="}[opn]
        return Cond("cmp", sym, Num(x), Num(y))

    def affine_range(self, d):
        """(lo, hi): the open interval of values of d when it is an affine function with concrete coefficients of exactly one
        symbol that has a declared open interval (self.sym_intervals: name -> (lo, hi)); None otherwise"""
        iv = getattr(self, "sym_intervals", None)
        if not iv:
            return None
        names = [n for n in iv if d.depends_on(n)]
        if len(names) != 1:
            return None
        n = names[0]
        try:
            c = ep.D(d, n).as_const()
            b = ep.substitute(d, {n: ep.const(0)}).as_const()
        except ep.Unsupported:
            return None
        if c is None or b is None or c == 0:
            return None
        lo, hi = iv[n]
        v0, v1 = c * lo + b, c * hi + b
        return (min(v0, v1), max(v0, v1))

    def sign_by_intervals(self, d):
        r = self.affine_range(d)
        if r is None:
            return None
        sg = lambda v: (v > 0) - (v < 0)
        return sg(r[0]), sg(r[1])

    def isnone_of(self, v):
        """'v is None' - decided through conditional values whose arms are plainly None / not None"""
        if isinstance(v, Phi) and v.a is not None and v.b is not None:
            def arm(x):
                if isinstance(x, Const):
                    return x.v is None
                if isinstance(x, Phi):
                    return self.isnone_of(x)
                if isinstance(x, (Opaque, LookupV, Unknown, Undefined)):
                    return None
                return False
            ta, tb = arm(v.a), arm(v.b)
            if isinstance(ta, bool) and isinstance(tb, bool):
                if ta == tb:
                    return ta
                return v.cond if ta else neg_cond(v.cond)
        return Cond("isnone", v)

    def equals(self, a, b, node=None):
        if type(a).__name__ == "NTV":
            a = ListV(a.values, "tuple")
        if type(b).__name__ == "NTV":
            b = ListV(b.values, "tuple")
        if isinstance(a, ListV) and isinstance(b, ListV) and a.kind == b.kind == "tuple" and len(a.items) == len(b.items):
            res = [self.equals(x, y, node) for x, y in zip(a.items, b.items)]
            res = [self.assume(r) if isinstance(r, Cond) else r for r in res]
            if all(r is True for r in res):
                return True
            if any(r is False for r in res):
                return False
        if isinstance(a, Unknown) or isinstance(b, Unknown):
            return Cond("unknown", Const(next(self.fresh)))
        if isinstance(a, Const) and isinstance(b, Const):
            return a.v == b.v
        if isinstance(a, Num) and isinstance(b, Num):
            ca, cb = a.const(), b.const()
            if ca is not None and cb is not None:
                return ca == cb
            if ep.equal(a.rf, b.rf)[0]:
                return True
            sgn = self.sign_by_intervals(a.rf - b.rf)
            if sgn is not None and ((sgn[0] >= 0 and sgn[1] >= 0) or (sgn[0] <= 0 and sgn[1] <= 0)):
                return False        # the difference keeps one strict sign over the symbol's open interval
            return Cond("cmp", "==", a, b)
        nonea = isinstance(a, Const) and a.v is None
        noneb = isinstance(b, Const) and b.v is None
        if nonea or noneb:
            other = b if nonea else a
            if isinstance(other, Const):
                return other.v is None
            if not isinstance(other, (Opaque, Phi, LookupV, Unknown)):
                return False
            return self.isnone_of(other)
        if isinstance(a, Const) and isinstance(b, Num) or isinstance(a, Num) and isinstance(b, Const):
            return False
        if (isinstance(a, (ListV, DictV)) and isinstance(b, (Const, Num))) or (isinstance(b, (ListV, DictV)) and isinstance(a, (Const, Num))):
            return False        # a container never equals text, a number, None or a truth value
        if isinstance(a, (ListV, SortedV)) and isinstance(b, (ListV, SortedV)):
            if a.key() == b.key():
                return True
            return Cond("eq", a, b)
        if a.key() == b.key():
            return True
        return Cond("eq", a, b)

    def contains(self, container, item, node=None):
        if isinstance(container, ListV):
            res = []
            for x in container.items:
                r = self.equals(item, x, node)
                if r is True:
                    return True
                if r is not False:
                    res.append(r)
            if not res:
                return False
            return Cond("or", *res) if len(res) > 1 else res[0]
        if isinstance(container, DictV):
            if item.key() in container.items:
                return True
            from .symeval_ext import concrete_key
            if concrete_key(item) and all(concrete_key(k) for k, _ in container.items.values()):
                return False
            kind, res = self.dict_lookup(container, item, node)
            if kind == "hit":
                return True
            if kind == "miss":
                return False
            conds = [c for c, _ in res]
            return conds[0] if len(conds) == 1 else Cond("or", *conds)
        if isinstance(container, Const) and isinstance(container.v, str) and isinstance(item, Const):
            return item.v in container.v
        if isinstance(container, StrV) and isinstance(item, Const) and isinstance(item.v, str) and item.v \
                and all(ch in "\n\r\f\v" for ch in item.v):
            # a line-break sequence inside text made of literals and formatted numbers: numbers never contain one
            from .strtree import parts_of as _parts
            parts = _parts(container.node)
            if all(isinstance(p, SLit) or (isinstance(p, SFmt) and isinstance(p.value, Num)) for p in parts):
                return any(isinstance(p, SLit) and item.v in p.text for p in parts)
        if type(container).__name__ == "SetAccV" and not container.adds:
            if len(getattr(self, "loop_stack", ())) > getattr(container, "depth", 0):
                # the test sits in a symbolic loop and the set outlives the iteration: whatever earlier iterations put into it
                # is not in this summary of one iteration, so "still empty" would be a guess (the seen-set idiom)
                return Cond("in", item, container)
            return self.contains(ListV(list(container.concrete), "set"), item, node)
        if type(container).__name__ == "PyObjV" and hasattr(container.obj, "contains"):
            return container.obj.contains(self, item)
        if isinstance(container, (LoopDictV, SetV, Opaque, SeqV, InstV, Phi)):
            return Cond("in", item, container)
        if isinstance(container, Num) or (isinstance(container, Const) and (container.v is None or isinstance(container.v, bool))):
            from .symeval_ops import ExcV
            raise RaiseSignal(ExcV(ExtV("builtins.TypeError"), [Const("argument of type %s is not iterable" % type(container).__name__)]), node)
        self.err(node, "membership test on %r" % (container,))

    def truth(self, v):
        """-> bool or Cond"""
        if isinstance(v, Const):
            return bool(v.v)
        if isinstance(v, Num):
            c = v.const()
            if c is not None:
                return c != 0
            return self.assume(Cond("truthy", v))
        if isinstance(v, ListV):
            return len(v.items) > 0
        if isinstance(v, DictV):
            return len(v.items) > 0
        if isinstance(v, Cond):
            return self.assume(v)
        if isinstance(v, InstV) and v.label is None:
            # objects are true unless their class says otherwise: __bool__, else __len__ (own or inherited from a container base)
            from .model import ExternalClass
            b = v.ci.lookup("__bool__")
            if b is not None:
                return self.truth(self.call_function(FuncV(b, selfv=v), [], {}, None))
            ext = [c for c in v.ci.mro() if isinstance(c, ExternalClass) and c.name.split(".")[-1] != "object"]
            sized = v.ci.lookup("__len__") is not None or any(
                c.name.split(".")[-1] in ("list", "dict", "OrderedDict", "tuple", "set", "frozenset", "UserDict", "UserList", "defaultdict",
                                          "Mapping", "MutableMapping", "Sequence", "MutableSequence", "SectionProxy", "RawConfigParser",
                                          "ConfigParser", "deque", "Counter")
                for c in ext)
            if sized:
                n = self.x_len([v], {}, None, None)
                c = n.const() if isinstance(n, Num) else None
                if c is not None:
                    return c != 0
                return self.assume(Cond("truthy", n))
            return True
        if isinstance(v, (FuncV, InstV, ClassV, ModV, ExtV, BufV)):
            return True
        if isinstance(v, StrV):
            return self.assume(Cond("truthy", v))
        if isinstance(v, (Opaque, Phi, SeqV, SetV, LoopDictV, LookupV, Unknown)):
            return self.assume(Cond("truthy", v))
        if isinstance(v, Undefined):
            raise AnalysisError("use of undefined value")
        if type(v).__name__ == "NTV":
            return len(v.values) > 0
        if type(v).__name__ == "PyObjV" and hasattr(v.obj, "length"):
            n = v.obj.length(self)                       # a sized library object is true when it is not empty
            c = n.const() if isinstance(n, Num) else None
            if c is not None:
                return c != 0
            return self.assume(Cond("truthy", n))
        if type(v).__name__ in ("PyObjV", "DerivV", "NTClassV", "LocalClassV", "LoggerV", "CmpKeyV"):
            return True
        if type(v).__name__ == "SortedV":
            return len(v.items) > 0
        raise AnalysisError("truthiness of %r" % (v,))

    def assume(self, cond):
        for fn in self.assumption_fns:
            r = fn(cond)
            if r is not None:
                self.used_assumptions.add(getattr(fn, "text", fn.__name__))
                return r
        k = cond.key()
        if k in self.assumptions:
            self.used_assumptions.add(k)
            return self.assumptions[k]
        nk = neg_cond(cond).key()
        if nk in self.assumptions:
            self.used_assumptions.add(nk)
            return not self.assumptions[nk]
        # conditions implied by the current path
        for pc, val in self.path_conds + self.sticky_conds:
            if pc.key() == k:
                return val
            if neg_cond(pc).key() == k:
                return not val
        return cond

    def e_NamedExpr(self, node, env):
        v = self.eval(node.value, env)
        self.assign(node.target, v, env)
        return v

    def e_IfExp(self, node, env):
        t = self.truth(self.eval(node.test, env))
        if isinstance(t, bool):
            return self.eval(node.body if t else node.orelse, env)
        a = self.with_path(t, True, lambda: self.eval(node.body, env))
        b = self.with_path(t, False, lambda: self.eval(node.orelse, env))
        return make_phi(t, a, b)

    def with_path(self, cond, val, fn):
        self.path_conds.append((cond, val))
        try:
            return fn()
        finally:
            self.path_conds.pop()

    def e_Lambda(self, node, env):
        fd = ast.FunctionDef(name="<lambda>", args=node.args, body=[ast.Return(value=node.body)],
                             decorator_list=[], returns=None, type_comment=None)
        ast.copy_location(fd, node)
        ast.fix_missing_locations(fd)
        fi = FuncInfo(env.find_module(), fd)
        return FuncV(fi, closure=env)

    def e_Starred(self, node, env):
        self.err(node, "starred expression outside call")

    def e_Attribute(self, node, env):
        base = self.eval(node.value, env)
        return self.getattr(base, node.attr, node)

    def e_Subscript(self, node, env):
        base = self.eval(node.value, env)
        if isinstance(node.slice, ast.Slice):
            lo = self.eval(node.slice.lower, env) if node.slice.lower else None
            hi = self.eval(node.slice.upper, env) if node.slice.upper else None
            if node.slice.step is not None:
                step = self.eval(node.slice.step, env)
                sc = step.const() if isinstance(step, Num) else None
                if sc is None or sc.denominator != 1 or sc == 0:
                    self.err(node, "symbolic slice step")
                if sc != 1:
                    return self.slice(base, lo, hi, node, int(sc))
            return self.slice(base, lo, hi, node)
        idx = self.eval(node.slice, env)
        return self.getitem(base, idx, node)

    def e_ListComp(self, node, env):
        if len(node.generators) > 1:
            return self.comp_as_loops(node, env, "list")
        return self.comprehension(node, env, "list")

    def e_GeneratorExp(self, node, env):
        if len(node.generators) > 1:
            return self.comp_as_loops(node, env, "list")
        return self.comprehension(node, env, "list")

    def comp_as_loops(self, node, env, kind):
        """a comprehension is its defining loop nest:  acc = []/set()/{};  for ...: for ...: if ...: acc.append/add/[k]=v"""
        name = "_comp_acc_%d" % next(self.fresh)
        acc = ast.Name(id=name, ctx=ast.Load())
        if kind == "dict":
            init = ast.Dict(keys=[], values=[])
            inner = ast.Assign(targets=[ast.Subscript(value=acc, slice=node.key, ctx=ast.Store())], value=node.value)
        else:
            init = ast.Call(func=ast.Name(id="set", ctx=ast.Load()), args=[], keywords=[]) if kind == "set" else ast.List(elts=[], ctx=ast.Load())
            inner = ast.Expr(value=ast.Call(func=ast.Attribute(value=acc, attr="add" if kind == "set" else "append", ctx=ast.Load()),
                                            args=[node.elt], keywords=[]))
        body = inner
        for g in reversed(node.generators):
            for cnd in reversed(g.ifs):
                body = ast.If(test=cnd, body=[body], orelse=[])
            body = ast.For(target=g.target, iter=g.iter, body=[body], orelse=[])
        stmts = [ast.Assign(targets=[ast.Name(id=name, ctx=ast.Store())], value=init), body]
        for st in stmts:
            ast.copy_location(st, node)
            ast.fix_missing_locations(st)
        sub = Env(parent=env, label=env.label)
        self.exec_block(stmts, sub)
        return sub.vars[name]

    def e_DictComp(self, node, env):
        if len(node.generators) > 1:
            return self.comp_as_loops(node, env, "dict")
        fake = ast.ListComp(elt=ast.Tuple(elts=[node.key, node.value], ctx=ast.Load()), generators=node.generators)
        ast.copy_location(fake, node)
        ast.fix_missing_locations(fake)
        lst = self.comprehension(fake, env, "list")
        return self.call(ExtV("builtins.dict"), [lst], {}, node, env)

    def e_SetComp(self, node, env):
        return self.comp_as_loops(node, env, "set")

    def e_Call(self, node, env):
        fn = self.eval(node.func, env)
        args = []
        for a in node.args:
            if isinstance(a, ast.Starred):
                sv = self.eval(a.value, env)
                if isinstance(sv, ListV):
                    args.extend(sv.items)
                elif isinstance(sv, SortedV):
                    args.extend(Opaque(("sorted_item", sv.key(), i)) for i in range(len(sv.items)))
                elif isinstance(sv, (Opaque, SeqV)):
                    args.append(("star", sv))
                else:
                    self.err(node, "star-args of %r" % (sv,))
            else:
                args.append(self.eval(a, env))
        kwargs = {}
        for k in node.keywords:
            if k.arg is None:
                kv = self.eval(k.value, env)
                if isinstance(kv, DictV):
                    for kk, vv in kv.items.values():
                        kwargs[kk.v] = vv
                else:
                    self.err(node, "**kwargs of %r" % (kv,))
            else:
                kwargs[k.arg] = self.eval(k.value, env)
        self.call_sites += 1
        return self.call(fn, args, kwargs, node, env)


# ---------------------------------------------------------------------------
# helpers

def _is_plain_decimal(s):
    import re
    return re.match(r"^[0-9_]*\.?[0-9_]*([eE][-+]?[0-9]+)?$", s.strip()) is not None and any(ch.isdigit() for ch in s)


class Sentinel(object):
    """object(): a value with an identity and nothing else"""
    def __repr__(self):
        return "<object()>"


def _is_sentinel(v):
    return type(v).__name__ == "PyObjV" and isinstance(v.obj, Sentinel)


def is_strlike(v):
    return isinstance(v, StrV) or (isinstance(v, Const) and isinstance(v.v, str))


def neg_cond(c):
    if isinstance(c, bool):
        return not c
    if isinstance(c, Cond) and c.kind == "not":
        return c.args[0]
    if isinstance(c, Cond) and c.kind == "cmp":
        inv = {"<": ">=", "<=": ">", ">": "<=", ">=": "<", "==": "!=", "!=": "=="}
        return Cond("cmp", inv[c.args[0]], c.args[1], c.args[2])
    return Cond("not", c)


def make_phi(cond, a, b):
    # canonical orientation: 'x if not c else y' and 'y if c else x' are the same value
    while isinstance(cond, Cond) and cond.kind == "not" and isinstance(cond.args[0], Cond):
        cond, a, b = cond.args[0], b, a
    ck = cond.key()
    while isinstance(a, Phi) and a.cond.key() == ck:
        a = a.a
    while isinstance(b, Phi) and b.cond.key() == ck:
        b = b.b
    if a is b:
        return a
    lk = _as_get_with_default(cond, a, b)
    if lk is not None:
        return lk
    if a is not None and b is not None and not isinstance(a, Undefined) and not isinstance(b, Undefined):
        try:
            if a.key() == b.key():
                return a
        except NotImplementedError:
            pass
        if isinstance(a, Num) and isinstance(b, Num) and ep.equal(a.rf, b.rf)[0]:
            return a
        if isinstance(a, Num) and isinstance(b, Num):
            z = _zero_test_symbol(cond)
            if z is not None:
                # phi(s != 0 ? A : B): on the B side s is 0; if A at s = 0 is B at s = 0 the two sides are one expression
                # (skipping a term whose coefficient is zero: v + c*t for c != 0, v otherwise, is v + c*t)
                name, nonzero_first = z
                try:
                    a0 = ep.substitute(a.rf, {name: ep.const(0)})
                    b0 = ep.substitute(b.rf, {name: ep.const(0)})
                    if ep.equal(a0, b0)[0]:
                        return a if nonzero_first else b
                except ep.Unsupported:
                    pass
    return Phi(cond, a, b)


def _zero_test_symbol(cond):
    """(name, the first arm is the non-zero case) when cond tests a plain symbol against 0: s != 0, s == 0, truthiness of s"""
    if not isinstance(cond, Cond):
        return None
    if cond.kind == "truthy" and isinstance(cond.args[0], Num):
        x, nz = cond.args[0], True
    elif cond.kind == "cmp" and cond.args[0] in ("!=", "==") and isinstance(cond.args[1], Num) and isinstance(cond.args[2], Num):
        p, q = cond.args[1], cond.args[2]
        if q.rf.is_zero():
            x = p
        elif p.rf.is_zero():
            x = q
        else:
            return None
        nz = cond.args[0] == "!="
    else:
        return None
    atoms = list(x.rf.atoms())
    if len(atoms) == 1 and isinstance(atoms[0], ep.Sym) and ep.equal(x.rf, ep.sym(atoms[0].name))[0]:
        return atoms[0].name, nz
    return None


def _as_get_with_default(cond, a, b):
    """phi(k not in D ? X : D[k])  ==  D.get(k, X)   (and the mirrored form)"""
    neg = False
    c = cond
    if isinstance(c, Cond) and c.kind == "not":
        neg = True
        c = c.args[0]
    if not (isinstance(c, Cond) and c.kind == "in"):
        return None
    item, cont = c.args
    found, other = (b, a) if neg else (a, b)
    if isinstance(found, LookupV) and found.default is None and isinstance(cont, LoopDictV) \
            and found.ld is cont and found.query.key() == item.key() and other is not None \
            and not isinstance(other, (Undefined, Unknown)):
        return LookupV(cont, found.query, other)
    return None


def seq_concat(a, b):
    parts = []
    for x in (a, b):
        if isinstance(x, SeqV) and x.kind == "concat":
            parts.extend(x.parts)
        elif isinstance(x, ListV) and not x.items:
            continue
        else:
            parts.append(x)
    if len(parts) == 1:
        return parts[0]
    return SeqV("concat", parts=parts)

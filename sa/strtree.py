"""String-expression trees: the abstract value of text a writer produces.

  SLit(text)                      literal characters
  SFmt(conv, flags, width, prec, value)   one formatted field (printf / format)
  SCat(parts)                     concatenation
  SRep(var, lo, hi, body)         concatenation of body for var = lo .. hi-1
  SSeqRep(var, seq, body)         concatenation of body over the elements of a
                                  symbolic sequence (var is the index symbol)
  SAlt(cond, a, b)                a if cond else b
  SOptWS()                        optional whitespace (line wrapping that the
                                  analysis does not resolve)
  SChunk(var, lo, hi, item, per, sep, end, flush)
                                  items grouped ``per`` to a row, each row
                                  joined by sep and terminated by end; flush:
                                  a final partial row is also emitted

Loop variables are ep symbols with unique names; comparison alpha-renames.
"""
from . import ep


class SNode(object):
    pass


class SLit(SNode):
    def __init__(self, text):
        self.text = text

    def __repr__(self):
        return repr(self.text)


class SFmt(SNode):
    def __init__(self, conv, value, flags="", width=None, prec=None):
        self.conv = conv        # 'd','f','e','g','s','r'
        self.value = value      # V (symeval value)
        self.flags = flags
        self.width = width
        self.prec = prec

    def spec(self):
        return "%%%s%s%s%s" % (self.flags, self.width if self.width is not None else "",
                               (".%d" % self.prec) if self.prec is not None else "", self.conv)

    def rendered_width(self):
        """Fixed rendered width in characters for numeric 'e' conversions of
        finite values whose exponent has two digits, else None."""
        if self.conv == "e" and self.prec is not None:
            # [sign or space]d.<prec>e[+-]dd
            base = 1 + 1 + self.prec + 4
            sign = 1 if (" " in self.flags or "+" in self.flags) else 0
            w = base + sign
            if self.width is not None:
                # a negative number without a sign flag needs one more char
                return max(self.width, w if sign else w + 0) if (sign or self.width > w) else None
            return w if sign else None
        return None

    def __repr__(self):
        return "{%s:%r}" % (self.spec(), self.value)


class SCat(SNode):
    def __init__(self, parts):
        self.parts = list(parts)

    def __repr__(self):
        return " ".join(repr(p) for p in self.parts) if self.parts else "''"


class SRep(SNode):
    def __init__(self, var, lo, hi, body):
        self.var = var  # symbol name
        self.lo = lo    # RF
        self.hi = hi    # RF
        self.body = body

    def __repr__(self):
        return "REP[%s in %r..%r)(%r)" % (self.var, self.lo, self.hi, self.body)


class SSeqRep(SNode):
    def __init__(self, var, seq, body):
        self.var = var
        self.seq = seq  # sequence key (hashable description)
        self.body = body

    def __repr__(self):
        return "REP[%s over %s](%r)" % (self.var, self.seq, self.body)


class SAlt(SNode):
    def __init__(self, cond, a, b):
        self.cond = cond
        self.a = a
        self.b = b

    def __repr__(self):
        return "ALT[%r ? %r : %r]" % (self.cond, self.a, self.b)


class SOptWS(SNode):
    def __repr__(self):
        return "WS?"


class SChunk(SNode):
    def __init__(self, var, lo, hi, item, per, sep, end, flush, seq=None):
        self.var = var
        self.lo = lo
        self.hi = hi
        self.item = item    # SNode for one item
        self.per = per      # int
        self.sep = sep      # str between items in a row
        self.end = end      # str after a row
        self.flush = flush  # bool
        self.seq = seq

    def __repr__(self):
        return "CHUNK[%s in %r..%r per %d sep=%r end=%r flush=%s](%r)" % (
            self.var, self.lo, self.hi, self.per, self.sep, self.end, self.flush, self.item)


def flatten(node):
    """Flatten nested SCat, merge adjacent literals, drop empty literals."""
    if isinstance(node, SCat):
        parts = []
        for p in node.parts:
            p = flatten(p)
            if isinstance(p, SCat):
                parts.extend(p.parts)
            else:
                parts.append(p)
        out = []
        for p in parts:
            if isinstance(p, SLit):
                if p.text == "":
                    continue
                if out and isinstance(out[-1], SLit):
                    out[-1] = SLit(out[-1].text + p.text)
                    continue
            out.append(p)
        if len(out) == 1:
            return out[0]
        return SCat(out)
    if isinstance(node, SRep):
        return SRep(node.var, node.lo, node.hi, flatten(node.body))
    if isinstance(node, SSeqRep):
        return SSeqRep(node.var, node.seq, flatten(node.body))
    if isinstance(node, SAlt):
        return SAlt(node.cond, flatten(node.a), flatten(node.b))
    if isinstance(node, SChunk):
        return SChunk(node.var, node.lo, node.hi, flatten(node.item), node.per, node.sep, node.end, node.flush, node.seq)
    return node


def parts_of(node):
    node = flatten(node)
    if isinstance(node, SCat):
        return node.parts
    if isinstance(node, SLit) and node.text == "":
        return []
    return [node]

"""One-dimensional numpy arrays of known length, as the package's interpolation classes use them.

An array is a PyObjV(NDArray(items)); items are exact numbers (ep normal forms, concrete or symbolic) or truth values.
Modelled from numpy's documented behaviour:

    asarray / array(seq, dtype=float)    the elements of seq
    diff(a)                              a[i+1] - a[i]
    interp(x, xp, fp, left, right)       piecewise linear interpolant of (xp, fp) at the scalar x (xp increasing);
                                         left / right (default fp[0] / fp[-1]) outside [xp[0], xp[-1]]; fp[i] at a knot
    searchsorted(a, v, side)             number of elements < v (side='left') or <= v (side='right') of a sorted a
    argsort(a, kind)                     stable permutation that sorts a
    any / all / allclose / isclose       on decided truth values / concrete numbers
    a.size a.shape a.ndim len(a) a[i] a[index array] a.tolist(), elementwise arithmetic and comparisons, broadcasting of
    scalars

Every position decision (which knot interval holds x, is a <= b) must be decidable - by exact arithmetic on concrete
numbers or from a declared interval of a symbol (Interp.sym_intervals) - else the operation is outside the subset
(AnalysisError), never a guess.  Arrays of unknown length (built from an opaque sequence) are outside the subset."""
import ast
from fractions import Fraction

from . import ep
from .model import AnalysisError
from .values import *     # noqa
from .symeval_ops import PyObjV


def _err(msg):
    raise AnalysisError("numpy model: " + msg)


class NDArray(object):
    def __init__(self, items):
        self.items = list(items)

    def __repr__(self):
        return "ndarray%r" % (self.items,)

    # -- attributes
    def get_size(self, I):
        return Num(ep.const(len(self.items)))

    def get_ndim(self, I):
        return Num(ep.const(1))

    def get_shape(self, I):
        return ListV([Num(ep.const(len(self.items)))], "tuple")

    def length(self, I):
        return Num(ep.const(len(self.items)))

    def iter_items(self, I):
        return list(self.items)

    def m_tolist(self, I, args, kwargs):
        if args or kwargs:
            _err("tolist arguments")
        return ListV(list(self.items), "list")

    def _truths(self, I, what):
        out = []
        for it in self.items:
            t = I.truth(it)
            if not isinstance(t, bool):
                _err("%s of an undecided truth value %r" % (what, it))
            out.append(t)
        return out

    def m_all(self, I, args, kwargs):
        if args or kwargs:
            _err("all arguments")
        return Const(all(self._truths(I, "all")))

    def m_any(self, I, args, kwargs):
        if args or kwargs:
            _err("any arguments")
        return Const(any(self._truths(I, "any")))

    def m_ravel(self, I, args, kwargs):
        if args or kwargs:
            _err("ravel arguments")
        return PyObjV(NDArray(self.items))          # one-dimensional already

    m_flatten = m_ravel

    def m_astype(self, I, args, kwargs):
        if kwargs or len(args) != 1 or not (isinstance(args[0], ExtV) and args[0].name.split(".")[-1] in ("float", "float64", "double")):
            _err("astype other than float")
        return PyObjV(NDArray(self.items))

    def m_copy(self, I, args, kwargs):
        if args or kwargs:
            _err("copy arguments")
        return PyObjV(NDArray(self.items))

    def key(self):
        return ("ndarray", tuple(i.key() if hasattr(i, "key") else repr(i) for i in self.items))

    # -- indexing
    def getitem(self, I, idx):
        if isinstance(idx, PyObjV) and isinstance(idx.obj, NDArray):
            return PyObjV(NDArray([self.getitem(I, j) for j in idx.obj.items]))
        if isinstance(idx, Num):
            c = idx.const()
            if c is None or Fraction(c).denominator != 1:
                _err("array index %r is not a known whole number" % (idx,))
            c = int(c)
            if not -len(self.items) <= c < len(self.items):
                from .symeval import RaiseSignal
                from .symeval_ops import ExcV
                raise RaiseSignal(ExcV(ExtV("builtins.IndexError"), [Const("index %d is out of bounds for axis 0 with size %d" % (c, len(self.items)))]), None)
            return self.items[c]
        _err("array index %r" % (idx,))

    def slice(self, I, lo, hi, step=None):
        def ci(v, default):
            if v is None or (isinstance(v, Const) and v.v is None):
                return default
            c = v.const() if isinstance(v, Num) else None
            if c is None:
                _err("symbolic slice bound of an array")
            return int(c)
        return PyObjV(NDArray(self.items[slice(ci(lo, None), ci(hi, None), step)]))

    # -- arithmetic
    def binop(self, I, op, other, reflected=False):
        def one(a, b):
            return I.binop(op, b, a) if reflected else I.binop(op, a, b)
        if isinstance(other, PyObjV) and isinstance(other.obj, NDArray):
            o = other.obj.items
            if len(o) != len(self.items):
                if len(o) == 1:
                    o = o * len(self.items)
                elif len(self.items) == 1:
                    return PyObjV(NDArray([one(self.items[0], b) for b in o]))
                else:
                    from .symeval import RaiseSignal
                    from .symeval_ops import ExcV
                    raise RaiseSignal(ExcV(ExtV("builtins.ValueError"), [Const("operands could not be broadcast together")]), None)
            return PyObjV(NDArray([one(a, b) for a, b in zip(self.items, o)]))
        if isinstance(other, (Num,)) or (isinstance(other, Const) and isinstance(other.v, bool)):
            return PyObjV(NDArray([one(a, other) for a in self.items]))
        _err("array %s %r" % (type(op).__name__, other))

    def compare(self, I, op, other, reflected=False):
        def one(a, b):
            r = I.compare(op, b, a) if reflected else I.compare(op, a, b)
            return Const(r) if isinstance(r, bool) else r
        if isinstance(other, PyObjV) and isinstance(other.obj, NDArray):
            if len(other.obj.items) != len(self.items):
                _err("comparison of arrays of different length")
            return PyObjV(NDArray([one(a, b) for a, b in zip(self.items, other.obj.items)]))
        return PyObjV(NDArray([one(a, other) for a in self.items]))


def arr(v):
    return v.obj if isinstance(v, PyObjV) and isinstance(v.obj, NDArray) else None


def as_array(I, v, what):
    a = arr(v)
    if a is not None:
        return a
    seq = I.as_iterable(v, None)
    if isinstance(seq, ListV) and not getattr(seq, "tail", None):
        items = []
        for it in seq.items:
            if isinstance(it, Num) or (isinstance(it, Const) and isinstance(it.v, bool)):
                items.append(it)
            elif isinstance(it, Opaque):
                items.append(Num(I.num(it, None)))
            else:
                _err("%s: element %r" % (what, it))
        return NDArray(items)
    _err("%s of a sequence of unknown length %r" % (what, v))


def decided(I, op, a, b):
    """a <op> b as a bool, or AnalysisError"""
    r = I.compare(op, a, b)
    if isinstance(r, Cond):
        r = I.assume(r)
    if not isinstance(r, bool):
        _err("the position of %r relative to %r is not decided" % (a, b))
    return r


def _kw(kwargs, allowed, fname):
    extra = set(kwargs) - set(allowed)
    if extra:
        _err("%s keyword %s" % (fname, sorted(extra)))


def install(I):
    def asarray(args, kwargs, node, env):
        _kw(kwargs, ("dtype",), "asarray")
        if len(args) not in (1, 2):
            _err("asarray arguments")
        dt = kwargs.get("dtype", args[1] if len(args) == 2 else None)
        if dt is not None and not (isinstance(dt, ExtV) and dt.name.split(".")[-1] in ("float", "float64", "double")) \
                and not (isinstance(dt, Const) and dt.v in (None, "float", "float64", "d")):
            _err("asarray dtype %r" % (dt,))
        return PyObjV(NDArray(as_array(I, args[0], "asarray").items))

    def diff(args, kwargs, node, env):
        if kwargs or len(args) != 1:
            _err("diff arguments")
        a = as_array(I, args[0], "diff").items
        return PyObjV(NDArray([I.binop(ast.Sub(), a[i + 1], a[i]) for i in range(len(a) - 1)]))

    def interp(args, kwargs, node, env):
        _kw(kwargs, ("left", "right"), "interp")
        if len(args) != 3:
            _err("interp arguments")
        x = args[0]
        if arr(x) is not None:
            return PyObjV(NDArray([interp([xi] + list(args[1:]), kwargs, node, env) for xi in arr(x).items]))
        if not isinstance(x, Num):
            x = Num(I.num(x, node))
        xp = as_array(I, args[1], "interp xp").items
        fp = as_array(I, args[2], "interp fp").items
        if len(xp) != len(fp) or not xp:
            from .symeval import RaiseSignal
            from .symeval_ops import ExcV
            raise RaiseSignal(ExcV(ExtV("builtins.ValueError"), [Const("fp and xp are not of the same length")]), node)
        for i in range(len(xp) - 1):
            if not decided(I, ast.Lt(), xp[i], xp[i + 1]):
                _err("interp with xp that is not increasing: the result is not defined by numpy")
        left = kwargs.get("left")
        right = kwargs.get("right")
        left = fp[0] if left is None or (isinstance(left, Const) and left.v is None) else left
        right = fp[-1] if right is None or (isinstance(right, Const) and right.v is None) else right
        if decided(I, ast.Lt(), x, xp[0]):
            return left
        if decided(I, ast.Gt(), x, xp[-1]):
            return right
        for i in range(len(xp)):
            if decided(I, ast.Eq(), x, xp[i]):
                return fp[i]
            if i + 1 < len(xp) and decided(I, ast.Lt(), x, xp[i + 1]):
                slope = I.binop(ast.Div(), I.binop(ast.Sub(), fp[i + 1], fp[i]), I.binop(ast.Sub(), xp[i + 1], xp[i]))
                return I.binop(ast.Add(), fp[i], I.binop(ast.Mult(), I.binop(ast.Sub(), x, xp[i]), slope))
        _err("interp: position of x not found")

    def searchsorted(args, kwargs, node, env):
        _kw(kwargs, ("side",), "searchsorted")
        if len(args) not in (2, 3):
            _err("searchsorted arguments")
        side = kwargs.get("side", args[2] if len(args) == 3 else Const("left"))
        if not (isinstance(side, Const) and side.v in ("left", "right")):
            _err("searchsorted side %r" % (side,))
        a = as_array(I, args[0], "searchsorted").items
        for i in range(len(a) - 1):
            if not decided(I, ast.LtE(), a[i], a[i + 1]):
                _err("searchsorted on an array that is not sorted")
        v = args[1]
        op = ast.Lt() if side.v == "left" else ast.LtE()
        n = 0
        for e in a:
            if decided(I, op, e, v):
                n += 1
        return Num(ep.const(n))

    def argsort(args, kwargs, node, env):
        _kw(kwargs, ("kind",), "argsort")
        if len(args) != 1:
            _err("argsort arguments")
        a = as_array(I, args[0], "argsort").items
        idx = list(range(len(a)))
        # stable insertion sort on decided comparisons
        out = []
        for i in idx:
            j = len(out)
            while j > 0 and decided(I, ast.Lt(), a[i], a[out[j - 1]]):
                j -= 1
            out.insert(j, i)
        return PyObjV(NDArray([Num(ep.const(i)) for i in out]))

    def sort(args, kwargs, node, env):
        if kwargs or len(args) != 1:
            _err("sort arguments")
        a = as_array(I, args[0], "sort")
        order = argsort([PyObjV(a)], {}, node, env).obj.items
        return PyObjV(NDArray([a.items[int(o.const())] for o in order]))

    def truths(v, what):
        a = arr(v)
        items = a.items if a is not None else [v]
        out = []
        for it in items:
            t = I.truth(it)
            if not isinstance(t, bool):
                _err("%s of an undecided truth value %r" % (what, it))
            out.append(t)
        return out

    def any_(args, kwargs, node, env):
        if kwargs or len(args) != 1:
            _err("any arguments")
        return Const(any(truths(args[0], "any")))

    def all_(args, kwargs, node, env):
        if kwargs or len(args) != 1:
            _err("all arguments")
        return Const(all(truths(args[0], "all")))

    def isclose(args, kwargs, node, env):
        _kw(kwargs, ("rtol", "atol"), "isclose")
        if len(args) != 2:
            _err("isclose arguments")

        def cnum(v, what):
            c = v.const() if isinstance(v, Num) else None
            if c is None:
                _err("isclose %s %r is not a known number" % (what, v))
            return Fraction(c)
        rtol = cnum(kwargs.get("rtol", Num(ep.const(Fraction(1, 100000)))), "rtol")
        atol = cnum(kwargs.get("atol", Num(ep.const(Fraction(1, 100000000)))), "atol")
        a, b = arr(args[0]), arr(args[1])
        n = max(len(a.items) if a is not None else 1, len(b.items) if b is not None else 1)
        xs = a.items if a is not None else [args[0]] * n
        ys = b.items if b is not None else [args[1]] * n
        if len(xs) != len(ys):
            _err("isclose operands of different length")
        res = [Const(abs(cnum(x, "operand") - cnum(y, "operand")) <= atol + rtol * abs(cnum(y, "operand"))) for x, y in zip(xs, ys)]
        return PyObjV(NDArray(res)) if (a is not None or b is not None) else res[0]

    def allclose(args, kwargs, node, env):
        r = isclose(args, kwargs, node, env)
        return Const(all(truths(r, "allclose")))

    def linspace(args, kwargs, node, env):
        _kw(kwargs, ("num",), "linspace")
        n = kwargs.get("num", args[2] if len(args) == 3 else Num(ep.const(50)))
        c = n.const() if isinstance(n, Num) else None
        if c is None or len(args) < 2:
            _err("linspace with a symbolic number of points")
        c = int(c)
        a, b = args[0], args[1]
        if c == 1:
            return PyObjV(NDArray([a]))
        step = I.binop(ast.Div(), I.binop(ast.Sub(), b, a), Num(ep.const(c - 1)))
        return PyObjV(NDArray([I.binop(ast.Add(), a, I.binop(ast.Mult(), Num(ep.const(i)), step)) for i in range(c)]))

    def arange(args, kwargs, node, env):
        _kw(kwargs, ("dtype",), "arange")
        if not 1 <= len(args) <= 3:
            _err("arange arguments")
        vals = [a if isinstance(a, Num) else Num(I.num(a, node)) for a in args]
        start, stop, step = {1: (Num(ep.const(0)), vals[0], Num(ep.const(1))), 2: (vals[0], vals[1], Num(ep.const(1))),
                             3: tuple(vals)}[len(vals)]
        cs = [v.const() for v in (start, stop, step)]
        if all(c is not None for c in cs):
            import math
            n = max(0, math.ceil((Fraction(cs[1]) - Fraction(cs[0])) / Fraction(cs[2])))
            return PyObjV(NDArray([Num(ep.const(Fraction(cs[0]) + i * Fraction(cs[2]))) for i in range(n)]))
        whole_step = cs[2] is not None and Fraction(cs[2]).denominator == 1
        if not whole_step:
            # numpy's own documentation: with a non-integer step the length ceil((stop - start)/step) is decided by a rounded
            # floating-point quotient - for some values one element more or fewer than the exact quotient says
            from .symeval import RaiseSignal
            from .symeval_ops import ExcV
            raise RaiseSignal(ExcV(ExtV("verif.FloatControlledOutputLoop"),
                                   [Const("the length of numpy.arange(start, stop, step) with a non-integer step is ceil of a rounded "
                                          "floating-point quotient (numpy documents linspace for this)")]), node)
        _err("arange of symbolic whole numbers")

    names = {"arange": arange, "asarray": asarray, "array": asarray, "asfarray": asarray, "diff": diff, "interp": interp, "searchsorted": searchsorted,
             "argsort": argsort, "sort": sort, "any": any_, "all": all_, "isclose": isclose, "allclose": allclose, "linspace": linspace}
    for nm, fn in names.items():
        for prefix in ("numpy", "np"):
            setattr(I, "x_%s_%s" % (prefix, nm), fn)
    I.numpy_model = True

"""Abstract values of the symbolic evaluator (see symeval.py)."""
from . import ep
from .strtree import SNode, SLit, SFmt, SCat


class V(object):
    """base"""
    def key(self):
        raise NotImplementedError(type(self).__name__)


class Num(V):
    def __init__(self, rf, inexact=False):
        self.rf = ep.rf(rf)
        self.inexact = inexact   # result of a true division / float function (int() is not the identity on it)

    def const(self):
        return self.rf.as_const()

    def key(self):
        return ("num", self.rf)

    def __repr__(self):
        return repr(self.rf)


class Const(V):
    """None / bool / str"""
    def __init__(self, v):
        self.v = v

    def key(self):
        return ("const", self.v)

    def __repr__(self):
        return repr(self.v)


NONE = Const(None)
TRUE = Const(True)
FALSE = Const(False)


class ListV(V):
    def __init__(self, items, kind="list"):
        self.items = list(items)
        self.kind = kind

    def key(self):
        if self.kind == "set":       # sets are equal (and hash alike) whatever order their members were added in
            return (self.kind,) + tuple(sorted((i.key() for i in self.items), key=repr))
        return (self.kind,) + tuple(i.key() for i in self.items)

    def __repr__(self):
        return "%s%r" % (self.kind, self.items)


class SortedV(V):
    """sorted arrangement of symbolic items: equal iff same multiset"""
    def __init__(self, items):
        self.items = list(items)

    def key(self):
        return ("sorted", tuple(sorted((i.key() for i in self.items), key=repr)))

    def __repr__(self):
        return "sorted%r" % (self.items,)


class DictV(V):
    def __init__(self, items=None):
        self.items = items if items is not None else {}   # key() -> (keyV, valV)
        self.order_tainted = False

    def key(self):
        return ("dict", id(self))

    def __repr__(self):
        return "dict{%s}" % ", ".join("%r: %r" % kv for kv in self.items.values())


class FuncV(V):
    def __init__(self, fi, closure=None, selfv=None, name=None):
        self.fi = fi
        self.closure = closure
        self.selfv = selfv
        self.attrs = {}

    def key(self):
        return ("func", self.fi.fq, self.selfv.key() if self.selfv is not None else None)

    def __deepcopy__(self, memo):
        import copy
        c = FuncV(self.fi, copy.deepcopy(self.closure, memo), copy.deepcopy(self.selfv, memo))
        c.attrs = copy.deepcopy(self.attrs, memo)
        return c

    def __repr__(self):
        return "<fn %s>" % self.fi.qualname


class ClassV(V):
    def __init__(self, ci):
        self.ci = ci

    def key(self):
        return ("class", self.ci.fq)

    def __deepcopy__(self, memo):
        return self

    def __repr__(self):
        return "<class %s>" % self.ci.name


class LocalClassV(V):
    """class defined inside a function body"""
    def __init__(self, ci, closure):
        self.ci = ci
        self.closure = closure

    def key(self):
        return ("lclass", self.ci.name)

    def __repr__(self):
        return "<local class %s>" % self.ci.name


class InstV(V):
    def __init__(self, ci, label=None):
        self.ci = ci
        self.attrs = {}
        self.label = label
        self.closure = None

    def key(self):
        if self.label is not None:
            return ("inst", self.ci.name, self.label)
        return ("inst", self.ci.name, id(self))

    def __repr__(self):
        return "<%s %s>" % (self.ci.name, self.label if self.label is not None else hex(id(self) & 0xffff))


class ModV(V):
    def __init__(self, name, module=None):
        self.name = name
        self.module = module  # repo Module or None for external

    def key(self):
        return ("module", self.name)

    def __deepcopy__(self, memo):
        return self

    def __repr__(self):
        return "<module %s>" % self.name


class ExtV(V):
    """external (non-repo) object referenced by dotted name, e.g. math.exp"""
    def __init__(self, name):
        self.name = name

    def key(self):
        return ("ext", self.name)

    def __deepcopy__(self, memo):
        return self

    def __repr__(self):
        return "<ext %s>" % self.name


class Opaque(V):
    """An unknown object named by an access path; may carry a class so that
    attribute access and calls resolve through the repo's own code."""
    def __init__(self, path):
        self.path = path  # hashable description

    def key(self):
        return ("opaque", self.path)

    def __deepcopy__(self, memo):
        return self

    def __repr__(self):
        return fmt_path(self.path)


def fmt_path(p):
    if isinstance(p, tuple) and p:
        if p[0] == "attr":
            return "%s.%s" % (fmt_path(p[1]), p[2])
        if p[0] == "elem":
            return "%s[%r]" % (fmt_path(p[1]), p[2])
        if p[0] == "item":
            return "%s[%s]" % (fmt_path(p[1]), fmt_path(p[2]))
        if p[0] == "param":
            return str(p[1])
        if p[0] == "opaque":
            return fmt_path(p[1])
        if p[0] == "num":
            return repr(p[1])
        if p[0] == "const":
            return repr(p[1])
        if p[0] == "deriv":
            return "D(%s)" % fmt_path(p[1])
    return str(p)


class StrV(V):
    """symbolic string (output-expression node).  A string all of whose pieces are literals is the constant itself."""
    def __new__(cls, node=None):
        from .strtree import flatten, SLit, SCat
        if node is None:         # copy / deepcopy protocol
            return object.__new__(cls)
        f = flatten(node)
        if isinstance(f, SLit):
            return Const(f.text)
        if isinstance(f, SCat) and not f.parts:
            return Const("")
        return object.__new__(cls)

    def __init__(self, node):
        self.node = node

    def key(self):
        return ("str", repr(self.node))

    def __repr__(self):
        return "str<%r>" % (self.node,)


class BufV(V):
    """StringIO / file-like sink: ordered list of string nodes."""
    def __init__(self, name, is_file=False):
        self.name = name
        self.pieces = []
        self.is_file = is_file

    def key(self):
        return ("buf", self.name, id(self))

    def __repr__(self):
        return "<buf %s %d pieces>" % (self.name, len(self.pieces))


class SeqV(V):
    """Symbolic sequence.  kinds:
       opaque(path, elem_class)            user supplied list
       family(var, lo, hi, elem)           [elem(var) for var in range(lo,hi)]
       seqmap(var, seq, elem)              [elem(var) for index var over SeqV seq]
       concat(parts)                       concatenation of ListV/SeqV parts
    """
    def __init__(self, kind, **kw):
        self.kind = kind
        self.__dict__.update(kw)

    def key(self):
        if self.kind == "opaque":
            return ("seq", self.path)
        if self.kind == "family":
            return ("family", self.lo, self.hi, ep._subst_key(self.elem.key(), {self.var: ep.sym("@v")}))
        if self.kind == "seqmap":
            return ("seqmap", self.seq.key(), ep._subst_key(self.elem.key(), {self.var: ep.sym("@v")}))
        if self.kind == "guarded":
            return ("guarded", tuple((c.key(), v) for c, v in self.conds), self.part.key())
        if self.kind == "rows":
            return ("rows", self.base.key(), self.per, self.flush)
        if self.kind == "rowstrings":
            return ("rowstrings", id(self.spec), repr(self.node))
        if self.kind == "nested":
            return ("nested", self.var, tuple(p.key() for p in self.parts))
        return ("concat",) + tuple(p.key() for p in self.parts)

    def __repr__(self):
        if self.kind == "opaque":
            return "seq<%s>" % fmt_path(self.path)
        if self.kind == "family":
            return "[%r for %s in %r..%r)" % (self.elem, self.var, self.lo, self.hi)
        if self.kind == "seqmap":
            return "[%r for %s over %r]" % (self.elem, self.var, self.seq)
        if self.kind == "guarded":
            return "guarded[%r if %r]" % (self.part, self.conds)
        if self.kind == "rows":
            return "rows[%r by %d]" % (self.base, self.per)
        if self.kind == "rowstrings":
            return "rowstrings[%r]" % (self.node,)
        return "%s%r" % (self.kind, self.parts,)


class SetV(V):
    """Symbolic set built by (nested) loops: elements elem over binders."""
    def __init__(self, binders, elem, base_items=None):
        self.binders = binders      # list of (var, SeqV or ('range', lo, hi))
        self.elem = elem
        self.sorted = False

    def key(self):
        return ("set", tuple((b[0], b[1].key() if isinstance(b[1], V) else b[1]) for b in self.binders), self.elem.key())

    def __repr__(self):
        return "set{%r | %s}" % (self.elem, ", ".join("%s in %r" % (b[0], b[1]) for b in self.binders))


class LoopDictV(V):
    """dict filled inside a symbolic loop: {keyf(var): valf(var)}"""
    def __init__(self, var, seq, keyv, valv):
        self.var = var
        self.seq = seq
        self.keyv = keyv
        self.valv = valv

    def key(self):
        return ("loopdict", self.var, self.seq.key(), self.keyv.key(), self.valv.key())

    def __repr__(self):
        return "{%r: %r for %s over %r}" % (self.keyv, self.valv, self.var, self.seq)


class LookupV(V):
    """result of looking a symbolic key up in a LoopDictV"""
    def __init__(self, ld, query, default):
        self.ld = ld
        self.query = query
        self.default = default   # V or None (KeyError)

    def key(self):
        return ("lookup", self.ld.key(), self.query.key(), self.default.key() if self.default is not None else None)

    def __repr__(self):
        return "lookup(%r, %r, default=%r)" % (self.ld, self.query, self.default)


class Cond(V):
    """symbolic boolean"""
    def __init__(self, kind, *args):
        self.kind = kind
        self.args = args

    def key(self):
        return ("cond", self.kind) + tuple(a.key() if isinstance(a, V) else a for a in self.args)

    def __deepcopy__(self, memo):
        return self

    def __repr__(self):
        if self.kind == "cmp":
            return "(%r %s %r)" % (self.args[1], self.args[0], self.args[2])
        if self.kind == "not":
            return "not %r" % (self.args[0],)
        return "%s(%s)" % (self.kind, ", ".join(repr(a) for a in self.args))


class Phi(V):
    def __init__(self, cond, a, b):
        self.cond = cond
        self.a = a
        self.b = b

    def key(self):
        return ("phi", self.cond.key(), self.a.key() if self.a is not None else None,
                self.b.key() if self.b is not None else None)

    def __repr__(self):
        return "phi(%r ? %r : %r)" % (self.cond, self.a, self.b)


class Unknown(V):
    """a value the analysis does not track (e.g. a line-wrap counter)"""
    def __init__(self, tag):
        self.tag = tag

    def key(self):
        return ("unknown", self.tag)

    def __repr__(self):
        return "?%s" % self.tag


class Undefined(V):
    def key(self):
        return ("undefined",)

    def __repr__(self):
        return "<undefined>"


UNDEF = Undefined()


def to_node(v):
    """string node for a value used in string context"""
    if isinstance(v, StrV):
        return v.node
    if isinstance(v, Const) and isinstance(v.v, str):
        if type(v).__name__ == "EnumConst":
            from .model import AnalysisError
            raise AnalysisError("text made from the enum member %s.%s (how it prints depends on the Python version)" % v.enum)
        return SLit(v.v)
    if isinstance(v, SNode):
        return v
    return SFmt("s", v)

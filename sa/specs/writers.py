"""Reference writers: the simplest direct transcription of each property
statement (C01-C05, C19) into Python.  They are never executed; the symbolic
evaluator translates both these and the repository's writers into output
expression trees, which must be equal.  ``D(f)`` denotes the derivative of the
callable f with respect to its argument."""
from io import StringIO


def D(f):
    raise NotImplementedError("symbolic only")


def ZERO(r):
    return 0.0


# ---- C01 -------------------------------------------------------------------
def lammps_pair_table(potentials, cutoff, nr, fp):
    """one block per potential; N = nr-1 rows 1..N at r = n*dr, dr = cutoff/(nr-1);
    columns n, r, E(r), -dE/dr(r); header 'N <N> R <lo> <hi>' with lo = dr, hi = cutoff"""
    dr = cutoff / (nr - 1)
    N = nr - 1
    blocks = []
    for pot in potentials:
        out = StringIO()
        out.write("%s-%s\n" % (pot.speciesA, pot.speciesB))
        out.write("N %d R %.8f %.8f\n" % (N, dr, cutoff))
        out.write("\n")
        for n in range(1, N + 1):
            r = n * dr
            out.write("%d %.8f %.8f %.8f\n" % (n, r, pot.potentialFunction(r), -D(pot.potentialFunction)(r)))
        blocks.append(out.getvalue())
    fp.write("\n".join(blocks))


# ---- C02 -------------------------------------------------------------------
def dlpoly_table(potentials, cutoff, nr, fp):
    """header delpot = cutoff/(ngrid-4), cutpot = cutoff, ngrid = nr; per potential a species line in two
    8-character fields, then ngrid energies V(k*delpot), k = 1..ngrid, then ngrid values -r dV/dr at the
    same r, four 15-character fields per record"""
    delpot = cutoff / (nr - 4)
    fp.write(" " * 80 + "\n")
    fp.write("%15.8e%15.8e%10d\n" % (delpot, cutoff, nr))
    for pot in potentials:
        fp.write("%8s%8s\n" % (pot.speciesA, pot.speciesB))
        row = []
        for k in range(1, nr + 1):
            row.append(pot.potentialFunction(k * delpot))
            if len(row) == 4:
                fp.write(" % 14.7e % 14.7e % 14.7e % 14.7e\n" % tuple(row))
                row = []
        row = []
        for k in range(1, nr + 1):
            r = k * delpot
            row.append(-r * D(pot.potentialFunction)(r))
            if len(row) == 4:
                fp.write(" % 14.7e % 14.7e % 14.7e % 14.7e\n" % tuple(row))
                row = []


def ANY():
    """a field whose value the property does not constrain"""
    raise NotImplementedError("symbolic only")


class _Zero(object):
    def energy(self, r):
        return 0.0


def _pair_table(pairpots):
    table = {}
    for pp in pairpots:
        table[tuple(sorted([pp.speciesA, pp.speciesB]))] = pp
    return table


# ---- C03 / C04 --------------------------------------------------------------
def _setfl_head(eampots, nrho, drho, nr, dr, fp):
    fp.write("\n\n\n")
    fp.write("%d" % len(eampots))
    for e in eampots:
        fp.write(" %s" % e.species)
    fp.write("\n")
    fp.write("%d  %20.16e %d  %20.16e  %20.16e\n" % (nrho, drho, nr, dr, ANY()))


def _setfl_pairs(eampots, pairpots, nr, dr, scale, fp):
    table = _pair_table(pairpots)
    for i in range(len(eampots)):
        for j in range(i + 1):
            pp = table.get(tuple(sorted([eampots[i].species, eampots[j].species])), _Zero())
            for k in range(nr):
                r = k * dr
                if scale:
                    fp.write("% 20.16e\n" % (pp.energy(r) * r))
                else:
                    fp.write("% 20.16e\n" % pp.energy(r))


def setfl(potentials, eam_potentials, cutoff, nr, cutoff_rho, nrho, fp):
    """tabulation-class / potable route: the grid is dr = cutoff/(nr-1), drho = cutoff_rho/(nrho-1)"""
    setfl_api(nrho, cutoff_rho / (nrho - 1), nr, cutoff / (nr - 1), eam_potentials, potentials, fp)


def setfl_api(nrho, drho, nr, dr, eam_potentials, potentials, fp):
    """setfl: header names each element once; per element (in that order) atomic number, mass, lattice
    constant, lattice type, Nrho values F(i*drho), Nr values rho(i*dr); then for (i, j<=i) Nr values r*phi(r)"""
    _setfl_head(eam_potentials, nrho, drho, nr, dr, fp)
    for e in eam_potentials:
        fp.write("%d %20.16e %20.16e %s\n" % (e.atomicNumber, e.mass, e.latticeConstant, e.latticeType))
        for i in range(nrho):
            fp.write("% 20.16e\n" % e.embeddingFunction(i * drho))
        for i in range(nr):
            fp.write("% 20.16e\n" % e.electronDensityFunction(i * dr))
    _setfl_pairs(eam_potentials, potentials, nr, dr, True, fp)


def setfl_fs(potentials, eam_potentials, cutoff, nr, cutoff_rho, nrho, fp):
    setfl_fs_api(nrho, cutoff_rho / (nrho - 1), nr, cutoff / (nr - 1), eam_potentials, potentials, fp)


def setfl_fs_api(nrho, drho, nr, dr, eam_potentials, potentials, fp):
    """eam/fs: as setfl, but the block of element X holds, for each element Y in header order, the density
    that an X neighbour contributes at a Y site: EAMPotential(Y).electronDensityFunction[X]"""
    _setfl_head(eam_potentials, nrho, drho, nr, dr, fp)
    for x in eam_potentials:
        fp.write("%d %20.16e %20.16e %s\n" % (x.atomicNumber, x.mass, x.latticeConstant, x.latticeType))
        for i in range(nrho):
            fp.write("% 20.16e\n" % x.embeddingFunction(i * drho))
        for y in eam_potentials:
            for i in range(nr):
                fp.write("% 20.16e\n" % y.electronDensityFunction[x.species](i * dr))
    _setfl_pairs(eam_potentials, potentials, nr, dr, True, fp)


# ---- C05 / C04 (DL_POLY TABEAM) ---------------------------------------------
from atsim.potentials._potential import Potential


def _tab4(fp, func, n, step):
    row = []
    for i in range(n):
        row.append("%f" % func(i * step))
        if len(row) == 4:
            fp.write(" ".join(row) + "\n")
            row = []
    if row:
        fp.write(" ".join(row) + "\n")


def _tabeam_head_pairs_embed(potentials, eam_potentials, nr, dr, nrho, drho, count, fp):
    fp.write(" " * 100 + "\n")
    fp.write("%d\n" % count)
    table = _pair_table(potentials)
    pairs = set()
    for a in eam_potentials:
        for b in eam_potentials:
            pairs.add(tuple(sorted([a.species, b.species])))
    for k in sorted(pairs):
        pp = table.get(k, Potential(k[0], k[1], ZERO))
        fp.write("pair %s %s %d 0.0 %f\n" % (pp.speciesA, pp.speciesB, nr, (nr - 1) * dr))
        _tab4(fp, pp.energy, nr, dr)
    for e in eam_potentials:
        fp.write("embe %s %d 0.0 %f\n" % (e.species, nrho, (nrho - 1) * drho))
        _tab4(fp, e.embeddingFunction, nrho, drho)


def tabeam(potentials, eam_potentials, cutoff, nr, cutoff_rho, nrho, fp):
    tabeam_api(nrho, cutoff_rho / (nrho - 1), nr, cutoff / (nr - 1), eam_potentials, potentials, fp)


def tabeam_api(nrho, drho, nr, dr, eam_potentials, potentials, fp):
    """TABEAM: declared count n(n+5)/2 = pair blocks (one per unordered element pair) + n embe + n dens;
    each header gives n points, start 0 and end (n-1)*step and is followed by n values f(i*step)"""
    n = len(eam_potentials)
    _tabeam_head_pairs_embed(potentials, eam_potentials, nr, dr, nrho, drho, n * (n + 5) / 2, fp)
    for e in eam_potentials:
        fp.write("dens %s %d 0.0 %f\n" % (e.species, nr, (nr - 1) * dr))
        _tab4(fp, e.electronDensityFunction, nr, dr)


def tabeam_fs(potentials, eam_potentials, cutoff, nr, cutoff_rho, nrho, fp):
    tabeam_fs_api(nrho, cutoff_rho / (nrho - 1), nr, cutoff / (nr - 1), eam_potentials, potentials, fp)


def tabeam_fs_api(nrho, drho, nr, dr, eam_potentials, potentials, fp):
    """EEAM TABEAM: 3n(n+1)/2 functions; 'dens A B' holds EAMPotential(A).electronDensityFunction[B]
    (density at an A site from a B neighbour), B in sorted order"""
    n = len(eam_potentials)
    _tabeam_head_pairs_embed(potentials, eam_potentials, nr, dr, nrho, drho, 3 * n * (n + 1) / 2, fp)
    for a in eam_potentials:
        for b in sorted([e.species for e in eam_potentials]):
            fp.write("dens %s %s %d 0.0 %f\n" % (a.species, b, nr, (nr - 1) * dr))
            _tab4(fp, a.electronDensityFunction[b], nr, dr)


# ---- C19 -------------------------------------------------------------------
def WS():
    """optional whitespace / line break whose exact placement the property does not fix"""
    raise NotImplementedError("symbolic only")


def gulp_table(potentials, cutoff, nr, fp):
    """per potential: 'spline cubic', a header with the species and the cutoff, then exactly nr rows
    'energy separation' at r_i = i*cutoff/(nr-1)"""
    for pot in potentials:
        fp.write("spline cubic\n")
        fp.write("{} {} {}\n".format(pot.speciesA, pot.speciesB, cutoff))
        for i in range(nr):
            r = i * cutoff / (nr - 1)
            fp.write("{:.10f} {:.10f}\n".format(pot.potentialFunction(r), r))


def adp(potentials, eam_potentials, dipole_potentials, quadrupole_potentials, cutoff, nr, cutoff_rho, nrho, fp):
    """the setfl file of the same model, then the dipole and then the quadrupole functions, unscaled,
    for every element pair (i, j<=i) in header order, zero where undeclared"""
    dr = cutoff / (nr - 1)
    setfl(potentials, eam_potentials, cutoff, nr, cutoff_rho, nrho, fp)
    _setfl_pairs(eam_potentials, dipole_potentials, nr, dr, False, fp)
    _setfl_pairs(eam_potentials, quadrupole_potentials, nr, dr, False, fp)


def funcfl(nrho, drho, nr, dr, eam_potentials, potentials, fp):
    """funcfl: title; atomic number, mass, lattice constant, lattice type; nrho drho nr dr cutoff with
    cutoff = dr*(nr-1); embedding values F(i*drho); effective charges Z(r) with Z^2 * 27.2 * 0.529 / r = phi(r);
    densities rho(i*dr)"""
    e = eam_potentials[0]
    pp = potentials[0]
    fp.write("\n")
    fp.write("%d %f %f %s\n" % (e.atomicNumber, e.mass, e.latticeConstant, e.latticeType))
    fp.write("%d %f %d %f %f\n" % (nrho, drho, nr, dr, dr * (nr - 1)))
    for i in range(nrho):
        fp.write(" % 20.16e" % e.embeddingFunction(i * drho))
        fp.write(WS())
    fp.write(WS())
    for i in range(nr):
        r = i * dr
        fp.write(" % 20.16e" % (pp.energy(r) * r / 27.2 / 0.529) ** 0.5)
        fp.write(WS())
    fp.write(WS())
    for i in range(nr):
        fp.write(" % 20.16e" % e.electronDensityFunction(i * dr))
        fp.write(WS())


# ---- C18 -------------------------------------------------------------------
def plot_to_file(fileobj, lowx, highx, func, steps):
    """exactly 'steps' rows at x_i = lowx + i*(highx-lowx)/steps with y_i = f(x_i)"""
    for i in range(steps):
        x = lowx + i * (highx - lowx) / steps
        fileobj.write("{0} {1}\n".format(x, func(x)))

"""Reference writers: the simplest direct transcription of each property
statement (C01-C05, C19) into Python.  They are never executed; the symbolic
evaluator translates both these and the repository's writers into output
expression trees, which must be equal.  ``D(f)`` denotes the derivative of the
callable f with respect to its argument."""
from io import StringIO


def D(f):
    raise NotImplementedError("symbolic only")


def ZERO(r):
    return 0.0


# ---- C01 -------------------------------------------------------------------
def lammps_pair_table(potentials, cutoff, nr, fp):
    """one block per potential; N = nr-1 rows 1..N at r = n*dr, dr = cutoff/(nr-1);
    columns n, r, E(r), -dE/dr(r); header 'N <N> R <lo> <hi>' with lo = dr, hi = cutoff"""
    dr = cutoff / (nr - 1)
    N = nr - 1
    blocks = []
    for pot in potentials:
        out = StringIO()
        out.write("%s-%s\n" % (pot.speciesA, pot.speciesB))
        out.write("N %d R %.8f %.8f\n" % (N, dr, cutoff))
        out.write("\n")
        for n in range(1, N + 1):
            r = n * dr
            out.write("%d %.8f %.8f %.8f\n" % (n, r, pot.potentialFunction(r), -D(pot.potentialFunction)(r)))
        blocks.append(out.getvalue())
    fp.write("\n".join(blocks))

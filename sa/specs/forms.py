"""Documented formulas of the built-in potential forms, transcribed from
docs/reference/potential_forms.rst (one function per manual entry; the parameter
ORDER is not taken from here but parsed from the manual's ':potable signature:'
lines on every run).  Parameter names are those of atsim.potentials.potentialfunctions.
Never executed: translated to normal forms by the symbolic evaluator."""
from math import exp, sqrt, pi, factorial


def bornmayer(r, A, rho):
    # manual: V = A exp(-r/rho)
    return A * exp(-r / rho)


def buck(r, A, rho, C):
    # manual: V = A exp(-r/rho) - C/r^6
    return A * exp(-r / rho) - C / r ** 6


def constant(r, constant):
    # manual: V = C
    return constant


def coul(r, qi, qj):
    # manual: V = qi qj / (4 pi eps0 r); eps0 = 0.0055264 e^2/(eV A) ("constant value appropriate for r in
    # angstroms and energy in eV"; CODATA 0.00552635; the 5-digit value is the one in the class's _as_sympy)
    return qi * qj / (4 * pi * 0.0055264 * r)


def exponential(r, A, n):
    # manual: V = A r^n
    return A * r ** n


def exp_spline(r, B0, B1, B2, B3, B4, B5, C):
    # manual: V = exp(B0 + B1 r + B2 r^2 + B3 r^3 + B4 r^4 + B5 r^5) + C
    return exp(B0 + B1 * r + B2 * r ** 2 + B3 * r ** 3 + B4 * r ** 4 + B5 * r ** 5) + C


def hbnd(r, A, B):
    # manual: V = A/r^12 - B/r^10
    return A / r ** 12 - B / r ** 10


def lj(r, epsilon, sigma):
    # manual: V = 4 eps (sigma^12/r^12 - sigma^6/r^6)
    return 4 * epsilon * (sigma ** 12 / r ** 12 - sigma ** 6 / r ** 6)


def morse(r, gamma, r_star, D):
    # manual: V = D [exp(-2 gamma (r - r*)) - 2 exp(-gamma (r - r*))]
    return D * (exp(-2 * gamma * (r - r_star)) - 2 * exp(-gamma * (r - r_star)))


def sqrt_(r, G):
    # manual: U = G sqrt(r)
    return G * sqrt(r)


def zero(r):
    # manual: V = 0
    return 0


def _f2n(x, n):
    # manual: f_2n(x) = 1 - exp(-x) sum_{k=0}^{2n} x^k/k!
    s = 0
    for k in range(2 * n + 1):
        s = s + x ** k / factorial(k)
    return 1 - exp(-x) * s


def tang_toennies(r, A, b, C_6, C_8, C_10):
    # manual: V = A exp(-b R) - sum_{n=3}^{5} f_2n(b R) C_2n / R^2n   (atomic units);
    # R = r/0.5292 (bohr) and V*27.211 (eV): conversion constants as in the class's own _as_sympy
    R = r / 0.5292
    v = A * exp(-b * R) - (_f2n(b * R, 3) * C_6 / R ** 6 + _f2n(b * R, 4) * C_8 / R ** 8 + _f2n(b * R, 5) * C_10 / R ** 10)
    return v * 27.211


# polynomial: V = C_0 + C_1 r + ... + C_n r^n is generated for each order by the rule itself.
# zbl: excluded from this oracle - the manual's entry is schematic (undefined S(r), Z_1/Z_2 for Z_1 Z_2, and
# 5-digit screening constants where the code carries the 4-digit universal set); its oracle is _as_sympy.

MANUAL_NAMES = {"sqrt_": "sqrt"}

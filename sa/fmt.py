"""E-FMT: printf-style and str.format template parsing."""
import re
from .model import AnalysisError

_PRINTF = re.compile(r"%(?:\((?P<key>[^)]*)\))?(?P<flags>[-+ #0]*)(?P<width>\d+|\*)?(?:\.(?P<prec>\d+))?(?P<conv>[diouxXeEfFgGcrsa%])")


class Field(object):
    def __init__(self, key, conv, flags="", width=None, prec=None):
        self.key = key      # None (positional, printf), int (format index), str (name)
        self.conv = conv
        self.flags = flags
        self.width = width
        self.prec = prec

    def __repr__(self):
        return "Field(%r,%s%s%s%s)" % (self.key, self.flags, self.width if self.width is not None else "",
                                       (".%d" % self.prec) if self.prec is not None else "", self.conv)


def parse_printf(template):
    """-> list of str | Field"""
    out = []
    pos = 0
    for m in _PRINTF.finditer(template):
        if m.start() > pos:
            out.append(template[pos:m.start()])
        pos = m.end()
        conv = m.group("conv")
        if conv == "%":
            out.append("%")
            continue
        if m.group("width") == "*":
            raise AnalysisError("printf '*' width not supported: %r" % template)
        conv = {"i": "d", "u": "d", "E": "e", "F": "f", "G": "g"}.get(conv, conv)
        out.append(Field(m.group("key"), conv, m.group("flags") or "",
                         int(m.group("width")) if m.group("width") else None,
                         int(m.group("prec")) if m.group("prec") else None))
    if pos < len(template):
        out.append(template[pos:])
    # stray '%' that did not match is a runtime error in python; treat as unsupported
    rest = "".join(x for x in out if isinstance(x, str))
    return _merge(out)


_FORMAT_SPEC = re.compile(r"^(?:(?P<fill>.)?(?P<align>[<>=^]))?(?P<sign>[-+ ])?(?P<alt>#)?(?P<zero>0)?(?P<width>\d+)?(?P<grp>[,_])?(?:\.(?P<prec>\d+))?(?P<type>[bcdeEfFgGnosxX%])?$")


def parse_format(template):
    """str.format template -> list of str | Field (key int or str)."""
    out = []
    i = 0
    n = len(template)
    auto = 0
    buf = ""
    while i < n:
        c = template[i]
        if c == "{":
            if i + 1 < n and template[i + 1] == "{":
                buf += "{"
                i += 2
                continue
            j = template.find("}", i)
            if j < 0:
                raise AnalysisError("unbalanced format template %r" % template)
            inner = template[i + 1:j]
            if "{" in inner:
                raise AnalysisError("nested format fields not supported: %r" % template)
            name, _, spec = inner.partition(":")
            convflag = None
            if "!" in name:
                name, convflag = name.split("!", 1)
            if name == "":
                key = auto
                auto += 1
            elif name.isdigit():
                key = int(name)
            else:
                key = name
            if buf:
                out.append(buf)
                buf = ""
            m = _FORMAT_SPEC.match(spec)
            if not m:
                raise AnalysisError("format spec %r not understood" % spec)
            conv = m.group("type") or ("r" if convflag == "r" else "s")
            conv = {"E": "e", "F": "f", "G": "g", "n": "d"}.get(conv, conv)
            flags = (m.group("sign") or "") + ("0" if m.group("zero") else "")
            out.append(Field(key, conv, flags,
                             int(m.group("width")) if m.group("width") else None,
                             int(m.group("prec")) if m.group("prec") else None))
            i = j + 1
            continue
        if c == "}":
            if i + 1 < n and template[i + 1] == "}":
                buf += "}"
                i += 2
                continue
            raise AnalysisError("single '}' in format template %r" % template)
        buf += c
        i += 1
    if buf:
        out.append(buf)
    return _merge(out)


def _merge(items):
    out = []
    for x in items:
        if isinstance(x, str) and out and isinstance(out[-1], str):
            out[-1] += x
        else:
            out.append(x)
    return out

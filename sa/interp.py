"""Composition of the symbolic evaluator and the entry points used by rules."""
import ast

from . import ep
from .model import AnalysisError, FuncInfo
from .values import *    # noqa
from .strtree import *   # noqa
from .symeval import InterpCore, Env, ReturnSignal, RaiseSignal, ContinueSignal, is_strlike, make_phi
import ast
from .symeval_ops import (PyObjV, OpsMixin, BoundBuiltin, DerivV, NTClassV, NTV, ExcV, ChunkListV, SJoin, SJoinItems,
                          strip_docstring_body)
from .symeval_ext import IterV, ExtMixin, SetAccV
from .symeval_stmt import StmtMixin, ChunkItem


class Interp(StmtMixin, ExtMixin, OpsMixin, InterpCore):

    def __init__(self, program, **kw):
        InterpCore.__init__(self, program, **kw)
        self.loop_stack = []
        self.ext_methods = {}     # (external base class name, method) -> python model f(interp, inst, args, kwargs)
        self.ext_methods[("Formatter", "format")] = _formatter_format
        self.proxy_store = {}
        self.sticky = 0
        self.at_function_tail = True
        self.loop_body_tail = False

    # frames get a birth index so writes under later conditions are guarded
    def bind_params(self, fv, args, kwargs, node):
        env = OpsMixin.bind_params(self, fv, args, kwargs, node)
        env.birth = len(self.path_conds)
        env.funcinfo = fv.fi
        return env

    def call_function(self, fv, args, kwargs, node):
        saved = (self.at_function_tail, self.loop_body_tail, self.loop_stack_depth_marker())
        self.at_function_tail = True
        self.loop_body_tail = False
        n_sticky = len(self.path_conds)
        try:
            return OpsMixin.call_function(self, fv, args, kwargs, node)
        finally:
            self.at_function_tail, self.loop_body_tail, _ = saved

    def loop_stack_depth_marker(self):
        return len(self.loop_stack)

    # objects created now remember the branch depth
    def e_List(self, node, env):
        v = InterpCore.e_List(self, node, env)
        v.birth = len(self.path_conds)
        return v

    def e_Dict(self, node, env):
        v = InterpCore.e_Dict(self, node, env)
        v.birth = len(self.path_conds)
        v.lbirth = len(self.loop_stack)
        return v

    def instantiate(self, ci, args, kwargs, node):
        h = self.__dict__.get("class_standins", {}).get(ci.fq)
        if h is not None:
            # a collaborator class replaced, at its constructor, by a stand-in for what it delivers (the check using
            # the stand-in names the collaborator's own obligations)
            return h(self, ci, args, kwargs)
        v = OpsMixin.instantiate(self, ci, args, kwargs, node)
        if isinstance(v, InstV):
            v.birth = len(self.path_conds)
        return v

    def x_io_StringIO(self, args, kwargs, node, env):
        b = ExtMixin.x_io_StringIO(self, args, kwargs, node, env)
        b.birth = len(self.path_conds)
        return b

    x_StringIO = x_io_StringIO

    def write_to(self, f, s, node):
        if isinstance(f, BufV):
            nd = to_node(s)
            conds = self.guard_conds(getattr(f, "birth", 0))
            for c, v in reversed(conds):
                nd = SAlt(c, nd, SLit("")) if v else SAlt(c, SLit(""), nd)
            f.pieces.append(nd)
            if f.is_file:
                self.file_writes = self.__dict__.get("file_writes", 0) + 1
                self.log_event(("write", f.name))
            return
        ExtMixin.write_to(self, f, s, node)

    # generators are lazy: their evaluations happen when they are consumed ------
    def e_GeneratorExp(self, node, env):
        g = GenV(lambda: InterpCore.e_GeneratorExp(self, node, env))
        g.born = len(self.loop_stack)
        return g

    def run_generator(self, fi, env, node):
        depth_stack = list(self.stack)
        g = GenV(lambda: self._force_in(depth_stack, env, lambda: self.run_generator_now(fi, env, node)))
        g.born = len(self.loop_stack)
        return g

    def _force_in(self, stack, env, fn):
        saved = self.stack
        self.stack = stack + [env]
        try:
            return fn()
        finally:
            self.stack = saved

    def force(self, g):
        """-> (sequence value, events logged while producing it)"""
        if g.value is None:
            self.event_stack.append([])
            try:
                g.value = g.thunk()
            finally:
                g.events = self.event_stack.pop()
        return g.value, g.events

    def as_iterable(self, v, node=None):
        if isinstance(v, SymIterV):
            if v.used:
                raise AnalysisError("a symbolic iterator is consumed twice")
            v.used = True
            return v.seq
        if isinstance(v, SeqV) and v.kind in ("rows", "rowstrings"):
            return v
        if isinstance(v, IterV):
            rest = ListV(v.items[v.pos:], "list")      # iter(concrete list): what has not been taken yet, once
            v.pos = len(v.items)
            return rest
        if isinstance(v, InstV) and v.label is None and v.ci.lookup("__iter__") is not None and not self.is_listlike(v):
            return self.iterate_object(v, node)
        if self.is_listlike(v) and v.ci.lookup("__iter__") is None:
            return self.hidden_list(v)
        if isinstance(v, PyObjV) and hasattr(v.obj, "iter_items"):
            return ListV(list(v.obj.iter_items(self)), "list")
        if isinstance(v, SymIterV):
            if v.used:
                return ListV([], "list")     # an iterator yields its items once
            v.used = True
            if len(self.loop_stack) > v.born:
                ctx = self.loop_stack[v.born]
                cond = Cond("cmp", "==", Num(ep.sym(ctx.var) - ctx.lo), Num(ep.const(0)))
                return SeqV("guarded", conds=[(cond, True)], part=v.seq)
            return v.seq
        if isinstance(v, GenV):
            if v.consumed:
                return ListV([], "list")     # a generator yields its items once
            if len(self.loop_stack) > v.born:
                # created outside the enclosing symbolic loop, drained inside it: the first iteration gets every item,
                # the later ones find it exhausted
                ctx = self.loop_stack[v.born]
                v.consumed = True
                val, evs = self.force(v)
                for e in evs:
                    self.log_event(e)
                cond = Cond("cmp", "==", Num(ep.sym(ctx.var) - ctx.lo), Num(ep.const(0)))
                return SeqV("guarded", conds=[(cond, True)], part=StmtMixin.as_iterable(self, val, node))
            v.consumed = True
            first = v.value is None
            val, evs = self.force(v)
            if first:
                for e in evs:
                    self.log_event(e)
            return StmtMixin.as_iterable(self, val, node)
        return StmtMixin.as_iterable(self, v, node)

    # "rows" sequences: consecutive groups of K elements of a symbolic sequence X ------------------------------------
    #   [X[i:i+K] for i in range(0, len(X), K)]   (last group may be short: flush)
    #   zip(it, it, ..., it) with one iterator `it = iter(X)` K times   (an incomplete last group is dropped)
    def rows_spec(self, rows, node):
        var, lo, hi, elem, seqv = self.loop_binder(rows.base, node)
        return {"per": rows.per, "elem": elem, "append_stmt": None, "if_stmt": None, "remainder": False, "list": None, "node": None,
                "emitted_in": None, "placeholder": None, "var": var, "lo": lo, "hi": hi, "seqv": seqv, "flush": rows.flush}

    def rows_chunk(self, spec, node_, at):
        row = self.chunk_row(spec, self.expand_row(spec, node_, at), at)
        sv = spec["seqv"]
        c = SChunk(spec["var"], spec["lo"], spec["hi"], row["item"], spec["per"], row["sep"], row["end"], spec["flush"],
                   seq=sv.key() if sv is not None else None)
        c.prefix = row["prefix"]
        return c

    def for_over_rows(self, st, rows, env):
        spec = self.rows_spec(rows, st)
        cl = ChunkListV(spec)
        self.assign(st.target, cl, env)
        marks = dict((id(b), (b, len(b.pieces))) for b in self.live_buffers())
        lmarks = dict((id(l), (l, len(l.items), len(getattr(l, "tail", None) or []))) for l in self.live_lists(env))
        self.event_stack.append([])
        try:
            try:
                self.exec_block(st.body, env)
            except ContinueSignal:
                pass
        finally:
            evs = self.event_stack.pop()
            spec["remainder"] = True
        if evs:
            self.log_event(("loop", evs))
        for b, n0 in marks.values():
            new = b.pieces[n0:]
            if new:
                del b.pieces[n0:]
                b.pieces.append(self.rows_chunk(spec, SCat(new), st))
        for l, n_items, n_tail in lmarks.values():
            tail = getattr(l, "tail", None) or []
            new = list(l.items[n_items:]) if not n_tail and not tail else []
            newt = tail[n_tail:]
            if new:
                del l.items[n_items:]
            if newt:
                del tail[n_tail:]
                for t in newt:
                    if isinstance(t, ListV) and not getattr(t, "tail", None):
                        new.extend(t.items)
                    else:
                        self.err(st, "list built in a loop over row groups in a way that is not modelled")
            for it in new:
                if not is_strlike(it):
                    self.err(st, "a loop over row groups collects something that is not a string")
                tl = l.__dict__.setdefault("tail", [])
                tl.append(SeqV("rowstrings", spec=spec, node=to_node(it)))

    def for_over_nested(self, st, seq, env):
        """items produced by a loop nest (for i in outer: [several inner sequences that depend on i]): the loop over them is
        the same nest with the body innermost"""
        n = next(self.fresh)
        oname = "_nested_outer_%d" % n
        idx = SeqV("family", var=seq.var, lo=seq.lo, hi=seq.hi, elem=Num(ep.sym(seq.var))) if seq.seq is None else \
            SeqV("seqmap", var=seq.var, seq=seq.seq, elem=Num(ep.sym(seq.var)))
        inner = []
        names = []
        for k, part in enumerate(seq.parts):
            pname = "_nested_part_%d_%d" % (n, k)
            env.vars[pname] = _NestedPartV(part, seq.var, oname)
            names.append(pname)
            loop = ast.For(target=st.target, iter=ast.Name(id=pname, ctx=ast.Load()), body=st.body, orelse=[])
            inner.append(loop)
        outer = ast.For(target=ast.Name(id=oname, ctx=ast.Store()), iter=ast.Name(id="_nested_idx_%d" % n, ctx=ast.Load()), body=inner, orelse=[])
        env.vars["_nested_idx_%d" % n] = idx
        ast.copy_location(outer, st)
        ast.fix_missing_locations(outer)
        try:
            self.exec_stmt(outer, env)
        finally:
            for nm in names + ["_nested_idx_%d" % n, oname]:
                env.vars.pop(nm, None)

    def run_for(self, st, it, env):
        if isinstance(it, _NestedPartV):
            it = self.subst(it.part, {it.var: self.num(env.lookup(it.outer_name), st)})
        if isinstance(it, SeqV) and it.kind == "nested" and not st.orelse:
            return self.for_over_nested(st, it, env)
        if isinstance(it, SeqV) and it.kind == "rows":
            return self.for_over_rows(st, it, env)
        if isinstance(it, SeqV) and it.kind == "guarded":
            # items present on some paths only: the loop body runs over them on those paths
            n = len(it.conds)
            self.path_conds.extend(it.conds)
            try:
                return self.run_for(st, it.part, env)
            finally:
                del self.path_conds[len(self.path_conds) - n:]
        if isinstance(it, GenV) and it.consumed:
            return
        if isinstance(it, GenV) and len(self.loop_stack) > it.born:
            # created outside the enclosing symbolic loop, consumed inside: only its first iteration sees the items
            ctx = self.loop_stack[it.born]
            it.consumed = True
            val, evs = self.force(it)
            for e in evs:
                self.log_event(e)
            cond = Cond("cmp", "==", Num(ep.sym(ctx.var) - ctx.lo), Num(ep.const(0)))
            self.path_conds.append((cond, True))
            try:
                self._run_for_forced(st, val, env)
            finally:
                self.path_conds.pop()
            return
        if isinstance(it, GenV) and it.value is None:
            it.consumed = True
            val, evs = self.force(it)
            n0 = len(self.event_stack[-1])
            self._run_for_forced(st, val, env)
            # the generator advances once per iteration: its evaluations interleave with the loop body
            self._interleave(evs, n0)
            return
        StmtMixin.run_for(self, st, it, env)

    def _run_for_forced(self, st, val, env):
        """loop over the items a generator produced: row groups and conditional items keep their own loop forms"""
        seqv = self.as_iterable(val, st)
        if isinstance(seqv, SeqV) and seqv.kind in ("rows", "guarded", "nested"):
            return self.run_for(st, seqv, env)
        return StmtMixin.run_for(self, st, val, env)

    def _interleave(self, gen_events, n0):
        cur = self.event_stack[-1]
        inner = []
        for e in gen_events:
            if e[0] == "loop":
                inner.extend(e[1])
            else:
                cur.insert(n0, e)
                n0 += 1
        if not inner:
            return
        for i in range(n0, len(cur)):
            if cur[i][0] == "loop":
                cur[i] = ("loop", inner + list(cur[i][1]))
                return
        cur.insert(n0, ("loop", inner))

    def m_BufV_writelines(self, base, args, kwargs, node):
        g = args[0]
        lazy = isinstance(g, GenV) and g.value is None and not g.consumed
        if lazy:
            val, evs = self.force(g)
            n0 = len(self.event_stack[-1])
        seq = self.as_iterable(g, node)
        self.write_to(base, self.join(Const(""), seq, node), node)
        if lazy:
            # each line is written before the next one is produced
            w = self.event_stack[-1].pop() if base.is_file else None
            inner = []
            for e in evs:
                if e[0] == "loop":
                    inner.extend(e[1])
                else:
                    self.log_event(e)
            self.log_event(("loop", inner + ([w] if w else [])))
        return NONE

    def run_generator_now(self, fi, env, node):
        out = ListV([], "list")
        out.birth = len(self.path_conds)
        env.vars["@yield"] = out
        try:
            self.exec_block(strip_docstring_body(fi.node.body), env)
        except ReturnSignal:
            pass
        return self.as_iterable(out, node) if getattr(out, "tail", None) else out

    def e_Yield(self, node, env):
        cy = self.__dict__.get("ctx_yield")
        if cy and cy[-1][0] is node:
            # the single yield of a contextlib.contextmanager function: the with-body runs here
            cy[-1][1](self.eval(node.value, env) if node.value is not None else NONE)
            return NONE
        out = env.lookup("@yield")
        if out is None:
            self.err(node, "yield outside generator")
        val = self.eval(node.value, env) if node.value is not None else NONE
        self.m_ListV_append(out, [val], {}, node)
        return NONE

    def e_YieldFrom(self, node, env):
        out = env.lookup("@yield")
        if out is None:
            self.err(node, "yield from outside generator")
        seq = self.as_iterable(self.eval(node.value, env), node)
        tail = getattr(out, "tail", None)
        if isinstance(seq, ListV) and not getattr(seq, "tail", None) and not tail and not (self.loop_stack and self._is_outer_list(out)):
            out.items.extend(seq.items)
        else:
            out.__dict__.setdefault("tail", []).append(seq)     # the delegate's items follow what was yielded so far
        return NONE

    def live_lists(self, env):
        ls = StmtMixin.live_lists(self, env)
        return ls

    # rows-by-stepped-slice idiom -------------------------------------------------
    #   for V in range(0, len(X), K):  <emit ... X[V:V+K] ...>
    # writes the items of X in rows of K (the last row may be short): the same SChunk the append/flush idiom denotes.
    def s_For(self, st, env):
        if self.for_over_product(st, env):
            return
        sl = self.match_slice_rows(st, env)
        if sl is None:
            return StmtMixin.s_For(self, st, env)
        X, K, nodes = sl
        var, lo, hi, elem, seqv = self.loop_binder(X, st)
        spec = {"per": K, "elem": elem, "append_stmt": None, "if_stmt": None, "remainder": False, "list": None,
                "node": None, "emitted_in": None, "placeholder": None}
        cl = ChunkListV(spec)
        saved = getattr(self, "_slice_rows", {})
        self._slice_rows = dict(saved)
        for n in nodes:
            self._slice_rows[id(n)] = cl
        marks = dict((id(b), (b, len(b.pieces))) for b in self.live_buffers())
        self.event_stack.append([])
        try:
            self.exec_block(st.body, env)
        finally:
            self._slice_rows = saved
            evs = self.event_stack.pop()
            spec["remainder"] = True
        if evs:
            self.log_event(("loop", evs))
        emitted = [(b, b.pieces[n0:]) for (b, n0) in marks.values() if len(b.pieces) > n0]
        if len(emitted) != 1:
            self.err(st, "rows-by-slice loop must emit to exactly one stream")
        b, new = emitted[0]
        row = self.chunk_row(spec, self.expand_row(spec, SCat(new), st), st)
        c = SChunk(var, lo, hi, row["item"], K, row["sep"], row["end"], True, seq=seqv.key() if seqv is not None else None)
        c.prefix = row["prefix"]
        del b.pieces[len(b.pieces) - len(new):]
        b.pieces.append(c)

    def for_over_product(self, st, env):
        """for a, b in itertools.product(X, Y): body   ==   X, Y evaluated once;  for a in X: for b in Y: body"""
        it = st.iter
        if not (isinstance(it, ast.Call) and isinstance(st.target, (ast.Tuple, ast.List)) and not st.orelse
                and not any(isinstance(a, ast.Starred) for a in it.args)):
            return False
        rep = 1
        if it.keywords:
            if len(it.keywords) != 1 or it.keywords[0].arg != "repeat" or not isinstance(it.keywords[0].value, ast.Constant) \
                    or not isinstance(it.keywords[0].value.value, int) or it.keywords[0].value.value < 1:
                return False
            rep = it.keywords[0].value.value
        if len(it.args) * rep < 2 or len(st.target.elts) != len(it.args) * rep:
            return False
        fn = self.eval(it.func, env)
        if not (isinstance(fn, ExtV) and fn.name == "itertools.product"):
            return False
        pools = []
        for a in it.args:
            v = self.eval(a, env)
            pools.append(self.as_iterable(v, st))      # product() drains its inputs before the first tuple
        pools = pools * rep
        if all(isinstance(q, ListV) and not getattr(q, "tail", None) for q in pools):
            return False
        names = []
        for q in pools:
            nm = "_product_pool_%d" % next(self.fresh)
            env.vars[nm] = q
            names.append(nm)
        body = st.body
        for tgt, nm in reversed(list(zip(st.target.elts, names))):
            loop = ast.For(target=tgt, iter=ast.Name(id=nm, ctx=ast.Load()), body=body, orelse=[])
            ast.copy_location(loop, st)
            ast.fix_missing_locations(loop)
            body = [loop]
        try:
            self.exec_stmt(body[0], env)
        finally:
            for nm in names:
                env.vars.pop(nm, None)
        return True

    def comprehension(self, node, env, kind):
        if kind == "list" and len(node.generators) == 1 and not node.generators[0].ifs:
            g = node.generators[0]
            # [X[i:i+K] for i in range(0, len(X), K)]
            fake = ast.For(target=g.target, iter=g.iter, body=[ast.Expr(value=node.elt)], orelse=[])
            ast.copy_location(fake, node)
            ast.fix_missing_locations(fake)
            if isinstance(node.elt, ast.Subscript) and isinstance(g.iter, ast.Call):
                sl = self.match_slice_rows(fake, env)
                if sl is not None and len(sl[2]) == 1 and sl[2][0] is node.elt:
                    return SeqV("rows", base=sl[0], per=sl[1], flush=True)
            elif isinstance(g.iter, ast.Call) and not isinstance(node.elt, ast.Subscript):
                # [f(X[i:i+K]) for i in range(0, len(X), K)]: one string per row group of X (the last group may be short)
                sl = self.match_slice_rows(fake, env)
                if sl is not None and len(sl[2]) == 1:
                    rows = SeqV("rows", base=sl[0], per=sl[1], flush=True)
                    spec = self.rows_spec(rows, node)
                    saved = getattr(self, "_slice_rows", {})
                    self._slice_rows = dict(saved)
                    self._slice_rows[id(sl[2][0])] = ChunkListV(spec)
                    self.event_stack.append([])
                    try:
                        elt = self.eval(node.elt, env)
                    finally:
                        self._slice_rows = saved
                        evs = self.event_stack.pop()
                        spec["remainder"] = True
                    if evs:
                        self.log_event(("loop", evs))
                    if is_strlike(elt):
                        return self._rowstrings_list(spec, elt)
                    self.err(node, "comprehension over row groups does not build strings")
            it = self.eval(g.iter, env)
            if isinstance(it, GenV):
                forced = self.as_iterable(it, node)
                if isinstance(forced, SeqV) and forced.kind == "rows":
                    it = forced
                else:
                    return self._comp_over(forced, node, g, env, kind)
            if isinstance(it, ChunkListV):
                # [f(x) for x in <one row group>]: the same group with every item mapped
                sub = Env(parent=env, label=env.label)
                self.assign(g.target, it.spec["elem"], sub)
                spec2 = dict(it.spec)
                spec2["elem"] = self.eval(node.elt, sub)
                spec2["mapped"] = True
                spec2["root"] = it.spec.get("root", it.spec)
                return ChunkListV(spec2)
            if isinstance(it, SeqV) and it.kind == "rows":
                spec = self.rows_spec(it, node)
                sub = Env(parent=env, label=env.label)
                self.assign(g.target, ChunkListV(spec), sub)
                self.event_stack.append([])
                try:
                    elt = self.eval(node.elt, sub)
                finally:
                    evs = self.event_stack.pop()
                    spec["remainder"] = True
                if evs:
                    self.log_event(("loop", evs))
                if not is_strlike(elt):
                    self.err(node, "comprehension over row groups does not build strings")
                return self._rowstrings_list(spec, elt)
            seq = self.as_iterable(it, node)
            return self._comp_over(seq, node, g, env, kind)
        return OpsMixin.comprehension(self, node, env, kind)

    def _rowstrings_list(self, spec, elt):
        out = ListV([], "list")
        out.tail = [SeqV("rowstrings", spec=spec, node=to_node(elt))]
        return out

    def x_itertools_islice(self, args, kwargs, node, env):
        """islice(xs, stop) / islice(xs, start, stop) of a sequence that is not a one-shot iterator: the slice"""
        if kwargs or not 2 <= len(args) <= 3:
            self.err(node, "itertools.islice arguments")
        src = args[0]
        if isinstance(src, (GenV, SymIterV, IterV)):
            self.err(node, "itertools.islice of a one-shot iterator (only the iter(lambda: tuple(islice(it, K)), ()) grouper is modelled)")
        lo, hi = (None, args[1]) if len(args) == 2 else (args[1], args[2])
        return self.slice(self.as_iterable(src, node) if not isinstance(src, (ListV, NTV)) else src, lo, hi, node)

    def _islice_grouper(self, fn, sentinel, node):
        """iter(lambda: tuple(islice(it, K)), ()): consecutive groups of K items of the iterator `it`, the last one possibly
        shorter (an empty group ends the iteration)"""
        if not (isinstance(fn, FuncV) and not fn.fi.node.args.args and fn.selfv is None):
            return None
        body = fn.fi.node.body
        if isinstance(body, list):           # lambdas are kept as one-statement functions
            if len(body) != 1 or not isinstance(body[0], ast.Return) or body[0].value is None:
                return None
            body = body[0].value
        if not (isinstance(body, ast.Call) and isinstance(body.func, ast.Name) and body.func.id in ("tuple", "list") and len(body.args) == 1
                and not body.keywords and isinstance(body.args[0], ast.Call) and len(body.args[0].args) == 2 and not body.args[0].keywords):
            return None
        inner = body.args[0]
        cenv = Env(parent=fn.closure, module=fn.fi.module, label=fn.fi.fq)
        f = self.eval(inner.func, cenv)
        if not (isinstance(f, ExtV) and f.name == "itertools.islice"):
            return None
        empty = (isinstance(sentinel, ListV) and not sentinel.items and not getattr(sentinel, "tail", None)
                 and sentinel.kind == ("tuple" if body.func.id == "tuple" else "list"))
        if not empty:
            return None
        k = self.eval(inner.args[1], cenv)
        kc = k.const() if isinstance(k, Num) else None
        if kc is None or kc.denominator != 1 or kc < 1:
            return None
        src = self.eval(inner.args[0], cenv)
        if isinstance(src, SymIterV):
            if src.used:
                self.err(node, "a symbolic iterator is consumed twice")
            src.used = True
            seq = src.seq
        elif isinstance(src, GenV):
            seq = self.as_iterable(src, node)
        else:
            return None
        if not (isinstance(seq, SeqV) and seq.kind in ("family", "seqmap", "opaque")):
            return None
        return SeqV("rows", base=seq, per=int(kc), flush=True)

    def x_iter(self, args, kwargs, node, env):
        if len(args) == 2 and not kwargs:
            g = self._islice_grouper(args[0], args[1], node)
            if g is None:
                self.err(node, "iter(callable, sentinel) other than the islice grouper")
            return g
        v = self.as_iterable(args[0], node)
        if isinstance(v, SeqV) and v.kind in ("family", "seqmap", "opaque"):
            return SymIterV(v, born=len(self.loop_stack))
        return ExtMixin.x_iter(self, [v], kwargs, node, env)

    def x_itertools_accumulate(self, args, kwargs, node, env):
        """itertools.accumulate(xs): running sums, as a one-shot iterator; modelled for a sequence of equal numbers (the k-th
        item is (k+1) times the number) and for concrete lists"""
        if kwargs or len(args) != 1:
            self.err(node, "itertools.accumulate with a function / initial value")
        seq = self.as_iterable(args[0], node)
        if isinstance(seq, ListV) and not getattr(seq, "tail", None):
            out, tot = [], None
            for it in seq.items:
                tot = it if tot is None else self.binop(ast.Add(), tot, it, node)
                out.append(tot)
            return ExtMixin.x_iter(self, [ListV(out, "list")], {}, node, env)
        if isinstance(seq, SeqV) and seq.kind == "family" and isinstance(seq.elem, Num) and not seq.elem.rf.depends_on(seq.var):
            k = ep.sym(seq.var) - seq.lo + ep.const(1)
            fam = SeqV("family", var=seq.var, lo=seq.lo, hi=seq.hi, elem=Num(k * seq.elem.rf, seq.elem.inexact))
            return SymIterV(fam, born=len(self.loop_stack))
        self.err(node, "itertools.accumulate of %r" % (seq,))

    def x_zip(self, args, kwargs, node, env):
        if len(args) >= 2 and all(isinstance(a, SymIterV) for a in args) and all(a is args[0] for a in args):
            it = args[0]
            if it.used:
                self.err(node, "a symbolic iterator is consumed twice")
            it.used = True
            return SeqV("rows", base=it.seq, per=len(args), flush=False)
        if any(isinstance(a, SymIterV) for a in args):
            self.err(node, "zip over a symbolic iterator")
        return ExtMixin.x_zip(self, args, kwargs, node, env)

    def iterate_object(self, v, node):
        """iteration protocol on an object of the package: iter(v) is a generator (its items), or an object whose
        __next__ draws exactly one item from one inner iterator per call and returns a function of it (a lazy map)"""
        it = self.call(self.getattr(v, "__iter__", node), [], {}, node)
        if isinstance(it, (GenV, ListV, SeqV)):
            return self.as_iterable(it, node)
        if not (isinstance(it, InstV) and it.ci.lookup("__next__") is not None):
            self.err(node, "__iter__ of %s returns %r" % (v.ci.name, it))
        draws = []
        saved = getattr(self, "_next_probe", None)
        self._next_probe = draws
        try:
            first = self.call(self.getattr(it, "__next__", node), [], {}, node)
            n1 = len(draws)
            second = self.call(self.getattr(it, "__next__", node), [], {}, node)
        finally:
            self._next_probe = saved
        if n1 != 1 or len(draws) != 2 or draws[0][0] is not draws[1][0]:
            self.err(node, "%s.__next__ is not a one-item-per-call map over one inner iterator" % it.ci.name)
        inner, var1 = draws[0]
        var2 = draws[1][1]
        try:
            same = self.subst(second, {var2: ep.sym(var1)}).key() == first.key()
        except (AnalysisError, NotImplementedError):
            same = False
        if not same:
            self.err(node, "%s.__next__ depends on the call history" % it.ci.name)
        seq = inner.seq
        bvar, lo, hi, belem, seqv = self.loop_binder(seq, node)
        # next(inner) already stood for the inner sequence's element at index var1: re-index by the sequence's own variable
        elem = self.subst(first, {var1: ep.sym(bvar)})
        if seqv is not None:
            return SeqV("seqmap", var=bvar, seq=seqv, elem=elem)
        return SeqV("family", var=bvar, lo=lo, hi=hi, elem=elem)

    def x_next(self, args, kwargs, node, env):
        it = args[0]
        probe = getattr(self, "_next_probe", None)
        if isinstance(it, SymIterV) and probe is not None and len(args) == 1:
            bvar = self.fresh_sym("nx")
            probe.append((it, bvar))
            seq = it.seq
            var, lo, hi, elem, seqv = self.loop_binder(seq, node)
            return self.subst(elem, {var: ep.sym(bvar)})
        return ExtMixin.x_next(self, args, kwargs, node, env)

    def match_slice_rows(self, st, env):
        it = st.iter
        if not (isinstance(it, ast.Call) and isinstance(it.func, ast.Name) and it.func.id == "range" and len(it.args) == 3
                and not it.keywords and isinstance(st.target, ast.Name) and not st.orelse):
            return None
        fn = self.eval(it.func, env)
        if not (isinstance(fn, ExtV) and fn.name == "builtins.range"):
            return None
        lo, hi, step = [self.eval(a, env) for a in it.args]
        kc = step.const() if isinstance(step, Num) else None
        lc = lo.const() if isinstance(lo, Num) else None
        if kc is None or kc.denominator != 1 or kc < 1 or lc != 0 or not isinstance(hi, Num):
            return None
        K = int(kc)
        v = st.target.id
        nodes, inside = [], set()
        X = None
        for n in ast.walk(ast.Module(body=st.body, type_ignores=[])):
            if not (isinstance(n, ast.Subscript) and isinstance(n.slice, ast.Slice)):
                continue
            sl = n.slice
            if not (isinstance(sl.lower, ast.Name) and sl.lower.id == v and sl.step is None and isinstance(sl.upper, ast.BinOp)
                    and isinstance(sl.upper.op, ast.Add)):
                continue
            a, b = sl.upper.left, sl.upper.right
            if isinstance(b, ast.Name) and b.id == v:
                a, b = b, a
            if not (isinstance(a, ast.Name) and a.id == v) or v in _names(b) or v in _names(n.value):
                continue
            bv = self.eval(b, env)
            if not (isinstance(bv, Num) and bv.const() == K):
                continue
            base = self.eval(n.value, env)
            if isinstance(base, GenV):
                return None
            try:
                seq = self.as_iterable(base, n)
            except AnalysisError:
                return None
            if not (isinstance(seq, SeqV) and seq.kind in ("family", "seqmap", "opaque")):
                return None
            if not ep.equal(self.seq_len(seq), hi.rf)[0]:
                return None
            if X is not None and X.key() != seq.key():
                return None
            X = seq
            nodes.append(n)
            inside |= set(id(m) for m in ast.walk(n))
        if X is None:
            return None
        # the loop variable is used for nothing but these slices
        for n in ast.walk(ast.Module(body=st.body, type_ignores=[])):
            if isinstance(n, ast.Name) and n.id == v and id(n) not in inside:
                return None
        return X, K, nodes

    def e_Subscript(self, node, env):
        cl = getattr(self, "_slice_rows", {}).get(id(node))
        if cl is not None:
            return cl
        return InterpCore.e_Subscript(self, node, env)

    # chunk idiom ------------------------------------------------------------
    def s_Expr(self, st, env):
        ch = self.active_chunk(env)
        if ch is not None and st is ch["append_stmt"]:
            ch["elem"] = self.eval(st.value.args[0], env)
            return
        StmtMixin.s_Expr(self, st, env)

    def active_chunk(self, env):
        for v in env.vars.values():
            if isinstance(v, ChunkListV) and not v.spec.get("remainder"):
                return v.spec
        return None

    def s_If(self, st, env):
        ch = self.active_chunk(env)
        if ch is not None and st is ch["if_stmt"]:
            # run the emit statements once with the row buffer standing for ``per`` items
            marks = dict((id(b), (b, len(b.pieces))) for b in self.live_buffers())
            lmarks = dict((id(l), (l, len(l.items), len(getattr(l, "tail", None) or []))) for l in self.live_lists(env))
            for s in ch["emit"]:
                self.exec_stmt(s, env)
            emitted = [(b, b.pieces[n0:]) for (b, n0) in marks.values() if len(b.pieces) > n0]
            grown = [(l, ni, nt) for (l, ni, nt) in lmarks.values()
                     if len(l.items) > ni or len(getattr(l, "tail", None) or []) > nt]
            if not emitted and len(grown) == 1:
                # the row is collected (list.append / yield) instead of written: the list gains one string per full row
                l, ni, nt = grown[0]
                tail = getattr(l, "tail", None) or []
                new = list(l.items[ni:])
                for t in tail[nt:]:
                    if isinstance(t, ListV) and not getattr(t, "tail", None):
                        new.extend(t.items)
                    else:
                        self.err(st, "chunk idiom collects rows in a way that is not modelled")
                if len(new) != 1 or not is_strlike(new[0]):
                    self.err(st, "chunk idiom must collect exactly one string per row")
                del l.items[ni:]
                del tail[nt:]
                ch["list_emit"] = l
                ch["list_node"] = to_node(new[0])
                return
            if len(emitted) != 1 or grown:
                self.err(st, "chunk idiom must emit to exactly one stream")
            b, new = emitted[0]
            # rows written under path conditions that hold for the whole loop (e.g. "the shared generator still had items"):
            # the row is analysed without them and the finished chunk is put back under them
            wrap = None
            unwrapped = []
            for piece in new:
                conds = []
                while isinstance(piece, SAlt) and (_is_empty(piece.b) or _is_empty(piece.a)):
                    conds.append((piece.cond, _is_empty(piece.b)))
                    piece = piece.a if _is_empty(piece.b) else piece.b
                key = tuple((c.key(), v) for c, v in conds)
                if wrap is None:
                    wrap = (key, conds)
                elif wrap[0] != key:
                    self.err(st, "chunk rows written under differing conditions")
                unwrapped.append(piece)
            if wrap is not None and wrap[1]:
                new_inner = unwrapped
                ch["wrap_conds"] = wrap[1]
            else:
                new_inner = new
            row = self.chunk_row(ch, self.expand_row(ch, SCat(new_inner), st), st)
            ch["node"] = row
            ch["emitted_in"] = b
            placeholder = SLit("")
            placeholder = _Placeholder()
            ch["placeholder"] = placeholder
            del b.pieces[len(b.pieces) - len(new):]
            b.pieces.append(placeholder)
            return
        StmtMixin.s_If(self, st, env)

    def chunk_list_emit(self, chunk, var, lo, hi, seqv):
        """after the loop of an append/flush idiom that collected its rows in a list: the list gains the row strings"""
        l = chunk["list_emit"]
        spec = {"per": chunk["per"], "elem": chunk["elem"], "var": var, "lo": lo, "hi": hi, "seqv": seqv, "flush": False,
                "remainder": True}
        tl = l.__dict__.setdefault("tail", [])
        tl.append(SeqV("rowstrings", spec=spec, node=chunk["list_node"]))

    def expand_row(self, ch, node, st):
        """turn join-of-row / %-of-row into explicit per-item fields"""
        out = []
        for p in parts_of(node):
            if isinstance(p, SJoinItems):
                for i in range(ch["per"]):
                    if i:
                        out.append(p.sep)
                    own = getattr(p.chunk, "spec", None)
                    out.append(SFmt("s", ChunkItem(i, own if own is not None and own.get("mapped") else None)))
            else:
                out.append(p)
        return out

    def printf(self, tmpl, arg, node):
        if isinstance(arg, ChunkListV):
            per = arg.spec["per"]
            arg = ListV([ChunkItem(i, arg.spec if arg.spec.get("mapped") else None) for i in range(per)], "tuple")
        return OpsMixin.printf(self, tmpl, arg, node)

    def truth(self, v):
        if isinstance(v, ChunkListV):
            return self.assume(Cond("truthy", v))
        return InterpCore.truth(self, v)

    def wrap_rep(self, ctx, body, chunk):
        if chunk is not None and chunk.get("node") is not None:
            parts = parts_of(body)
            if len(parts) == 1 and parts[0] is chunk["placeholder"]:
                n = chunk["node"]
                c = SChunk(ctx.var, ctx.lo, ctx.hi, n["item"], n["per"], n["sep"], n["end"], False,
                           seq=ctx.seq.key() if ctx.seq is not None else None)
                c.prefix = n["prefix"]
                c.spec_id = id(chunk)
                chunk["chunknode"] = c
                for cond, val in reversed(chunk.get("wrap_conds") or []):
                    c = SAlt(cond, c, SLit("")) if val else SAlt(cond, SLit(""), c)
                return c
            raise AnalysisError("chunk idiom mixed with other output in the same loop")
        return StmtMixin.wrap_rep(self, ctx, body, None)

    def getattr(self, base, attr, node=None):
        from .symeval_ext import SuperV
        from .model import ClassInfo
        if isinstance(base, InstV) and attr not in base.attrs and self.ext_methods:
            from .model import ExternalClass
            if not any(isinstance(c, ClassInfo) and (attr in c.methods or attr in c.class_attrs) for c in base.ci.mro()):
                for c in base.ci.mro():
                    if isinstance(c, ExternalClass):
                        h = self.ext_methods.get((c.name.split(".")[-1], attr))
                        if h is not None:
                            return PyObjV(_ExtBound(h, base)).as_callable()
        if self.is_listlike(base) and attr in ("append", "extend", "sort", "index", "count") and base.ci.lookup(attr) is None:
            return BoundBuiltin(self.hidden_list(base), attr)
        if self.is_proxy(base) and attr not in base.attrs:
            found_in_class = any(isinstance(c, ClassInfo) and (attr in c.methods or attr in c.class_attrs) for c in base.ci.mro())
            if not found_in_class:
                w = base.attrs.get("__wrapped__")
                if w is None:
                    self.err(node, "proxy used before initialisation")
                k = (w.key(), attr)
                if k in self.proxy_store:
                    return self.proxy_store[k]
                return self.getattr(w, attr, node)
        if isinstance(base, SuperV):
            inst = base.inst
            start_cls = inst.ci if isinstance(inst, InstV) else inst.ci
            mro = start_cls.mro()
            if base.ci in mro:
                mro = mro[mro.index(base.ci) + 1:]
            for c in mro:
                if isinstance(c, ClassInfo) and attr in c.methods:
                    fi = c.methods[attr]
                    if fi.is_property:
                        return self.call_function(FuncV(fi, selfv=inst), [], {}, node)
                    return FuncV(fi, selfv=inst)
            from .model import ExternalClass
            for c in mro:
                if isinstance(c, ExternalClass):
                    h = self.ext_methods.get((c.name.split(".")[-1], attr))
                    if h is not None:
                        return PyObjV(_ExtBound(h, inst)).as_callable()
            if attr == "__init__":
                return ExtV("builtins.object.__init__")
            self.err(node, "super() has no attribute %s" % attr)
        return OpsMixin.getattr(self, base, attr, node)

    def x_object___init__(self, args, kwargs, node, env):
        return NONE

    # wrapt.ObjectProxy: attribute stores go to the wrapped object unless the name starts with _self_
    def x_wrapt_ObjectProxy___init__(self, args, kwargs, node, env):
        args[0].attrs["__wrapped__"] = args[1]
        return NONE

    # subclasses of list (TableReaderBase): the items live in a hidden ListV
    def is_listlike(self, v):
        from .model import ExternalClass
        return isinstance(v, InstV) and any(isinstance(c, ExternalClass) and c.name == "list" for c in v.ci.mro())

    def hidden_list(self, v):
        l = v.attrs.get("@items")
        if l is None:
            l = ListV([], "list")
            l.birth = len(self.path_conds)
            v.attrs["@items"] = l
        return l

    def getitem(self, base, idx, node=None):
        if isinstance(base, InstV) and self.ext_methods and base.ci.lookup("__getitem__") is None:
            from .model import ExternalClass
            for c in base.ci.mro():
                if isinstance(c, ExternalClass):
                    h = self.ext_methods.get((c.name.split(".")[-1], "__getitem__"))
                    if h is not None:
                        return h(self, base, [idx], {})
        if self.is_listlike(base) and base.ci.lookup("__getitem__") is None:
            return OpsMixin.getitem(self, self.hidden_list(base), idx, node)
        return OpsMixin.getitem(self, base, idx, node)

    def setitem(self, base, idx, val, node):
        if self.is_listlike(base):
            return StmtMixin.setitem(self, self.hidden_list(base), idx, val, node)
        return StmtMixin.setitem(self, base, idx, val, node)

    def compare(self, op, a, b, node=None):
        # len(<row group>) == K inside a loop over row groups: true for every full group; it excludes the short last one
        rl = self.__dict__.get("_rowlen", {})
        if rl and type(op).__name__ in ("Eq", "NotEq") and isinstance(a, Num) and isinstance(b, Num):
            for x, y in ((a, b), (b, a)):
                root = rl.get(repr(x.rf))
                if root is not None and y.const() is not None:
                    if y.const() != root["per"]:
                        self.err(node, "row-group length compared with %s (groups have %d items)" % (y.const(), root["per"]))
                    root["flush"] = False
                    return type(op).__name__ == "Eq"
        return InterpCore.compare(self, op, a, b, node)

    def x_len(self, args, kwargs, node, env):
        v = args[0]
        if isinstance(v, ChunkListV) and "flush" in v.spec.get("root", v.spec) and not v.spec.get("remainder"):
            root = v.spec.get("root", v.spec)
            name = "@rowlen%d" % id(root)
            self.__dict__.setdefault("_rowlen", {})[repr(ep.sym(name))] = root
            return Num(ep.sym(name))
        if isinstance(v, PyObjV) and hasattr(v.obj, "length"):
            return v.obj.length(self)
        if self.is_listlike(v) and v.ci.lookup("__len__") is None:
            return ExtMixin.x_len(self, [self.hidden_list(v)], kwargs, node, env)
        if isinstance(v, InstV) and v.ci.lookup("__len__") is not None:
            return self.call_function(FuncV(v.ci.lookup("__len__"), selfv=v), [], {}, node)
        return ExtMixin.x_len(self, args, kwargs, node, env)

    def x_bisect_bisect_right(self, args, kwargs, node, env):
        return self.x_bisect_bisect_left(args, kwargs, node, env, right=True)

    x_bisect_bisect = x_bisect_bisect_right

    def x_bisect_bisect_left(self, args, kwargs, node, env, right=False):
        seq, x = args[0], args[1]
        n = self.x_len([seq], {}, node, env)
        hi = n.const()
        if hi is None:
            self.err(node, "bisect on a sequence of symbolic length")
        lo, hi = 0, int(hi)
        extra = list(args[2:]) + [kwargs[k] for k in ("lo", "hi") if k in kwargs]
        if len(args) > 4 or set(kwargs) - {"lo", "hi"}:
            self.err(node, "bisect_left arguments")
        bounds = {"lo": args[2] if len(args) > 2 else kwargs.get("lo"), "hi": args[3] if len(args) > 3 else kwargs.get("hi")}
        for nm, bv in bounds.items():
            if bv is None or (isinstance(bv, Const) and bv.v is None):
                continue
            c = bv.const() if isinstance(bv, Num) else None
            if c is None or c.denominator != 1:
                self.err(node, "bisect_left with a symbolic %s" % nm)
            if nm == "lo":
                lo = int(c)
            else:
                hi = int(c)
        while lo < hi:
            mid = (lo + hi) // 2
            item = self.getitem(seq, Num(ep.const(mid)), node)
            # bisect_left: a[mid] < x moves right; bisect_right: x < a[mid] moves left (the comparisons the library makes)
            c = self.compare(ast.Lt(), x, item, node) if right else self.compare(ast.Lt(), item, x, node)
            if isinstance(c, Cond):
                c = self.assume(c)
            if not isinstance(c, bool):
                self.err(node, "bisect comparison is symbolic")
            if right:
                if c:
                    hi = mid
                else:
                    lo = mid + 1
            elif c:
                lo = mid + 1
            else:
                hi = mid
        return Num(ep.const(lo))

    def x_re_escape(self, args, kwargs, node, env):
        if kwargs or len(args) != 1 or not (isinstance(args[0], Const) and isinstance(args[0].v, str)):
            self.err(node, "re.escape of a non-constant string")
        import re
        return Const(re.escape(args[0].v))

    def x_re_compile(self, args, kwargs, node, env):
        if not (isinstance(args[0], Const) and isinstance(args[0].v, str)):
            self.err(node, "re.compile of a non-constant pattern")
        return PyObjV(RegexModel(args[0].v))

    def is_proxy(self, v):
        from .model import ExternalClass
        return isinstance(v, InstV) and any(isinstance(c, ExternalClass) and c.name.endswith("ObjectProxy") for c in v.ci.mro())

    def hasattr(self, base, attr):
        if self.is_proxy(base):
            from .model import ClassInfo
            if attr in base.attrs:
                return not isinstance(base.attrs[attr], Undefined)
            if any(isinstance(c, ClassInfo) and (attr in c.methods or attr in c.class_attrs) for c in base.ci.mro()):
                return True
            if attr.startswith("_self_"):
                return False
            # wrapt.ObjectProxy: everything else is looked up on (and was stored on) the wrapped object
            w = base.attrs.get("__wrapped__")
            if w is None:
                raise AnalysisError("proxy used before initialisation")
            if (w.key(), attr) in self.proxy_store:
                return True
            return self.hasattr(w, attr)
        return OpsMixin.hasattr(self, base, attr)

    def setattr(self, base, attr, val, node=None):
        if self.is_proxy(base) and not attr.startswith("_self_") and attr != "__wrapped__":
            w = base.attrs.get("__wrapped__")
            if w is None:
                self.err(node, "proxy attribute store before the proxy is initialised")
            self.log_event(("proxy-store", attr))
            if isinstance(w, InstV):
                w.attrs[attr] = val
            else:
                self.proxy_store[(w.key(), attr)] = val
            return
        OpsMixin.setattr(self, base, attr, val, node)

    # convenience --------------------------------------------------------------
    def run(self, fi, args, kwargs=None, selfv=None):
        fv = FuncV(fi, selfv=selfv)
        return self.call_function(fv, args, kwargs or {}, None)


class _ExtBound(object):
    """a method of an external base class, modelled in /verif, bound to an instance"""
    def __init__(self, fn, inst):
        self.fn = fn
        self.inst = inst

    def m___call__(self, I, args, kwargs):
        return self.fn(I, self.inst, args, kwargs)


class RegexModel(object):
    """constant folding of re on literal strings"""
    def __init__(self, pattern):
        import re
        self.rx = re.compile(pattern)

    def _s(self, v):
        if not (isinstance(v, Const) and isinstance(v.v, str)):
            raise AnalysisError("regular expression applied to a symbolic string")
        return v.v

    def m_split(self, I, args, kwargs):
        return ListV([Const(x) for x in self.rx.split(self._s(args[0]))], "list")

    def m_match(self, I, args, kwargs):
        m = self.rx.match(self._s(args[0]))
        return NONE if m is None else PyObjV(MatchModel(m))

    def m_fullmatch(self, I, args, kwargs):
        m = self.rx.fullmatch(self._s(args[0]))
        return NONE if m is None else PyObjV(MatchModel(m))

    def m_search(self, I, args, kwargs):
        m = self.rx.search(self._s(args[0]))
        return NONE if m is None else PyObjV(MatchModel(m))


class MatchModel(object):
    def __init__(self, m):
        self.m = m

    def m_groups(self, I, args, kwargs):
        return ListV([Const(g) for g in self.m.groups()], "tuple")

    def m_group(self, I, args, kwargs):
        return Const(self.m.group(int(args[0].const()) if args else 0))


def _formatter_format(I, inst, args, kwargs):
    """string.Formatter.format(fmt, *args, **kwargs): what fmt.format(*args, **kwargs) gives, then the subclass's
    check_unused_args(used fields, args, kwargs) hook; the other hooks must not be overridden"""
    import string as _string
    if not args or not (isinstance(args[0], Const) and isinstance(args[0].v, str)):
        raise AnalysisError("string.Formatter.format with a format string that is not a literal")
    for hook in ("vformat", "_vformat", "parse", "get_field", "get_value", "format_field", "convert_field"):
        if inst.ci.lookup(hook) is not None:
            raise AnalysisError("string.Formatter subclass overrides %s (not modelled)" % hook)
    fmt, rest = args[0], list(args[1:])
    try:
        fields = list(_string.Formatter().parse(fmt.v))
    except ValueError as e:
        raise RaiseSignal(ExcV(ExtV("builtins.ValueError"), [Const(str(e))]), None)
    used, auto = [], 0
    for _lit, name, _spec, _conv in fields:
        if name is None:
            continue
        head = name.split(".")[0].split("[")[0]
        if head == "":
            head = str(auto)
            auto += 1
        used.append(Num(ep.const(int(head))) if head.isdigit() else Const(head))
    out = I.str_format(fmt, rest, dict(kwargs), None)
    chk = inst.ci.lookup("check_unused_args")
    if chk is not None:
        kw = DictV()
        for k, v in kwargs.items():
            kw.items[Const(k).key()] = (Const(k), v)
        seen = {}
        for u in used:
            seen.setdefault(u.key(), u)
        I.call_function(FuncV(chk, selfv=inst), [ListV(list(seen.values()), "set"), ListV(rest, "tuple"), kw], {}, None)
    return out


class _NestedPartV(V):
    """an inner sequence of a loop nest, to be read with the outer loop's current index"""
    def __init__(self, part, var, outer_name):
        self.part, self.var, self.outer_name = part, var, outer_name

    def key(self):
        return ("nestedpart", id(self))


class SymIterV(V):
    """iter(X) for a symbolic sequence X: only draining it in one go (or the zip(it, ..., it) grouper) is modelled"""
    def __init__(self, seq, born=0):
        self.seq = seq
        self.used = False
        self.born = born          # depth of symbolic loops at creation: drained deeper, only the first iteration gets items

    def key(self):
        return ("symiter", id(self))


class GenV(V):
    """lazy generator (generator expression or generator function call)"""
    def __init__(self, thunk):
        self.thunk = thunk
        self.value = None
        self.events = None
        self.consumed = False
        self.born = 0

    def key(self):
        return ("gen", id(self))

    def __repr__(self):
        return "<generator>"


def _names(node):
    return set(n.id for n in ast.walk(node) if isinstance(n, ast.Name))


class _Placeholder(SNode):
    def __repr__(self):
        return "<chunk rows>"


def normalize_chunks(node):
    """merge [SChunk(no flush), SAlt(truthy(rowbuffer), remainder-row, '')] into SChunk(flush)"""
    node = flatten(node)
    if isinstance(node, SCat):
        parts = [normalize_chunks(p) for p in node.parts]
        out = []
        i = 0
        while i < len(parts):
            p = parts[i]
            if isinstance(p, SChunk) and not p.flush and i + 1 < len(parts) and isinstance(parts[i + 1], SAlt):
                alt = parts[i + 1]
                c = alt.cond
                if isinstance(c, Cond) and c.kind == "truthy" and isinstance(c.args[0], ChunkListV) \
                        and c.args[0].spec.get("remainder") and _is_empty(alt.b):
                    rows = parts_of(alt.a)
                    ok = True
                    sep = None
                    end = ""
                    for r in rows:
                        if isinstance(r, SJoinItems):
                            sep = r.sep.text if isinstance(r.sep, SLit) else None
                        elif isinstance(r, SLit):
                            end += r.text
                        else:
                            ok = False
                    if ok and sep == p.sep and end == p.end and getattr(p, "prefix", "") == "":
                        q = SChunk(p.var, p.lo, p.hi, p.item, p.per, p.sep, p.end, True, p.seq)
                        q.prefix = getattr(p, "prefix", "")
                        out.append(q)
                        i += 2
                        continue
            out.append(p)
            i += 1
        return SCat(out) if len(out) != 1 else out[0]
    if isinstance(node, SRep):
        return SRep(node.var, node.lo, node.hi, normalize_chunks(node.body))
    if isinstance(node, SSeqRep):
        return SSeqRep(node.var, node.seq, normalize_chunks(node.body))
    if isinstance(node, SAlt):
        return SAlt(node.cond, normalize_chunks(node.a), normalize_chunks(node.b))
    return node


def _is_empty(n):
    return not parts_of(n)

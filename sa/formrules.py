"""Shared machinery for the potential-form properties (C06, C07, C10)."""
import ast
import os
import re

from . import ep
from .model import Program, AnalysisError, ClassInfo
from .interp import Interp
from .values import *    # noqa
from .symeval import RaiseSignal
from .symeval_ops import DerivV, NTV, NTClassV, ExcV, PyObjV
from . import writerules as W

SPEC_DIR = os.path.join(os.path.dirname(os.path.abspath(__file__)), "specs")
PF = "atsim.potentials.potentialfunctions"
PFORMS = "atsim.potentials.potentialforms"

FORMS = ["bornmayer", "buck", "constant", "coul", "exponential", "exp_spline", "hbnd", "lj", "morse", "polynomial",
         "sqrt", "tang_toennies", "zbl", "zero"]

# manual token -> parameter name in potentialfunctions (confirmed by reading both)
ALIASES = {
    r"\rho": "rho", "q_i": "qi", "q_j": "qj", r"\epsilon": "epsilon", r"\sigma": "sigma", r"\gamma": "gamma",
    "r_*": "r_star", "C_6": "C_6", "C_8": "C_8", "C_{10}": "C_10", "Z_i": "z1", "Z_j": "z2",
    "B_0": "B0", "B_1": "B1", "B_2": "B2", "B_3": "B3", "B_4": "B4", "B_5": "B5",
    r"r_\text{detach}": "r_detach", r"r_\text{min}": "r_min", r"r_\text{attach}": "r_attach",
}


def standard_registry(P, J=None):
    """the package's registry of potential forms as a model sees it: Potential_Form_Registry(cfg, register_standard=True)
    on a configuration without custom or table forms, through the public constructor -> (interpreter, registry object,
    [registered labels])"""
    from . import cfgmodel as M_
    from .props.c06 import _form_tuple_hook
    from .props.c20 import Cfg
    from .symeval_ops import PyObjV
    reg = P.cls("atsim.potentials.config._potential_form_registry", "Potential_Form_Registry")
    if J is None:
        J = make_interp(P)
    M_.install_cexprtk(J)
    J.hooks["atsim.potentials.config._common:make_potential_form_tuple_from_function"] = _form_tuple_hook(P)
    robj = J.instantiate(reg, [PyObjV(Cfg(ListV([], "list"), ListV([], "list"), missing=True))], {"register_standard": TRUE}, None)
    labels = J.as_iterable(J.getattr(robj, "registered"))
    if not isinstance(labels, ListV) or not all(isinstance(x, Const) for x in labels.items):
        raise AnalysisError("Potential_Form_Registry.registered is not a concrete list of labels")
    return J, robj, [x.v for x in labels.items]


class modifier_ref(object):
    """the modifier the package registers under `name`, reached through Modifier_Registry()[name] (a function today; a callable
    object or a function of another module is as good): .call(I, args) applies it, .site() says where it is defined"""
    def __init__(self, P, name):
        self.P, self.name = P, name
        self._site = None

    def value(self, I):
        mr = I.instantiate(self.P.cls("atsim.potentials.config._modifier_registry", "Modifier_Registry"), [], {}, None)
        v = I.getitem(mr, Const(self.name))
        if self._site is None:
            fi = getattr(v, "fi", None)
            ci = getattr(v, "ci", None)
            self._site = fi.site() if fi is not None else (ci.site_of("__call__") if ci is not None else "atsim/potentials/_modifiers.py")
        return v

    def call(self, I, args):
        return I.call(self.value(I), list(args), {})

    def site(self):
        if self._site is None:
            self.value(make_interp(self.P))
        return self._site


def distinct(*pairs):
    """assumption: the named symbols of each pair stand for different numbers"""
    want = set()
    for a, b in pairs:
        want.add((repr(ep.sym(a)), repr(ep.sym(b))))
        want.add((repr(ep.sym(b)), repr(ep.sym(a))))

    def fn(cond):
        if isinstance(cond, Cond) and cond.kind == "cmp" and len(cond.args) == 3 and cond.args[0] in ("==", "!="):
            x, y = cond.args[1], cond.args[2]
            if isinstance(x, Num) and isinstance(y, Num) and (repr(x.rf), repr(y.rf)) in want:
                return cond.args[0] == "!="
        return None
    fn.text = "parameters written with different names stand for different numbers: %s" % (sorted(pairs),)
    return fn


def value_key(I, v):
    """a comparable description of what a callable returns at the symbolic separation r"""
    out = I.call(v, [Num(ep.sym("r"))], {})
    return out.key() if hasattr(out, "key") else repr(out)


def tableform_classes(P):
    """the interpolation classes the table-form builder finds by introspection of atsim.potentials.tableforms: classes whose
    class body sets is_potential = True, with their config_label -> [(label, ClassInfo)]"""
    mod = P.module("atsim.potentials.tableforms")
    out = []
    for ci in sorted((c for c in P.classes.values() if c.module is mod), key=lambda c: c.node.lineno):
        flag = ci.class_attrs.get("is_potential")
        lab = ci.class_attrs.get("config_label")
        if isinstance(flag, ast.Constant) and flag.value is True:
            if not (isinstance(lab, ast.Constant) and isinstance(lab.value, str)):
                raise AnalysisError("table form class %s has no literal config_label" % ci.name)
            out.append((lab.value, ci))
    if not out:
        raise AnalysisError("no interpolation class found in atsim.potentials.tableforms")
    return out


def real_potential(P, defn):
    """the callable the package builds for the text of a [Pair] definition: the text is parsed by the package's own
    ConfigParser (configparser / pyparsing models), built by Potential_Form_Builder with the package's standard
    Potential_Form_Registry and Modifier_Registry -> (interpreter, callable) or (None, reason)"""
    from .props.c14 import parse
    out = parse(P, "[Pair]\nA-B : %s\n" % defn)
    if out[0] != "ok":
        return None, "the definition is refused: %r" % (out[1],)
    J, cp = out[3], out[4]
    try:
        rows = J.as_iterable(J.getattr(cp, "pair"))
        pfi = J.getattr(rows.items[0], "potential_form_instance")
        _, pfr, _labels = standard_registry(P, J)
        mreg = J.instantiate(P.cls("atsim.potentials.config._modifier_registry", "Modifier_Registry"), [], {}, None)
        pb = J.instantiate(P.cls("atsim.potentials.config._potential_form_builder", "Potential_Form_Builder"), [pfr, mreg], {}, None)
        pot = W.run_method(J, pb, "create_potential_function", [pfi])
    except RaiseSignal as e:
        return None, "raises %r" % (e.exc,)
    return J, pot


def all_forms(I, P):
    """the reference forms (those with a formula in sa/specs/forms.py) followed by any further forms the package registers
    itself from potentialfunctions ('as.NAME' entries of the standard registry that wrap a potentialfunctions callable);
    the latter get every rule that needs no reference formula"""
    J, robj, labels = standard_registry(P)
    pf = P.cls("atsim.potentials.config._potential_form", "Potential_Form")
    names = []
    for lab in labels:
        if not lab.startswith("as."):
            continue
        ent = J.getitem(robj, Const(lab))
        if isinstance(ent, InstV) and ent.ci is pf:       # Existing_Potential_Form entries come from potentialforms (buck4 ...)
            names.append(lab[3:])
    extra = [n for n in sorted(names) if n not in FORMS]
    return list(FORMS), extra


def load_program():
    P = Program()
    P.add_file("spec.writers", os.path.join(SPEC_DIR, "writers.py"))
    P.add_file("spec.forms", os.path.join(SPEC_DIR, "forms.py"))
    return P


def read_rst(path, _depth=0):
    """text of a documentation source with its `.. include:: file` directives expanded (relative to the including file)"""
    if not os.path.exists(path):
        raise AnalysisError("manual %s vanished" % path)
    txt = open(path, encoding="utf-8").read()
    if _depth > 5:
        return txt

    def expand(m):
        target = os.path.normpath(os.path.join(os.path.dirname(path), m.group(2).strip()))
        if not os.path.exists(target):
            raise AnalysisError("%s includes %s, which does not exist" % (path, m.group(2).strip()))
        return read_rst(target, _depth + 1)
    return re.sub(r"^([ \t]*)\.\. include::[ \t]*(\S+)[ \t]*$", expand, txt, flags=re.M)


def manual_signatures(repo):
    """{form name: [parameter names]} parsed from docs/reference/potential_forms.rst"""
    path = os.path.join(repo, "docs", "reference", "potential_forms.rst")
    txt = read_rst(path)
    out = {}
    for m in re.finditer(r"^:po(?:r)?table signatures?:\s*`+as\.(\w+)`+(.*)$", txt, re.M):
        name, rest = m.group(1), m.group(2)
        toks = []
        pos = 0
        for t in re.finditer(r":math:`([^`]*)`|(\S+)", rest):
            tok = t.group(1) if t.group(1) is not None else t.group(2)
            toks.append(tok.strip())
        out[name] = toks
    if len(out) < 14:
        raise AnalysisError("the ':potable signature:' lines of docs/reference/potential_forms.rst are not recognised (%d found, 14 confirmed by hand)" % len(out))
    return out


def manual_params(name, toks):
    if name == "polynomial":
        return None
    res = []
    for t in toks:
        if name == "constant" and t == "C":
            res.append("constant")
        else:
            res.append(ALIASES.get(t) or _plain(t))
    return res


def _plain(tok):
    """a LaTeX parameter token as an identifier: \\kappa -> kappa, C_{10} -> C_10, r_\\text{min} -> r_min"""
    t = re.sub(r"\\text\{([^}]*)\}", r"\1", tok)
    t = re.sub(r"\{([^}]*)\}", r"\1", t)
    return t.replace("\\", "")


def form_instance(I, P, name):
    m = P.module(PF)
    v = I.module_global(m, name)
    if not isinstance(v, InstV):
        raise AnalysisError("potentialfunctions.%s is not a callable instance: %r" % (name, v))
    return v


def call_params(inst, meth="__call__"):
    fi = inst.ci.lookup(meth)
    if fi is None:
        return None
    a = fi.node.args
    if a.vararg is not None:
        return ("*", a.vararg.arg)
    return [x.arg for x in a.args][1:]


def sym_args(params):
    return [Num(ep.sym(p)) for p in params]


def zbl_consts(I, inst):
    env = {}
    for c in ("Ck1", "Ck2", "Ck3", "Ck4", "Bk1", "Bk2", "Bk3", "Bk4"):
        v = I.getattr(inst, c)
        env[c] = v.rf
    return env


def hasattr_true(names):
    def fn(cond):
        if isinstance(cond, Cond) and cond.kind == "hasattr" and isinstance(cond.args[1], Const) and cond.args[1].v in names:
            return names[cond.args[1].v]
        return None
    fn.text = "user callables offer %s" % ", ".join(k for k, v in names.items() if v)
    return fn


def make_interp(P, hooks=True, deriv=True):
    return W.make_interp(P, hooks=hooks)


def registered_modifiers(I, mr, candidates=()):
    """names a Modifier_Registry offers: the keys of the one dictionary it holds (its only public accessor is [name]);
    every candidate name is also asked for through [name]"""
    dicts = [v for v in mr.attrs.values() if isinstance(v, DictV)]
    if len(dicts) != 1:
        raise AnalysisError("Modifier_Registry holds %d dictionaries (expected the one table of modifiers)" % len(dicts))
    names = set(k.v for k, _ in dicts[0].items.values())
    from .symeval import RaiseSignal
    for c in candidates:
        try:
            I.getitem(mr, Const(c))
            ok = True
        except RaiseSignal:
            ok = False
        if ok != (c in names):
            raise AnalysisError("Modifier_Registry[%r] disagrees with its table" % c)
    return names

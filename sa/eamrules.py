"""EAM potential builders evaluated through their public interface:

    EAM_Potential_Builder[_FS](cp, potential_form_registry, modifier_registry, reference_data=rd).eam_potentials

`cp` is a stand-in offering the parser's documented views (eam_embed, eam_density, eam_density_fs, pair) with rows of the
package's own tuple types; the collaborator Potential_Form_Builder is replaced at its constructor by an object whose
create_potential_function(defn) returns built(defn); `rd` is a stand-in of Reference_Data.get.  No private method or
attribute of the builders is named."""
from . import ep
from .model import AnalysisError
from .values import *    # noqa
from .symeval import RaiseSignal
from .symeval_ops import ExcV, PyObjV

BUILDER_MOD = "atsim.potentials.config._eam_potential_builder"
COMMON = "atsim.potentials.config._common"
REFMOD = "atsim.potentials.referencedata._reference_data"


def built(defn):
    return Opaque(("built", defn.key()))


class FormBuilder(object):
    """stands for Potential_Form_Builder: create_potential_function(defn) -> built(defn)"""
    def m_create_potential_function(self, I, args, kwargs):
        if kwargs or len(args) != 1:
            raise AnalysisError("create_potential_function called with %r %r" % (args, kwargs))
        return built(args[0])


class ParserViews(object):
    def __init__(self, embed, density, density_fs, pair=None, fallback_class=None):
        self.views = {"eam_embed": embed, "eam_density": density, "eam_density_fs": density_fs,
                      "pair": pair if pair is not None else ListV([], "list")}
        # anything else the builders ask of the parser is the real ConfigParser's own method, run on these views
        self.fallback_class = fallback_class

    def __getattr__(self, name):
        if name.startswith("get_") and name[4:] in self.__dict__.get("views", {}):
            v = self.__dict__["views"][name[4:]]
            if v is None:
                raise AnalysisError("the builder reads ConfigParser.%s, which this scenario does not provide" % name[4:])
            return lambda I: v
        raise AttributeError(name)


class RefData(object):
    """Reference_Data stand-in: get(species, property) is an opaque value naming both, or - for the listed
    (species, property) pairs / with missing='all' - raises Unknown_Species_Exception"""
    def __init__(self, P, missing=()):
        self.P, self.missing = P, missing

    def m_get(self, I, args, kwargs):
        if kwargs or len(args) != 2:
            raise AnalysisError("Reference_Data.get called with %r %r" % (args, kwargs))
        sp, prop = args
        key = (getattr(sp, "v", None), getattr(prop, "v", None))
        if self.missing == "all" or key in self.missing or key[1] in self.missing:
            from .values import ClassV
            raise RaiseSignal(ExcV(ClassV(self.P.cls(REFMOD, "Unknown_Species_Exception")), []), None)
        return refvalue(sp, prop)


def refvalue(sp, prop):
    if isinstance(prop, str):
        prop = Const(prop)
    return Opaque(("call", ("attr", ("param", "rd"), "get"), (sp.key(), prop.key())))


def defn_value(I, P, spec):
    """a potential definition as the parser delivers it: spec = (form label, [parameters], (marker, start), next spec or None)
    -> PotentialFormInstanceTuple chain; any other value is used as it is (an opaque definition)"""
    if not (isinstance(spec, tuple) and len(spec) == 4 and isinstance(spec[0], str)):
        return spec
    mod = P.module(COMMON)
    pfi = I.module_global(mod, "PotentialFormInstanceTuple")
    mrd = I.module_global(mod, "MultiRangeDefinitionTuple")
    label, params, (marker, start), nxt = spec
    return I.call(pfi, [Const(label), ListV([Num(ep.const(x)) for x in params], "list"),
                        I.call(mrd, [Const(marker), Num(ep.const(start))], {}), defn_value(I, P, nxt) if nxt is not None else NONE], {})


def rows(P, I, kind, entries):
    """kind 'embed' / 'density': [(species, defn value)]; kind 'fs': [((from, to), defn value)]"""
    mod = P.module(COMMON)
    if kind == "embed":
        t = I.module_global(mod, "EAMEmbedTuple")
        return ListV([I.call(t, [Const(s), defn_value(I, P, d)], {}) for s, d in entries], "list")
    t = I.module_global(mod, "EAMDensityTuple")
    if kind == "density":
        return ListV([I.call(t, [Const(s), defn_value(I, P, d)], {}) for s, d in entries], "list")
    st = I.module_global(mod, "EAMFSDensitySpeciesTuple")
    return ListV([I.call(t, [I.call(st, [Const(a), Const(b)], {}), defn_value(I, P, d)], {}) for (a, b), d in entries], "list")


def build(P, make, fs, embed, density, missing=(), pair=None):
    """-> (I, 'ok', {species: EAMPotential instance}, [species in list order]) | (I, 'raise', exception value)
    embed / density: lists as for rows()"""
    I = make(P)
    st = I.__dict__.setdefault("class_standins", {})
    pfb = P.cls("atsim.potentials.config._potential_form_builder", "Potential_Form_Builder")
    st[pfb.fq] = lambda J, ci, args, kwargs: PyObjV(FormBuilder())
    e = rows(P, I, "embed", embed)
    d = rows(P, I, "fs" if fs else "density", density)
    cp = PyObjV(ParserViews(e, None if fs else d, d if fs else None, pair,
                            fallback_class=P.cls("atsim.potentials.config._config_parser", "ConfigParser")))
    cls = P.cls(BUILDER_MOD, "EAM_Potential_Builder_FS" if fs else "EAM_Potential_Builder")
    try:
        b = I.instantiate(cls, [cp, Opaque(("collaborator", "potential_form_registry")), Opaque(("collaborator", "modifier_registry"))],
                          {"reference_data": PyObjV(RefData(P, missing))}, None)
        pots = I.as_iterable(I.getattr(b, "eam_potentials"))
    except RaiseSignal as ex:
        return I, "raise", ex.exc
    if not isinstance(pots, ListV) or getattr(pots, "tail", None):
        raise AnalysisError("eam_potentials is not a concrete list: %r" % (pots,))
    out, order = {}, []
    for p in pots.items:
        if not (isinstance(p, InstV) and p.ci.name == "EAMPotential"):
            raise AnalysisError("eam_potentials contains %r" % (p,))
        sp = I.getattr(p, "species")
        if not isinstance(sp, Const):
            raise AnalysisError("EAMPotential.species is not concrete: %r" % (sp,))
        if sp.v in out:
            raise AnalysisError("two EAMPotential objects for species %r" % sp.v)
        out[sp.v] = p
        order.append(sp.v)
    return I, "ok", out, order


def is_config_error(P, exc):
    cfg = P.cls(COMMON, "ConfigurationException")
    return isinstance(exc, ExcV) and isinstance(exc.cls, ClassV) and exc.cls.ci.is_subclass_of(cfg)

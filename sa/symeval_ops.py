"""Attribute access, subscripting, calls, builtins and string operations of
the symbolic evaluator."""
import ast
import math

from . import ep
from . import modelguard
from .ep import Unsupported
from .model import AnalysisError, FuncInfo, ClassInfo, ExternalClass
from .values import *    # noqa
from .strtree import *   # noqa
from . import fmt as fmtmod
from .symeval import Env, ReturnSignal, RaiseSignal, is_strlike, neg_cond, make_phi, seq_concat


class BoundBuiltin(V):
    def __init__(self, base, name):
        self.base = base
        self.name = name

    def key(self):
        return ("bound", self.base.key(), self.name)

    def __repr__(self):
        return "<%r.%s>" % (self.base, self.name)


class PyObjV(V):
    """a model object implemented in /verif (e.g. a recording worksheet); methods
    are python callables taking (interp, args, kwargs)"""
    def __init__(self, obj):
        self.obj = obj

    def key(self):
        return ("pyobj", id(self.obj))

    def __deepcopy__(self, memo):
        return self

    def as_callable(self):
        return BoundBuiltin(self, "__call__")


class DerivV(V):
    """gradient(f): the derivative of callable f (semantic summary of
    atsim.potentials._util.gradient, justified by its own obligations)."""
    def __init__(self, f, order=1):
        self.f = f
        self.order = order

    def key(self):
        return ("deriv", self.f.key(), self.order)

    def __repr__(self):
        return "D%d(%r)" % (self.order, self.f)


class NTClassV(V):
    def __init__(self, name, fields):
        self.name = name
        self.fields = list(fields)

    def key(self):
        return ("ntclass", self.name, tuple(self.fields))

    def __deepcopy__(self, memo):
        return self

    def __repr__(self):
        return "<namedtuple %s>" % self.name


class NTV(V):
    def __init__(self, cls, values):
        self.cls = cls
        self.values = list(values)

    def key(self):
        return ("nt", self.cls.name) + tuple(v.key() for v in self.values)

    def __repr__(self):
        return "%s(%s)" % (self.cls.name, ", ".join("%s=%r" % fv for fv in zip(self.cls.fields, self.values)))


class PropertyV(V):
    """property(fget) created by a call (class-level attribute), not by the decorator"""
    def __init__(self, fget, fset=None):
        self.fget, self.fset = fget, fset

    def key(self):
        return ("property", self.fget.key() if self.fget is not None else None)


class EnumConst(Const):
    """member of a str-mixin Enum (equal to its value)"""
    enum = None

    def __repr__(self):
        return "%s.%s" % self.enum if self.enum else Const.__repr__(self)


class ExcV(V):
    def __init__(self, cls, args):
        self.cls = cls      # ClassV or ExtV
        self.args = args

    def key(self):
        return ("exc", self.cls.key())

    def __repr__(self):
        return "<exception %r>" % (self.cls,)


def subst_path(p, env):
    if isinstance(p, tuple):
        return tuple(subst_path(x, env) for x in p)
    if isinstance(p, ep.RF):
        return ep.substitute(p, env)
    return p


class OpsMixin(object):

    # -------------------------------------------------------------- substitution
    def subst(self, v, env):
        """replace ep symbols (name -> RF) throughout a value"""
        if isinstance(v, Num):
            return Num(ep.substitute(v.rf, env))
        if isinstance(v, Opaque):
            return Opaque(subst_path(v.path, env))
        if isinstance(v, InstV) and v.label is not None:
            return self.opaque_instance(v.ci, subst_path(v.label, env))
        if isinstance(v, ListV):
            return ListV([self.subst(x, env) for x in v.items], v.kind)
        if isinstance(v, SortedV):
            return SortedV([self.subst(x, env) for x in v.items])
        if isinstance(v, StrV):
            return StrV(self.subst_node(v.node, env))
        if isinstance(v, Phi):
            return Phi(self.subst(v.cond, env), self.subst(v.a, env), self.subst(v.b, env))
        if isinstance(v, Cond):
            return Cond(v.kind, *[self.subst(a, env) if isinstance(a, V) else a for a in v.args])
        if isinstance(v, DerivV):
            return DerivV(self.subst(v.f, env), v.order)
        if isinstance(v, LookupV):
            return LookupV(v.ld, self.subst(v.query, env), self.subst(v.default, env) if v.default is not None else None)
        if isinstance(v, NTV):
            return NTV(v.cls, [self.subst(x, env) for x in v.values])
        if isinstance(v, SeqV):
            if v.kind == "family":
                return SeqV("family", var=v.var, lo=ep.substitute(v.lo, env), hi=ep.substitute(v.hi, env), elem=self.subst(v.elem, env))
            if v.kind == "seqmap":
                return SeqV("seqmap", var=v.var, seq=self.subst(v.seq, env), elem=self.subst(v.elem, env))
            if v.kind == "concat":
                return SeqV("concat", parts=[self.subst(x, env) for x in v.parts])
            return v
        if isinstance(v, BoundBuiltin):
            return BoundBuiltin(self.subst(v.base, env), v.name)
        if isinstance(v, FuncV) and v.selfv is not None:
            return FuncV(v.fi, v.closure, self.subst(v.selfv, env))
        return v

    def subst_node(self, n, env):
        if isinstance(n, SLit) or isinstance(n, SOptWS):
            return n
        if isinstance(n, SFmt):
            return SFmt(n.conv, self.subst(n.value, env), n.flags, n.width, n.prec)
        if isinstance(n, SCat):
            return SCat([self.subst_node(x, env) for x in n.parts])
        if isinstance(n, SRep):
            return SRep(n.var, ep.substitute(n.lo, env), ep.substitute(n.hi, env), self.subst_node(n.body, env))
        if isinstance(n, SSeqRep):
            return SSeqRep(n.var, n.seq, self.subst_node(n.body, env))
        if isinstance(n, SAlt):
            return SAlt(self.subst(n.cond, env), self.subst_node(n.a, env), self.subst_node(n.b, env))
        if isinstance(n, SChunk):
            return SChunk(n.var, ep.substitute(n.lo, env), ep.substitute(n.hi, env), self.subst_node(n.item, env),
                          n.per, n.sep, n.end, n.flush, n.seq)
        raise AnalysisError("subst_node %r" % (n,))

    # -------------------------------------------------------------- instances
    def opaque_instance(self, ci, path):
        cache = self.__dict__.setdefault("_opaque_cache", {})
        k = (ci.fq, path)
        if k in cache:
            return cache[k]
        inst = InstV(ci, label=path)
        inst.birth = len(self.path_conds)
        cache[k] = inst
        init = ci.lookup("__init__")
        if init is not None:
            a = init.node.args
            params = [x.arg for x in a.args][1:]
            args = [Opaque(("attr", path, p)) for p in params]
            self.call_function(FuncV(init, selfv=inst), args, {}, None)
        return inst

    def seq_elem(self, seq, idx_rf):
        """element of a symbolic sequence at index idx (RF)"""
        if seq.kind == "opaque":
            path = ("elem", seq.path, idx_rf)
            ci = getattr(seq, "elem_class", None)
            if ci is not None:
                return self.opaque_instance(ci, path)
            return Opaque(path)
        if seq.kind == "family":
            return self.subst(seq.elem, {seq.var: idx_rf})
        if seq.kind == "seqmap":
            return self.subst(seq.elem, {seq.var: idx_rf})
        raise AnalysisError("indexing of concatenated symbolic sequence")

    def seq_len(self, seq):
        if isinstance(seq, ListV):
            return ep.const(len(seq.items))
        if seq.kind == "opaque":
            if getattr(seq, "length", None) is not None:
                return seq.length          # a re-ordering of another sequence has that sequence's length
            return ep.app(("len", seq.path), [])
        if seq.kind == "family":
            return seq.hi - seq.lo
        if seq.kind == "seqmap":
            return self.seq_len(seq.seq)
        if seq.kind != "concat":
            raise AnalysisError("length of a %s sequence" % seq.kind)
        total = ep.const(0)
        for p in seq.parts:
            total = total + self.seq_len(p)
        return total

    # -------------------------------------------------------------- getattr
    def getattr(self, base, attr, node=None):
        if isinstance(base, ModV):
            if base.module is not None:
                sub = base.module.name + "." + attr
                if sub in self.p.modules:
                    return ModV(sub, self.p.modules[sub])
                v = self.module_global(base.module, attr, node)
                if v is None:
                    self.err(node, "module %s has no attribute %s" % (base.name, attr))
                return v
            if base.name == "os" and attr == "linesep":
                return Const("\n")
            ev = self.__dict__.get("ext_values", {}).get(base.name + "." + attr)
            if ev is not None:
                return ev
            return ExtV(base.name + "." + attr)
        if isinstance(base, ExtV):
            if base.name == "os" and attr == "linesep":
                return Const("\n")
            ev = self.__dict__.get("ext_values", {}).get(base.name + "." + attr)
            if ev is not None:
                return ev
            return ExtV(base.name + "." + attr)
        if isinstance(base, InstV):
            if attr in base.attrs:
                v = base.attrs[attr]
                if isinstance(v, Undefined):
                    self.err(node, "attribute %s undefined on this path" % attr)
                return v
            return self.class_attr(base.ci, base, attr, node)
        if isinstance(base, ClassV):
            return self.class_attr(base.ci, None, attr, node)
        if isinstance(base, FuncV):
            if attr in base.attrs:
                return base.attrs[attr]
            if attr == "__get__":
                return BoundBuiltin(base, "__get__")
            if attr == "__name__":
                return Const(base.fi.name)
            if attr in ("__doc__", "__module__", "__qualname__", "__dict__", "__wrapped__", "__call__", "__code__", "__defaults__"):
                self.err(node, "function attribute %s" % attr)
            # an attribute that was never set on this function object
            raise RaiseSignal(ExcV(ExtV("builtins.AttributeError"), [Const("function object has no attribute '%s'" % attr)]), node)
        if isinstance(base, NTV):
            if attr in base.cls.fields:
                return base.values[base.cls.fields.index(attr)]
            if attr in ("_replace", "_asdict"):
                return BoundBuiltin(base, attr)
            if attr == "_fields":
                return ListV([Const(f) for f in base.cls.fields], "tuple")
            if hasattr(tuple, attr) or attr in ("_make", "_field_defaults", "_fields_defaults"):
                self.err(node, "named tuple attribute %s" % attr)        # exists in Python, not modelled here
            raise RaiseSignal(ExcV(ExtV("builtins.AttributeError"), [Const(attr)]), node)
        if isinstance(base, Opaque):
            if self.__dict__.get("attr_guard", 0):
                h = self.hasattr(base, attr)
                if h is False:
                    raise RaiseSignal(ExcV(ExtV("builtins.AttributeError"), [Const(attr)]), node)
                if not isinstance(h, bool):
                    # inside try/except AttributeError: whether this read raises is exactly what the handler is for
                    self.err(node, "attribute %s of an object that may lack it, inside a try block catching AttributeError" % attr)
            return Opaque(("attr", base.path, attr))
        if isinstance(base, ExcV):
            if attr in getattr(base, "attrs", {}):
                return base.attrs[attr]
            if attr == "args":
                return ListV(list(base.args) or [Const("")], "tuple")
            if attr == "message":
                return base.args[0] if base.args else Const("")
            self.err(node, "exception attribute %s" % attr)
        if isinstance(base, Unknown):
            return Unknown(base.tag + "." + attr)
        if isinstance(base, Num) and not base.rf.df:
            # attribute of what was taken for the numeric result of calling an opaque object: it was an object
            st = base.rf.n.single_term()
            if st is not None and st[1] == 1:
                fs = list(st[0].f)
                if len(fs) == 1 and isinstance(fs[0][0], ep.AppA) and fs[0][0].dorder == 0 and fs[0][1] == ep.ONE and fs[0][0].args:
                    a = fs[0][0]
                    return self.getattr(Opaque(("call", a.fn, tuple(Num(x).key() for x in a.args))), attr, node)
        if isinstance(base, PyObjV):
            a = getattr(base.obj, "get_" + attr, None)
            if a is not None:
                return a(self)
            if hasattr(base.obj, "m_" + attr):
                return BoundBuiltin(base, attr)
            if attr in ("items", "keys", "values") and hasattr(base.obj, "iter_items") and hasattr(base.obj, "getitem"):
                # Mapping mixin methods: derived from iteration and item access, as collections.abc.Mapping derives them
                return PyObjV(_MappingView(base.obj, attr))
            fb = getattr(base.obj, "fallback_class", None)
            if fb is not None:
                # a stand-in for an object of a class of the package: what the stand-in does not provide itself is the class's
                # own method, run on the stand-in
                try:
                    return self.class_attr(fb, base, attr, node)
                except AnalysisError:
                    pass
            self.err(node, "model object %r has no attribute %s" % (base.obj, attr))
        if type(base).__name__ == "SetAccV" and not base.adds and attr in (
                "issubset", "issuperset", "isdisjoint", "intersection", "union", "difference", "symmetric_difference", "copy"):
            # a set only ever filled outside symbolic loops: an ordinary concrete set (non-mutating methods)
            seen = {}
            for c in base.concrete:
                seen.setdefault(c.key(), c)
            return BoundBuiltin(ListV(list(seen.values()), "set"), attr)
        if isinstance(base, Phi):
            a = self.with_path(base.cond, True, lambda: self.getattr(base.a, attr, node))
            b = self.with_path(base.cond, False, lambda: self.getattr(base.b, attr, node))
            return make_phi(base.cond, a, b)
        if isinstance(base, DerivV):
            if attr == "deriv":
                return DerivV(base.f, base.order + 1)
            self.err(node, "attribute %s of gradient wrapper" % attr)
        if isinstance(base, LookupV):
            ci = base.ld.valv.ci if isinstance(base.ld.valv, InstV) else None
            if ci is not None:
                m = ci.lookup(attr)
                if m is not None and not m.is_property:
                    return BoundBuiltin(base, attr)
                return self.lookup_attr(base, attr, node)
            return BoundBuiltin(base, attr)
        if isinstance(base, (ListV, DictV, BufV, StrV, SeqV, SetV, LoopDictV, LookupV, Const, SortedV, NTClassV, Num)) \
                or type(base).__name__ in ("LoggerV", "SetAccV", "IterV"):
            return BoundBuiltin(base, attr)
        self.err(node, "attribute %s of %r" % (attr, base))

    def class_attr(self, ci, inst, attr, node):
        for c in ci.mro():
            if not isinstance(c, ClassInfo):
                continue
            if attr in c.methods:
                fi = c.methods[attr]
                if fi.is_property:
                    if inst is None:
                        self.err(node, "property %s accessed on class" % attr)
                    return self.call_function(FuncV(fi, selfv=inst), [], {}, node)
                if fi.is_staticmethod:
                    return FuncV(fi)
                if fi.is_classmethod:
                    return FuncV(fi, selfv=ClassV(ci))
                other = [d for d in fi.node.decorator_list
                         if ast.unparse(d) not in ("property", "staticmethod", "classmethod", "abstractmethod", "abc.abstractmethod")
                         and not ast.unparse(d).endswith((".setter", ".getter", ".deleter"))]
                if other:
                    # a decorated method: the decorator is applied once, when the class body runs; the object it returns lives
                    # on the class and is shared by all instances (a cache decorator therefore has one table for all of them)
                    store = self.__dict__.setdefault("_decorated_methods", {})
                    dk = (c.fq, attr)
                    if dk not in store:
                        denv = Env(module=c.module, label=c.fq)
                        fv = FuncV(fi)
                        for d in reversed(other):
                            fv = self.call(self.eval(d, denv), [fv], {}, fi.node, denv)
                        store[dk] = fv
                    dec = store[dk]
                    if inst is None:
                        return dec
                    if isinstance(dec, FuncV) and dec.selfv is None:
                        return FuncV(dec.fi, dec.closure, inst)
                    return PyObjV(PartialV(dec, [inst], {})).as_callable()
                if inst is not None:
                    return FuncV(fi, selfv=inst)
                return FuncV(fi)
            if attr in c.class_attrs:
                env = Env(module=c.module, label=c.fq)
                # names of class attributes defined in the same class body are visible to the expression
                for other, expr in c.class_attrs.items():
                    if other != attr and any(isinstance(n, ast.Name) and n.id == other for n in ast.walk(c.class_attrs[attr])):
                        env.vars[other] = self.class_attr(c, None, other, node)
                v = self.eval(c.class_attrs[attr], env)
                # descriptor protocol for plain attributes of the class body
                if isinstance(v, StaticV):
                    return v.fn
                if isinstance(v, ClassMethodV):
                    if isinstance(v.fn, FuncV):
                        return FuncV(v.fn.fi, v.fn.closure, ClassV(ci))
                    self.err(node, "classmethod() of %r" % (v.fn,))
                if isinstance(v, FuncV) and v.selfv is None and inst is not None and not v.fi.is_staticmethod:
                    return FuncV(v.fi, v.closure, inst)       # a function stored on the class is a method of its instances
                if isinstance(v, PropertyV):
                    if inst is None:
                        return v
                    if v.fget is None:
                        raise RaiseSignal(ExcV(ExtV("builtins.AttributeError"), [Const("unreadable attribute %s" % attr)]), node)
                    return self.call(v.fget, [inst], {}, node)
                if isinstance(v, Const) and inst is None and any(
                        isinstance(b, ExternalClass) and b.name.split(".")[-1] in ("Enum", "IntEnum", "StrEnum", "Flag") for b in c.mro()):
                    return self.enum_member(c, attr, v, node)
                return v
        if attr == "__class__" and inst is not None:
            return ClassV(ci)
        if attr == "__name__":
            return Const(ci.name)
        if inst is not None and inst.label is not None:
            # attribute of an opaque typed object not set by __init__
            return Opaque(("attr", inst.label, attr))
        closed = all(isinstance(c, ClassInfo) or (isinstance(c, ExternalClass) and c.name.split(".")[-1] == "object") for c in ci.mro()) \
            and ci.lookup("__getattr__") is None and ci.lookup("__getattribute__") is None
        if inst is not None and closed and not any(isinstance(v, Phi) for v in inst.attrs.values() if False):
            # a concrete object of a class whose whole hierarchy is in the package: the attribute does not exist
            if node is None and attr.startswith("_") and not attr.startswith("__"):
                # asked for by a check itself (no call site in the package): the check relies on a private name
                raise AnalysisError("the check relies on the private attribute %s.%s, which this tree does not have" % (ci.name, attr))
            raise RaiseSignal(ExcV(ExtV("builtins.AttributeError"), [Const("'%s' object has no attribute '%s'" % (ci.name, attr))]), node)
        self.err(node, "%s has no attribute %s" % (ci.name, attr))

    def enum_member(self, ci, attr, v, node):
        """a member of an Enum that mixes in str: it compares, hashes and indexes as its string value; how it prints differs
        from the plain string, so it is refused wherever text is made from it"""
        ext = [b.name.split(".")[-1] for b in ci.mro() if isinstance(b, ExternalClass)]
        if not (isinstance(v.v, str) and ("str" in ext or "StrEnum" in ext)):
            self.err(node, "enum member %s.%s that is not a string mix-in" % (ci.name, attr))
        m = EnumConst(v.v)
        m.enum = (ci.name, attr)
        return m

    def hasattr(self, base, attr):
        """-> bool or Cond"""
        if isinstance(base, InstV):
            if attr in base.attrs:
                v = base.attrs[attr]
                if isinstance(v, Undefined):
                    return False
                if isinstance(v, Phi) and (isinstance(v.a, Undefined) or isinstance(v.b, Undefined)):
                    return v.cond if isinstance(v.b, Undefined) else neg_cond(v.cond)
                return True
            for c in base.ci.mro():
                if isinstance(c, ClassInfo) and (attr in c.methods or attr in c.class_attrs):
                    return True
                if isinstance(c, ExternalClass) and c.name != "object":
                    return self.assume(Cond("hasattr", base, Const(attr)))
            return False
        if isinstance(base, FuncV):
            if attr in base.attrs:
                v = base.attrs[attr]
                if isinstance(v, Phi) and (isinstance(v.a, Undefined) or isinstance(v.b, Undefined)):
                    return v.cond if isinstance(v.b, Undefined) else neg_cond(v.cond)
                return not isinstance(v, Undefined)
            return False
        if isinstance(base, DerivV):
            if attr == "deriv":
                return self.hasattr(base.f, "deriv" + str(base.order + 1) if base.order + 1 > 1 else "deriv")
            return False
        if isinstance(base, ClassV):
            for c in base.ci.mro():
                if isinstance(c, ClassInfo) and (attr in c.methods or attr in c.class_attrs):
                    return True
            return False
        if isinstance(base, NTV):
            return attr in base.cls.fields
        if isinstance(base, (Opaque, LookupV)):
            return self.assume(Cond("hasattr", base, Const(attr)))
        if isinstance(base, Phi):
            a = self.hasattr(base.a, attr)
            b = self.hasattr(base.b, attr)
            if a is b or (isinstance(a, bool) and a == b):
                return a
            return Cond("phi", base.cond, Const(a) if isinstance(a, bool) else a, Const(b) if isinstance(b, bool) else b)
        if isinstance(base, (Num, Const, ListV, DictV, NTClassV, ModV, ExtV)):
            return False
        if isinstance(base, PyObjV):
            o = base.obj
            return hasattr(o, "get_" + attr) or hasattr(o, "m_" + attr)
        raise AnalysisError("hasattr on %r" % (base,))

    def setattr(self, base, attr, val, node=None):
        if isinstance(base, PyObjV):
            getattr(base.obj, "set_" + attr)(self, val)
            return
        if isinstance(base, InstV):
            # property setter?
            for c in base.ci.mro():
                if isinstance(c, ClassInfo) and attr in c.setters:
                    self.call_function(FuncV(c.setters[attr], selfv=base), [val], {}, node)
                    return
            base.attrs[attr] = val
            return
        if isinstance(base, FuncV):
            base.attrs[attr] = val
            return
        self.err(node, "attribute store on %r" % (base,))

    def dict_lookup(self, base, idx, node=None):
        """a key that is not a literal looked up among stored keys: Python compares by equality -> ('hit', value) |
        ('miss', None) | ('maybe', [(condition key == stored key, value), ...]) - conditions already decided on the
        current path are applied"""
        maybe = []
        for kk, vv in list(base.items.values()):
            r = self.equals(idx, kk, node)
            if isinstance(r, Cond):
                r = self.assume(r)
            if r is True:
                return "hit", vv
            if r is False:
                continue
            maybe.append((r, vv))
        if not maybe:
            return "miss", None
        return "maybe", maybe

    # -------------------------------------------------------------- getitem
    def getitem(self, base, idx, node=None):
        if isinstance(base, ListV):
            c = idx.const() if isinstance(idx, Num) else None
            if c is None or c.denominator != 1:
                self.err(node, "symbolic index into concrete list")
            try:
                return base.items[int(c)]
            except IndexError:
                raise RaiseSignal(ExcV(ExtV("builtins.IndexError"), []), node)
        if isinstance(base, NTV):
            return self.getitem(ListV(base.values, "tuple"), idx, node)
        if isinstance(base, DictV):
            k = idx.key()
            if k in base.items:
                return base.items[k][1]
            if getattr(base, "counter", False):
                from .symeval_ext import concrete_key as _ck
                if _ck(idx) and all(_ck(kk) for kk, _ in base.items.values()):
                    return Num(ep.const(0))                       # Counter.__missing__: 0, nothing stored
            if getattr(base, "default_factory", None) is not None and isinstance(idx, (Const, Num)) \
                    and all(isinstance(kk, (Const, Num)) for kk, _ in base.items.values()):
                v = self.call(base.default_factory, [], {}, node)      # collections.defaultdict.__missing__
                base.items[k] = (idx, v)
                return v
            from .symeval_ext import concrete_key
            if concrete_key(idx) and all(concrete_key(kk) for kk, _ in base.items.values()):
                raise RaiseSignal(ExcV(ExtV("builtins.KeyError"), [idx]), node)
            kind, res = self.dict_lookup(base, idx, node)
            if kind == "hit":
                return res
            if kind == "miss":
                raise RaiseSignal(ExcV(ExtV("builtins.KeyError"), [idx]), node)
            self.err(node, "item of a dictionary under a key whose equality with the stored keys %s is not decided on this path"
                     % ([c for c, _ in res],))
        if isinstance(base, SeqV):
            return self.seq_elem(base, self.num(idx, node))
        if isinstance(base, Opaque):
            if isinstance(idx, Num):
                return self.seq_elem(SeqV("opaque", path=base.path, elem_class=self.elem_classes.get(base.path)), idx.rf)
            return Opaque(("item", base.path, idx.key()))
        if isinstance(base, LoopDictV):
            hit = self.loopdict_direct(base, idx)
            if hit is not None:
                return hit
            return LookupV(base, idx, None)
        if isinstance(base, Const) and isinstance(base.v, str) and isinstance(idx, Num) and idx.const() is not None:
            return Const(base.v[int(idx.const())])
        if isinstance(base, InstV):
            gi = base.ci.lookup("__getitem__")
            if gi is not None:
                return self.call_function(FuncV(gi, selfv=base), [idx], {}, node)
        if isinstance(base, PyObjV):
            return base.obj.getitem(self, idx)
        if isinstance(base, Phi):
            return make_phi(base.cond, self.getitem(base.a, idx, node), self.getitem(base.b, idx, node))
        if isinstance(base, SortedV):
            c = idx.const() if isinstance(idx, Num) else None
            if c is not None:
                return Opaque(("sorted_item", base.key(), int(c)))
        self.err(node, "subscript of %r" % (base,))

    def slice(self, base, lo, hi, node=None, step=None):
        if isinstance(base, PyObjV) and hasattr(base.obj, "slice"):
            return base.obj.slice(self, lo, hi, step)
        if step is not None:
            def cb(v):
                if v is None or (isinstance(v, Const) and v.v is None):
                    return None
                c = v.const() if isinstance(v, Num) else None
                if c is None or c.denominator != 1:
                    self.err(node, "symbolic slice bound with a step")
                return int(c)
            if isinstance(base, NTV):
                base = ListV(base.values, "tuple")
            if isinstance(base, ListV) and not getattr(base, "tail", None):
                return ListV(base.items[cb(lo):cb(hi):step], base.kind)
            if isinstance(base, Const) and isinstance(base.v, str):
                return Const(base.v[cb(lo):cb(hi):step])
            self.err(node, "stepped slice of %r" % (base,))
        if isinstance(base, Opaque) and base.path in self.elem_classes or (isinstance(base, SeqV) and base.kind == "opaque"):
            seq = base if isinstance(base, SeqV) else SeqV("opaque", path=base.path, elem_class=self.elem_classes.get(base.path))
            lo_rf = self.num(lo, node) if lo is not None else ep.const(0)
            hi_rf = self.num(hi, node) if hi is not None else self.seq_len(seq)
            var = self.fresh_sym("s")
            return SeqV("family", var=var, lo=lo_rf, hi=hi_rf, elem=self.seq_elem(seq, ep.sym(var)))

        def cint(v):
            if v is None:
                return None
            c = v.const() if isinstance(v, Num) else None
            if c is None:
                self.err(node, "symbolic slice bound")
            return int(c)
        if isinstance(base, ListV):
            return ListV(base.items[cint(lo):cint(hi)], base.kind)
        if isinstance(base, Const) and isinstance(base.v, str):
            return Const(base.v[cint(lo):cint(hi)])
        if isinstance(base, StrV):
            # slicing a formatted string: keep as opaque transformation
            return StrV(SCat([SFmt("s", Opaque(("slice", base.key(), cint(lo), cint(hi))))]))
        if isinstance(base, SeqV) and base.kind in ("family",) and hi is None:
            l = cint(lo)
            return SeqV("family", var=base.var, lo=base.lo + l, hi=base.hi, elem=base.elem)
        if isinstance(base, SeqV) and base.kind == "family":
            l, h = cint(lo), cint(hi)
            if (l is None or l >= 0) and (h is None or h >= 0):
                # positions counted from the front: [lo + l, min(hi, lo + h))
                new_lo = base.lo + (l or 0)
                new_hi = base.hi
                if h is not None:
                    room = (base.hi - (base.lo + h)).as_const()
                    if room is None:
                        self.err(node, "slice end %d of a sequence of symbolic length" % h)
                    new_hi = base.lo + h if room >= 0 else base.hi
                return SeqV("family", var=base.var, lo=new_lo, hi=new_hi, elem=base.elem)
        if isinstance(base, SeqV) and base.kind == "seqmap" and base.seq is not None:
            # a map over a sequence, sliced: the map over the sliced sequence
            inner = self.slice(base.seq, lo, hi, node)
            if isinstance(inner, SeqV):
                return SeqV("seqmap", var=base.var, seq=inner, elem=base.elem)
        if isinstance(base, Opaque):
            return Opaque(("slice", base.path, cint(lo), cint(hi)))
        self.err(node, "slice of %r" % (base,))

    # -------------------------------------------------------------- comprehension
    def comprehension(self, node, env, kind):
        if len(node.generators) != 1:
            self.err(node, "nested comprehension generators")
        g = node.generators[0]
        it = self.eval(g.iter, env)
        seq = self.as_iterable(it, node)
        return self._comp_over(seq, node, g, env, kind)

    def _comp_over(self, seq, node, g, env, kind):
        sub = Env(parent=env, label=env.label)
        if isinstance(seq, SeqV) and seq.kind == "concat" and not g.ifs:
            # a comprehension over a concatenation is the concatenation of the comprehensions over its parts
            out = ListV([], "list")
            for p in seq.parts:
                out = seq_concat(out, self._comp_over(p, node, g, env, kind))
            return out
        if isinstance(seq, ListV) and len(seq.items) <= self.UNROLL_LIMIT:
            out = []
            for item in seq.items:
                self.assign(g.target, item, sub)
                ok = True
                for cnd in g.ifs:
                    t = self.truth(self.eval(cnd, sub))
                    if not isinstance(t, bool):
                        self.err(node, "symbolic comprehension filter")
                    ok = ok and t
                if ok:
                    out.append(self.eval(node.elt, sub))
            return ListV(out, "list" if kind == "list" else kind)
        if g.ifs:
            self.err(node, "filter in symbolic comprehension")
        if isinstance(seq, SeqV) and seq.kind == "guarded":
            # items present on some paths only: the comprehension of them is present on the same paths
            inner = self._comp_over(self.as_iterable(seq.part, node), node, g, env, kind)
            return SeqV("guarded", conds=list(seq.conds), part=inner)
        if isinstance(seq, SeqV) and seq.kind == "rowstrings":
            # one string per row of a chunked sequence: the same rows, each string mapped
            self.assign(g.target, StrV(seq.node), sub)
            self.event_stack.append([])
            try:
                elt = self.eval(node.elt, sub)
            finally:
                evs = self.event_stack.pop()
            if evs:
                self.log_event(("loop", evs))
            if not is_strlike(elt):
                self.err(node, "comprehension over row strings does not build strings")
            return SeqV("rowstrings", spec=seq.spec, node=to_node(elt))
        var, lo, hi, elemv, seqv = self.loop_binder(seq, node)
        self.assign(g.target, elemv, sub)
        self.event_stack.append([])
        elt = self.eval(node.elt, sub)
        evs = self.event_stack.pop()
        if evs:
            self.log_event(("loop", evs))
        if seqv is not None:
            return SeqV("seqmap", var=var, seq=seqv, elem=elt)
        return SeqV("family", var=var, lo=lo, hi=hi, elem=elt)

    def loop_binder(self, seq, node):
        """-> (var, lo, hi, element value, seq-or-None) for a symbolic iterable"""
        if isinstance(seq, SeqV):
            if seq.kind == "family":
                var = self.fresh_sym("i")
                elem = self.subst(seq.elem, {seq.var: ep.sym(var)})
                return var, seq.lo, seq.hi, elem, None
            if seq.kind == "opaque":
                var = self.fresh_sym("k")
                return var, ep.const(0), self.seq_len(seq), self.seq_elem(seq, ep.sym(var)), seq
            if seq.kind == "seqmap":
                var = self.fresh_sym("k")
                return var, ep.const(0), self.seq_len(seq), self.subst(seq.elem, {seq.var: ep.sym(var)}), seq.seq
        self.err(node, "iteration over %r" % (seq,))

    def as_iterable(self, v, node=None):
        """normalise an iterable value to ListV or SeqV"""
        if isinstance(v, (ListV, SeqV)):
            return v
        if isinstance(v, NTV):
            return ListV(v.values, "tuple")
        if isinstance(v, DictV):
            if getattr(v, "symkeys", False):
                self.err(node, "iteration over a dictionary whose keys may coincide (undecided key equality)")
            return ListV([k for k, _ in v.items.values()], "list")
        if isinstance(v, Opaque):
            return SeqV("opaque", path=v.path, elem_class=self.elem_classes.get(v.path))
        if isinstance(v, SortedV):
            return v
        if isinstance(v, LoopDictV):
            return SeqV("seqmap", var=v.var, seq=v.seq, elem=v.keyv)
        if isinstance(v, SetV):
            return v
        if isinstance(v, Const) and isinstance(v.v, str):
            return ListV([Const(ch) for ch in v.v], "list")
        self.err(node, "not iterable in the analysable subset: %r" % (v,))

    # -------------------------------------------------------------- calls
    def call(self, fn, args, kwargs, node=None, env=None):
        if isinstance(fn, FuncV):
            return self.call_function(fn, args, kwargs, node)
        if isinstance(fn, ClassV):
            return self.instantiate(fn.ci, args, kwargs, node)
        if isinstance(fn, LocalClassV):
            inst = InstV(fn.ci)
            inst.birth = len(self.path_conds)
            inst.closure = fn.closure
            init = fn.ci.lookup("__init__")
            if init is not None:
                self.call_function(FuncV(init, closure=fn.closure, selfv=inst), args, kwargs, node)
            return inst
        if isinstance(fn, NTClassV):
            vals = list(args)
            for f in fn.fields[len(vals):]:
                if f in kwargs:
                    vals.append(kwargs[f])
                elif f in getattr(fn, "defaults", {}):
                    vals.append(fn.defaults[f])
                else:
                    self.err(node, "namedtuple field %s missing" % f)
            if len(vals) != len(fn.fields) or any(k not in fn.fields for k in kwargs):
                self.err(node, "namedtuple %s constructed with wrong fields" % fn.name)
            return NTV(fn, vals)
        if isinstance(fn, ExtV):
            return self.call_external(fn, args, kwargs, node, env)
        if isinstance(fn, BoundBuiltin):
            if isinstance(fn.base, PyObjV):
                h = getattr(fn.base.obj, "m_" + fn.name)
                ig = modelguard.unread(h, args, kwargs)
                if ig is not None:
                    self.err(node, "model of %s.%s does not cover %s" % (type(fn.base.obj).__name__, fn.name, ig))
                return h(self, args, kwargs)
            return self.call_bound(fn, args, kwargs, node)
        if isinstance(fn, InstV):
            c = fn.ci.lookup("__call__")
            if c is None:
                if fn.label is not None:
                    return self.call(Opaque(fn.label), args, kwargs, node, env)
                self.err(node, "instance of %s is not callable" % fn.ci.name)
            clos = getattr(fn, "closure", None)
            return self.call_function(FuncV(c, closure=clos, selfv=fn), args, kwargs, node)
        if isinstance(fn, PyObjV) and hasattr(fn.obj, "m___call__"):
            ig = modelguard.unread(fn.obj.m___call__, args, kwargs)
            if ig is not None:
                self.err(node, "model of %s() does not cover %s" % (type(fn.obj).__name__, ig))
            return fn.obj.m___call__(self, args, kwargs)
        if isinstance(fn, Opaque):
            if kwargs:
                self.err(node, "keyword call of opaque callable")
            if not all(isinstance(a, (Num, Opaque, Phi, LookupV)) for a in args) or not args:
                self.log_event(("call", fn.path))
                return Opaque(("call", fn.path, tuple(a.key() if isinstance(a, V) else repr(a) for a in args)))
            nums = [self.num(a, node) for a in args]
            self.log_event(("eval", fn.path))
            pth = fn.path
            if isinstance(pth, tuple) and len(pth) == 3 and pth[0] == "attr" and pth[2] in ("deriv", "deriv2") and len(nums) == 1:
                # a user callable's own .deriv/.deriv2 denote its derivatives (its correctness is its author's obligation)
                return Num(ep.app(pth[1], nums, dorder=1 if pth[2] == "deriv" else 2))
            return Num(ep.app(pth, nums))
        if isinstance(fn, DerivV):
            return self.call_deriv(fn, args, node)
        if isinstance(fn, Num) and not fn.rf.df:
            # the result of calling an opaque object with numbers was taken for a number (f(r)); being called itself, it
            # was an object after all (spline.derivative(2)): it is the opaque result of that call
            st = fn.rf.n.single_term()
            if st is not None and st[1] == 1:
                fs = list(st[0].f)
                if len(fs) == 1 and isinstance(fs[0][0], ep.AppA) and fs[0][0].dorder == 0 and fs[0][1] == ep.ONE:
                    a = fs[0][0]
                    obj = Opaque(("call", a.fn, tuple(Num(x).key() for x in a.args)))
                    return self.call(obj, args, kwargs, node, env)
        if isinstance(fn, Unknown):
            self.log_event(("eval", ("unknown", fn.tag)))
            return Unknown(fn.tag + "()")
        if isinstance(fn, Phi):
            a = self.with_path(fn.cond, True, lambda: self.call(fn.a, args, kwargs, node, env))
            b = self.with_path(fn.cond, False, lambda: self.call(fn.b, args, kwargs, node, env))
            return make_phi(fn.cond, a, b)
        if isinstance(fn, (Const, ListV, DictV)) or (isinstance(fn, Num) and fn.const() is not None):
            raise RaiseSignal(ExcV(ExtV("builtins.TypeError"), [Const("object is not callable")]), node)
        self.err(node, "call of %r" % (fn,))

    def call_deriv(self, dv, args, node):
        """value of the order-th derivative of callable dv.f at args[0]"""
        f = dv.f
        x = self.num(args[0], node)
        if isinstance(f, Opaque):
            self.log_event(("eval", f.path))
            return Num(ep.app(f.path, [x], dorder=dv.order))
        # a repo callable: use its own analytic derivative when it offers one
        # (that derivative is checked against D by C07), else differentiate
        name = {1: "deriv", 2: "deriv2"}.get(dv.order)
        if name is not None:
            h = self.hasattr(f, name)
            if h is True:
                return self.call(self.getattr(f, name, node), [Num(x)], {}, node)
            if h is not False:
                self.err(node, "conditional %s on %r" % (name, f))
        # differentiate the lower-order value symbolically
        t = self.fresh_sym("t")
        lower = DerivV(f, dv.order - 1) if dv.order > 1 else f
        val = self.call(lower, [Num(ep.sym(t))], {}, node)
        d = ep.D(self.num(val, node), t)
        return Num(ep.substitute(d, {t: x}))

    def instantiate(self, ci, args, kwargs, node):
        # exception classes
        if self.is_exception_class(ci):
            return ExcV(ClassV(ci), args)
        inst = InstV(ci)
        inst.birth = len(self.path_conds)
        init = ci.lookup("__init__")
        deco = self.class_decorators(ci, node)
        if init is None and "dataclass" in deco:
            self.dataclass_init(ci, inst, deco["dataclass"], list(args), dict(kwargs), node)
        elif init is not None:
            self.call_function(FuncV(init, selfv=inst), args, kwargs, node)
        elif init is None and (args or kwargs) and all(isinstance(c, ClassInfo) or c.name.split(".")[-1] == "object" for c in ci.mro()) \
                and ci.lookup("__new__") is None:
            raise RaiseSignal(ExcV(ExtV("builtins.TypeError"), [Const("%s() takes no arguments" % ci.name)]), node)
        elif any(isinstance(c, ExternalClass) and c.name.endswith("partial") for c in ci.mro()):
            inst.attrs["func"] = args[0]
            inst.attrs["args"] = ListV(list(args[1:]), "tuple")
            d = DictV()
            for k, v in kwargs.items():
                d.items[Const(k).key()] = (Const(k), v)
            inst.attrs["keywords"] = d
        return inst

    def class_decorators(self, ci, node):
        """{'dataclass': keyword dict} for library class decorators that change construction; decorators defined in the
        package are ordinary calls applied when the module is imported; any other library decorator is refused"""
        out = {}
        for c in [x for x in ci.mro() if isinstance(x, ClassInfo)]:
            for d in c.node.decorator_list:
                f = d.func if isinstance(d, ast.Call) else d
                r = self.p.resolve_expr(c.module, f)
                name = getattr(r, "name", None) if type(r).__name__ == "External" else None
                if name is None:
                    continue                       # a decorator of the package itself
                if name.split(".")[-1] == "dataclass" and name.split(".")[0] == "dataclasses":
                    kw = {}
                    if isinstance(d, ast.Call):
                        if d.args:
                            self.err(node, "dataclass with positional arguments")
                        for k in d.keywords:
                            if not isinstance(k.value, ast.Constant):
                                self.err(node, "dataclass(%s=<expression>)" % k.arg)
                            kw[k.arg] = k.value.value
                    if c is ci or "dataclass" not in out:
                        out["dataclass"] = kw
                elif name.split(".")[-1] in ("total_ordering", "unique", "final", "runtime_checkable"):
                    continue                       # do not affect construction or attribute access
                else:
                    self.err(node, "class decorator %s of %s is not modelled" % (name, c.name))
        return out

    def dataclass_init(self, ci, inst, options, args, kwargs, node):
        """the __init__ dataclasses generates: one parameter per annotated class-level name, base classes first, in order,
        defaults from the class body; then __post_init__"""
        if options.get("init", True) is False:
            self.err(node, "dataclass(init=False)")
        fields = []
        for c in reversed([x for x in ci.mro() if isinstance(x, ClassInfo)]):
            for nm, default in c.ann_fields:
                fields = [f for f in fields if f[0] != nm] + [(nm, default, c)]
        pos = list(args)
        if len(pos) > len(fields):
            raise RaiseSignal(ExcV(ExtV("builtins.TypeError"), [Const("%s() takes %d positional arguments" % (ci.name, len(fields)))]), node)
        for i, (nm, default, c) in enumerate(fields):
            if i < len(pos):
                if nm in kwargs:
                    raise RaiseSignal(ExcV(ExtV("builtins.TypeError"), [Const("multiple values for %s" % nm)]), node)
                inst.attrs[nm] = pos[i]
            elif nm in kwargs:
                inst.attrs[nm] = kwargs.pop(nm)
            elif default is not None:
                if isinstance(default, ast.Call) and ast.unparse(default.func).split(".")[-1] == "field":
                    self.err(node, "dataclasses.field(...) defaults are not modelled")
                inst.attrs[nm] = self.eval(default, Env(module=c.module, label=c.fq))
            else:
                raise RaiseSignal(ExcV(ExtV("builtins.TypeError"), [Const("%s() missing argument %s" % (ci.name, nm))]), node)
        if kwargs:
            raise RaiseSignal(ExcV(ExtV("builtins.TypeError"), [Const("unexpected keyword %s" % sorted(kwargs))]), node)
        post = ci.lookup("__post_init__")
        if post is not None:
            self.call_function(FuncV(post, selfv=inst), [], {}, node)

    def is_exception_class(self, ci):
        for c in ci.mro():
            if isinstance(c, ExternalClass) and c.name.split(".")[-1] in ("Exception", "BaseException", "ValueError", "KeyError"):
                return True
        return False

    def _arity_error(self, fi, msg, node):
        # a call made by a check itself (no call site in the package) into a private helper with a call shape the helper
        # no longer has says nothing about the package: the check is out of date, not the code
        if node is None and fi.name.startswith("_") and not fi.name.startswith("__"):
            raise AnalysisError("the check calls the private helper %s with arguments it does not take (%s)" % (fi.fq, msg))
        raise RaiseSignal(ExcV(ExtV("builtins.TypeError"), [Const(msg)]), node)

    def bind_params(self, fv, args, kwargs, node):
        fi = fv.fi
        a = fi.node.args
        params = [x.arg for x in a.posonlyargs + a.args]
        defaults = list(a.defaults)
        env = Env(parent=fv.closure, module=fi.module, label=fi.fq)
        pos = list(args)
        if fv.selfv is not None:
            pos = [fv.selfv] + pos
        star = [x for x in pos if isinstance(x, tuple) and x[0] == "star"]
        if star:
            if a.vararg is None or len(pos) != len(params) + 1 or pos[-1] is not star[0]:
                # star value bound to fixed parameters: element-wise opaque
                sv = star[0][1]
                newpos = []
                for x in pos:
                    if x is star[0]:
                        need = len(params) - len(newpos) - (len(pos) - pos.index(x) - 1)
                        seq = self.as_iterable(sv, node)
                        for i in range(max(need, 0)):
                            newpos.append(self.seq_elem(seq, ep.const(i)) if isinstance(seq, SeqV) else seq.items[i])
                    else:
                        newpos.append(x)
                pos = newpos
                star = []
        ndef = len(defaults)
        for i, p in enumerate(params):
            if i < len(pos) and not (star and pos[i] is star[0]):
                env.vars[p] = pos[i]
            elif p in kwargs:
                env.vars[p] = kwargs.pop(p)
            else:
                di = i - (len(params) - ndef)
                if di < 0:
                    self._arity_error(fi, "%s() missing required argument %r" % (fi.qualname, p), node)
                denv = Env(parent=fv.closure, module=fi.module, label=fi.fq)
                env.vars[p] = self.eval(defaults[di], denv)
        extra = pos[len(params):]
        if a.vararg is not None:
            if star:
                env.vars[a.vararg.arg] = star[0][1] if isinstance(star[0][1], SeqV) else self.as_iterable(star[0][1], node)
            else:
                env.vars[a.vararg.arg] = ListV(extra, "tuple")
        elif extra:
            self._arity_error(fi, "%s() takes fewer positional arguments" % fi.qualname, node)
        for ko, kd in zip(a.kwonlyargs, a.kw_defaults):
            if ko.arg in kwargs:
                env.vars[ko.arg] = kwargs.pop(ko.arg)
            elif kd is not None:
                env.vars[ko.arg] = self.eval(kd, env)
            else:
                self.err(node, "missing keyword-only argument")
        if a.kwarg is not None:
            d = DictV()
            for k, v in kwargs.items():
                d.items[Const(k).key()] = (Const(k), v)
            env.vars[a.kwarg.arg] = d
        elif kwargs:
            self._arity_error(fi, "%s() got unexpected keyword arguments %s" % (fi.qualname, sorted(kwargs)), node)
        return env

    def call_function(self, fv, args, kwargs, node):
        fi = fv.fi
        hook = self.hooks.get(fi.fq)
        if hook is not None:
            r = hook(self, fv, args, dict(kwargs), node)
            if r is not NotImplemented:
                return r
        if self.depth >= self.MAX_DEPTH:
            self.err(node, "inlining depth exceeded at %s" % fi.fq)
        env = self.bind_params(fv, args, dict(kwargs), node)
        self.inlined.add(fi.fq)
        is_gen = any(isinstance(n, (ast.Yield, ast.YieldFrom)) for n in ast.walk(fi.node)
                     if n is not fi.node) and _has_own_yield(fi.node)
        self.depth += 1
        self.stack.append(env)
        try:
            if is_gen:
                return self.run_generator(fi, env, node)
            try:
                self.exec_block(strip_docstring_body(fi.node.body), env)
            except ReturnSignal as r:
                return r.value
            except RaiseSignal as e:
                if getattr(e, "where", None) is None:
                    e.where = "%s:%s %s" % (fi.module.relpath, getattr(e.node, "lineno", "?"), fi.qualname)
                raise
            return NONE
        finally:
            self.stack.pop()
            self.depth -= 1

    # -------------------------------------------------------------- strings
    def site(self, node):
        lab = self.stack[-1].label if self.stack else "?"
        m = self.stack[-1].find_module() if self.stack else None
        return "%s:%s %s" % (m.relpath if m is not None else "?", getattr(node, "lineno", "?"), lab.split(":")[-1])

    def make_field(self, f, val, node=None):
        conv = f.conv
        if is_strlike(val) and conv in ("s",) and f.width is None:
            return to_node(val)
        n = SFmt(conv, val, f.flags, f.width, f.prec)
        if node is not None:
            n.site = self.site(node)
        return n

    def printf(self, tmpl, arg, node):
        if not (isinstance(tmpl, Const) and isinstance(tmpl.v, str)):
            self.err(node, "printf with non-constant template %r" % (tmpl,))
        pieces = fmtmod.parse_printf(tmpl.v)
        fields = [p for p in pieces if isinstance(p, fmtmod.Field)]
        named = any(f.key is not None for f in fields)
        out = []
        if named:
            if not isinstance(arg, DictV):
                self.err(node, "named printf fields need a dict literal")
            for p in pieces:
                if isinstance(p, str):
                    out.append(SLit(p))
                else:
                    k = Const(p.key).key()
                    if k not in arg.items:
                        self.err(node, "printf key %r missing" % p.key)
                    out.append(self.make_field(p, arg.items[k][1], node))
        else:
            if isinstance(arg, ListV) and arg.kind == "tuple":
                vals = list(arg.items)
            elif isinstance(arg, BoundTupleOf):
                vals = arg.items
            else:
                vals = [arg]
            if len(vals) != len(fields):
                # tuple(l) of a chunk list is handled by the chunk idiom; anything else is an error at run time
                self.err(node, "printf arity mismatch: %d fields, %d values in %r" % (len(fields), len(vals), tmpl.v))
            it = iter(vals)
            for p in pieces:
                if isinstance(p, str):
                    out.append(SLit(p))
                else:
                    out.append(self.make_field(p, next(it), node))
        # all-constant result -> constant string
        if all(isinstance(o, SLit) for o in out):
            return Const("".join(o.text for o in out))
        folded = self.fold_const_fields(out)
        if folded is not None:
            return folded
        return StrV(SCat(out))

    def fold_const_fields(self, out):
        """if every field value is a concrete constant render it concretely"""
        txt = ""
        for o in out:
            if isinstance(o, SLit):
                txt += o.text
            elif isinstance(o, SFmt):
                v = o.value
                if isinstance(v, Const) and isinstance(v.v, str):
                    pv = v.v
                elif isinstance(v, Num) and v.const() is not None:
                    c = v.const()
                    pv = int(c) if c.denominator == 1 and o.conv in ("d", "s") else float(c)
                else:
                    return None
                try:
                    txt += (o.spec() % pv)
                except Exception:
                    return None
            else:
                return None
        return Const(txt)

    def str_format(self, tmpl, args, kwargs, node):
        if not (isinstance(tmpl, Const) and isinstance(tmpl.v, str)):
            self.err(node, "format with non-constant template")
        pieces = fmtmod.parse_format(tmpl.v)
        out = []
        for p in pieces:
            if isinstance(p, str):
                out.append(SLit(p))
            else:
                if isinstance(p.key, int):
                    if p.key >= len(args):
                        self.err(node, "format index %d out of range" % p.key)
                    val = args[p.key]
                else:
                    if p.key not in kwargs:
                        self.err(node, "format key %r missing" % p.key)
                    val = kwargs[p.key]
                out.append(self.make_field(p, val, node))
        if all(isinstance(o, SLit) for o in out):
            return Const("".join(o.text for o in out))
        return StrV(SCat(out))

    def _concat_all(self, seq, node):
        """output tree of ''.join(seq) for lists built by appends in (nested) loops"""
        if isinstance(seq, ListV):
            parts = [to_node(i) for i in seq.items]
            for t in (getattr(seq, "tail", None) or []):
                parts.append(self._concat_all(t, node))
            return SCat(parts)
        if isinstance(seq, SeqV) and seq.kind == "concat":
            return SCat([self._concat_all(p, node) for p in seq.parts])
        if isinstance(seq, SeqV) and seq.kind == "nested":
            body = SCat([self._concat_all(p, node) for p in seq.parts])
            if seq.seq is not None:
                return SSeqRep(seq.var, seq.seq.key(), body)
            return SRep(seq.var, seq.lo, seq.hi, body)
        if isinstance(seq, SeqV) and seq.kind in ("family", "seqmap"):
            var, lo, hi, elem, sv = self.loop_binder(seq, node)
            body = to_node(elem)
            return SSeqRep(var, sv.key(), body) if sv is not None else SRep(var, lo, hi, body)
        if isinstance(seq, SeqV) and seq.kind == "rowstrings":
            return self.rows_chunk(seq.spec, seq.node, node)
        if isinstance(seq, SeqV) and seq.kind == "guarded":
            nd = self._concat_all(seq.part, node)
            for c, v in reversed(seq.conds):
                nd = SAlt(c, nd, SLit("")) if v else SAlt(c, SLit(""), nd)
            return nd
        self.err(node, "join over %r" % (seq,))

    def _has_guarded(self, seq):
        if isinstance(seq, SeqV):
            if seq.kind == "guarded":
                return True
            return any(self._has_guarded(p) for p in getattr(seq, "parts", []) or [])
        if isinstance(seq, ListV):
            return any(self._has_guarded(t) for t in (getattr(seq, "tail", None) or []))
        return False

    def join(self, sep, seq, node):
        if not (isinstance(sep, Const) and isinstance(sep.v, str)):
            sepn = to_node(sep)
        else:
            sepn = SLit(sep.v)
        seq = seq if isinstance(seq, ChunkListV) else self.as_iterable(seq, node)
        if isinstance(sepn, SLit) and sepn.text == "" and isinstance(seq, SeqV) and seq.kind in ("concat", "nested", "rowstrings"):
            return StrV(self._concat_all(seq, node))
        if isinstance(seq, ListV):
            if all(isinstance(i, Const) and isinstance(i.v, str) for i in seq.items) and isinstance(sepn, SLit):
                return Const(sepn.text.join(i.v for i in seq.items))
            parts = []
            for i, it in enumerate(seq.items):
                if i:
                    parts.append(sepn)
                parts.append(to_node(it))
            return StrV(SCat(parts))
        if isinstance(seq, ChunkListV):
            return StrV(SJoinItems(sepn, seq))
        if isinstance(seq, SeqV) and seq.kind == "concat":
            first = seq.parts[0]
            if not (isinstance(first, ListV) and first.items):
                self.err(node, "join over a concatenation that starts with a symbolic part")
            parts = [to_node(self.join(sep, first, node))]
            for part in seq.parts[1:]:
                if isinstance(part, ListV):
                    for it in part.items:
                        parts.append(sepn)
                        parts.append(to_node(it))
                elif isinstance(part, SeqV) and part.kind in ("family", "seqmap"):
                    var, lo, hi, elem, sv = self.loop_binder(part, node)
                    body = SCat([sepn, to_node(elem)])
                    parts.append(SSeqRep(var, sv.key(), body) if sv is not None else SRep(var, lo, hi, body))
                else:
                    self.err(node, "join over %r" % (part,))
            return StrV(SCat(parts))
        if isinstance(seq, SeqV) and seq.kind in ("family", "seqmap"):
            var, lo, hi, elem, sv = self.loop_binder(seq, node)
            if isinstance(sepn, SLit) and sepn.text == "":
                body = to_node(elem)
                return StrV(SSeqRep(var, sv.key(), body) if sv is not None else SRep(var, lo, hi, body))
            return StrV(SJoin(sepn, var, lo, hi, sv, to_node(elem)))
        if isinstance(seq, SortedV) and len(seq.items) == 1:
            return self.join(sep, ListV(list(seq.items), "list"), node)
        if isinstance(seq, SortedV) and len(seq.items) == 2 and all(is_strlike(i) or isinstance(i, Opaque) for i in seq.items):
            # two texts in sorted order: the first written first when it does not sort after the second
            a, b = seq.items
            if a.key() == b.key():
                return self.join(sep, ListV([a, b], "list"), node)
            cond = Cond("sorts-not-after", a, b)
            r = self.assume(cond)
            fwd = self.join(sep, ListV([a, b], "list"), node)
            rev = self.join(sep, ListV([b, a], "list"), node)
            if isinstance(r, bool):
                return fwd if r else rev
            return StrV(SAlt(cond, to_node(fwd), to_node(rev)))
        self.err(node, "join over %r" % (seq,))


def _concat_all_doc():
    """''.join(xs) for a list built by (nested) loops is the concatenation of its pieces, loop by loop"""


class _MappingView(object):
    def __init__(self, obj, what):
        self.obj, self.what = obj, what

    def m___call__(self, I, args, kwargs):
        if args or kwargs:
            raise AnalysisError("%s() takes no arguments" % self.what)
        keys = list(self.obj.iter_items(I))
        if self.what == "keys":
            return ListV(keys, "list")
        vals = [self.obj.getitem(I, k) for k in keys]
        if self.what == "values":
            return ListV(vals, "list")
        return ListV([ListV([k, v], "tuple") for k, v in zip(keys, vals)], "list")


class StaticV(V):
    """staticmethod(f) as a value (class attribute): attribute access hands out f itself"""
    def __init__(self, fn):
        self.fn = fn

    def key(self):
        return ("staticmethod", self.fn.key())


class ClassMethodV(V):
    def __init__(self, fn):
        self.fn = fn

    def key(self):
        return ("classmethod", self.fn.key())


class PartialV(object):
    """functools.partial(f, *args, **kwargs): calling it calls f with the frozen arguments first"""
    def __init__(self, fn, args, kwargs):
        self.fn, self.args, self.kwargs = fn, list(args), dict(kwargs)

    def m___call__(self, I, args, kwargs):
        kw = dict(self.kwargs)
        kw.update(kwargs)
        return I.call(self.fn, self.args + list(args), kw)

    def get_func(self, I):
        return self.fn


class AttrGetter(object):
    """operator.attrgetter(name) / operator.itemgetter(i)"""
    def __init__(self, kind, what):
        self.kind, self.what = kind, what

    def m___call__(self, I, args, kwargs):
        if kwargs or len(args) != 1:
            raise AnalysisError("operator.%sgetter object called with %d arguments" % (self.kind, len(args)))
        if self.kind == "attr":
            v = args[0]
            for part in self.what.split("."):
                v = I.getattr(v, part)
            return v
        return I.getitem(args[0], self.what)


class BoundTupleOf(V):
    def __init__(self, items):
        self.items = items

    def key(self):
        return ("tupleof",) + tuple(i.key() for i in self.items)


class ChunkListV(V):
    """the row buffer of the chunk idiom while it is being filled"""
    def __init__(self, spec):
        self.spec = spec

    def key(self):
        return ("chunklist", id(self))

    def __repr__(self):
        return "<chunk row buffer>"


class SJoin(SNode):
    def __init__(self, sep, var, lo, hi, seq, body):
        self.sep = sep
        self.var = var
        self.lo = lo
        self.hi = hi
        self.seq = seq
        self.body = body

    def __repr__(self):
        return "JOIN[%r; %s in %r..%r)(%r)" % (self.sep, self.var, self.lo, self.hi, self.body)


class SJoinItems(SNode):
    def __init__(self, sep, chunk):
        self.sep = sep
        self.chunk = chunk

    def __repr__(self):
        return "JOINROW[%r]" % (self.sep,)


def strip_docstring_body(body):
    if body and isinstance(body[0], ast.Expr) and isinstance(body[0].value, ast.Constant) \
            and isinstance(body[0].value.value, str):
        return body[1:]
    return body


def _has_own_yield(fnode):
    """yield directly in this function (not in nested defs)"""
    def walk(n):
        for c in ast.iter_child_nodes(n):
            if isinstance(c, (ast.FunctionDef, ast.Lambda, ast.ClassDef)):
                continue
            if isinstance(c, (ast.Yield, ast.YieldFrom)):
                return True
            if walk(c):
                return True
        return False
    return walk(fnode)

import importlib
import sys

from .report import run_check

LEVELS = {"C06": "proof", "C07": "proof", "C08": "proof"}


def main(argv):
    if not argv:
        print("usage: ./check <ID> [--tier quick|thorough] [--replay path]")
        return 2
    pid = argv[0].upper()
    try:
        mod = importlib.import_module("sa.props.%s" % pid.lower())
    except Exception as e:
        print("ANALYSIS-ERROR property=%s checker module could not be loaded: %r" % (pid, e))
        return 2
    return run_check(pid, mod.run, LEVELS.get(pid, "other"), argv[1:])


if __name__ == "__main__":
    sys.exit(main(sys.argv[1:]))

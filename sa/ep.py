"""E-EP: exp-polynomial normal form (exact rational arithmetic).

Values are rational functions N/D of *Laurent polynomials with symbolic
exponents* over atoms:

  Sym(name)                      a symbol
  ExpA(P)                        exp of a polynomial P without constant term
                                 (always exponent 1 inside a monomial: products
                                 and powers of exps are merged into the argument)
  LogA(v)                        log of a value
  AppA(fn, order, args)          order-th derivative of the opaque unary/n-ary
                                 callable ``fn`` applied to ``args``
  BaseA(P)                       a multi-term polynomial used as the base of a
                                 non-integer power

Coefficients are exact Fractions (decimal literals are parsed exactly from
their source text).  The only inexact step is *comparison*: two values are equal
when their cross-multiplied numerators have the same monomials and the
coefficients agree to a relative tolerance (default 1e-9), and two exp/base
arguments are identified when they agree to that tolerance (tolerant
interning).  Differentiation is syntax-directed.
"""
import math
from fractions import Fraction

TOL = Fraction(1, 10 ** 9)


class Unsupported(Exception):
    """Expression outside the normal-form class (reported as ANALYSIS-ERROR)."""


def frac(x):
    if isinstance(x, Fraction):
        return x
    if isinstance(x, bool):
        return Fraction(int(x))
    if isinstance(x, int):
        return Fraction(x)
    if isinstance(x, float):
        if x != x or x in (float("inf"), float("-inf")):
            raise Unsupported("non-finite constant %r" % x)
        # repr() is the shortest decimal that round-trips: parse that exactly,
        # so 0.1 is 1/10 and not 3602879701896397/36028797018963968.
        return Fraction(repr(x))
    if isinstance(x, str):
        return Fraction(x)
    raise Unsupported("not a number: %r" % (x,))


# ---------------------------------------------------------------------------
# atoms

class Atom(object):
    __slots__ = ("_h",)
    order = 0

    def sort_key(self):
        return (self.order, self._skey())


class Sym(Atom):
    __slots__ = ("name",)
    order = 0

    def __init__(self, name):
        self.name = name
        self._h = hash(("Sym", name))

    def __eq__(self, o):
        return isinstance(o, Sym) and o.name == self.name

    def __hash__(self):
        return self._h

    def _skey(self):
        return self.name

    def __repr__(self):
        return self.name


class ExpA(Atom):
    __slots__ = ("arg",)
    order = 3

    def __init__(self, arg):
        self.arg = arg  # Poly (interned)
        self._h = hash(("Exp", arg))

    def __eq__(self, o):
        return isinstance(o, ExpA) and o.arg == self.arg

    def __hash__(self):
        return self._h

    def _skey(self):
        return repr(self.arg)

    def __repr__(self):
        return "exp(%r)" % (self.arg,)


class LogA(Atom):
    __slots__ = ("arg",)
    order = 2

    def __init__(self, arg):
        self.arg = arg  # RF
        self._h = hash(("Log", arg))

    def __eq__(self, o):
        return isinstance(o, LogA) and o.arg == self.arg

    def __hash__(self):
        return self._h

    def _skey(self):
        return repr(self.arg)

    def __repr__(self):
        return "log(%r)" % (self.arg,)


class AppA(Atom):
    __slots__ = ("fn", "dorder", "args")
    order = 1

    def __init__(self, fn, dorder, args):
        self.fn = fn
        self.dorder = dorder
        self.args = tuple(args)
        self._h = hash(("App", fn, dorder, self.args))

    def __eq__(self, o):
        return isinstance(o, AppA) and o.fn == self.fn and o.dorder == self.dorder and o.args == self.args

    def __hash__(self):
        return self._h

    def _skey(self):
        return "%s%s%r" % (self.fn, "'" * self.dorder, self.args)

    def __repr__(self):
        return "%s%s(%s)" % (self.fn, "'" * self.dorder, ", ".join(repr(a) for a in self.args))


class BaseA(Atom):
    __slots__ = ("arg",)
    order = 4

    def __init__(self, arg):
        self.arg = arg  # Poly
        self._h = hash(("Base", arg))

    def __eq__(self, o):
        return isinstance(o, BaseA) and o.arg == self.arg

    def __hash__(self):
        return self._h

    def _skey(self):
        return repr(self.arg)

    def __repr__(self):
        return "(%r)" % (self.arg,)


# ---------------------------------------------------------------------------
# monomials and polynomials

class Mono(object):
    """Product of atom ** exponent; exponents are Polys (usually constants)."""
    __slots__ = ("f", "_h")

    def __init__(self, factors):
        # factors: dict atom -> Poly exponent (non-zero)
        self.f = frozenset(factors.items())
        self._h = hash(self.f)

    def __eq__(self, o):
        return isinstance(o, Mono) and o.f == self.f

    def __hash__(self):
        return self._h

    def items(self):
        return sorted(self.f, key=lambda kv: kv[0].sort_key())

    def as_dict(self):
        return dict(self.f)

    def is_one(self):
        return not self.f

    def __repr__(self):
        if not self.f:
            return "1"
        out = []
        for a, e in self.items():
            c = e.as_const()
            if c == 1:
                out.append(repr(a))
            elif c is not None:
                out.append("%r^%s" % (a, _fmt_frac(c)))
            else:
                out.append("%r^(%r)" % (a, e))
        return "*".join(out)


ONE_MONO = Mono({})


def _fmt_frac(c):
    if c.denominator == 1:
        return str(c.numerator)
    f = float(c)
    if Fraction(repr(f)) == c and len(repr(f)) < 22:
        return repr(f)
    return "%.15g" % f


class Poly(object):
    __slots__ = ("t", "_h")

    def __init__(self, terms):
        self.t = dict((m, c) for m, c in terms.items() if c != 0)
        self._h = None

    def __hash__(self):
        if self._h is None:
            self._h = hash(frozenset(self.t.items()))
        return self._h

    def __eq__(self, o):
        return isinstance(o, Poly) and o.t == self.t

    def is_zero(self):
        return not self.t

    def as_const(self):
        if not self.t:
            return Fraction(0)
        if len(self.t) == 1 and ONE_MONO in self.t:
            return self.t[ONE_MONO]
        return None

    def const_term(self):
        return self.t.get(ONE_MONO, Fraction(0))

    def single_term(self):
        if len(self.t) == 1:
            (m, c), = self.t.items()
            return m, c
        return None

    def __add__(self, o):
        d = dict(self.t)
        for m, c in o.t.items():
            d[m] = d.get(m, 0) + c
        return Poly(d)

    def __neg__(self):
        return Poly(dict((m, -c) for m, c in self.t.items()))

    def __sub__(self, o):
        return self + (-o)

    def scale(self, k):
        k = frac(k)
        return Poly(dict((m, c * k) for m, c in self.t.items()))

    def __mul__(self, o):
        d = {}
        for m1, c1 in self.t.items():
            for m2, c2 in o.t.items():
                m, k = mono_mul(m1, m2)
                d[m] = d.get(m, 0) + c1 * c2 * k
        return Poly(d)

    def atoms(self):
        s = set()
        for m in self.t:
            for a, e in m.f:
                s.add(a)
                s |= e.atoms()
        return s

    def sorted_terms(self):
        return sorted(self.t.items(), key=lambda mc: repr(mc[0]))

    def __repr__(self):
        if not self.t:
            return "0"
        out = []
        for m, c in self.sorted_terms():
            if m.is_one():
                out.append(_fmt_frac(c))
            elif c == 1:
                out.append(repr(m))
            elif c == -1:
                out.append("-" + repr(m))
            else:
                out.append("%s*%r" % (_fmt_frac(c), m))
        return " + ".join(out).replace("+ -", "- ")


ZERO = Poly({})
ONE = Poly({ONE_MONO: Fraction(1)})


def pconst(c):
    return Poly({ONE_MONO: frac(c)})


def patom(a, e=None):
    return Poly({Mono({a: e if e is not None else ONE}): Fraction(1)})


def mono_mul(m1, m2):
    """-> (Mono, Fraction factor).  Merges exponents; merges exp atoms."""
    if m1.is_one():
        return m2, Fraction(1)
    if m2.is_one():
        return m1, Fraction(1)
    d = m1.as_dict()
    exp_arg = None
    for a, e in list(d.items()):
        if isinstance(a, ExpA):
            exp_arg = a.arg
            del d[a]
    for a, e in m2.f:
        if isinstance(a, ExpA):
            exp_arg = a.arg if exp_arg is None else exp_arg + a.arg
            continue
        if a in d:
            ne = d[a] + e
            if ne.is_zero():
                del d[a]
            else:
                d[a] = ne
        else:
            d[a] = e
    k = Fraction(1)
    if exp_arg is not None and not exp_arg.is_zero():
        ea, k = make_exp_atom(exp_arg)
        if ea is not None:
            d[ea] = ONE
    return Mono(d), k


# ---------------------------------------------------------------------------
# tolerant interning of polynomial arguments of ExpA / BaseA

_INTERN = {}


def reset_interning():
    _INTERN.clear()


def _close(a, b, tol=TOL):
    if a == b:
        return True
    m = max(abs(a), abs(b))
    return abs(a - b) <= tol * m


def intern_poly(p):
    """Return a representative Poly equal to p within TOL (same monomials)."""
    shape = frozenset(p.t.keys())
    reps = _INTERN.setdefault(shape, [])
    for r in reps:
        if all(_close(r.t[m], c) for m, c in p.t.items()):
            return r
    reps.append(p)
    return p


def make_exp_atom(arg):
    """exp(arg) -> (atom or None, numeric factor)."""
    c = arg.const_term()
    k = Fraction(1)
    if c != 0:
        k = frac(math.exp(float(c)))
        arg = arg - pconst(c)
    if arg.is_zero():
        return None, k
    return ExpA(intern_poly(arg)), k


# ---------------------------------------------------------------------------
# rational functions

class RF(object):
    __slots__ = ("n", "d", "_h")

    def __init__(self, n, d=None):
        if d is None:
            d = ONE
        if d.is_zero():
            raise Unsupported("division by zero in normal form")
        st = d.single_term()
        if st is not None:
            m, c = st
            inv = Mono(dict((a, -e) for a, e in m.f))
            # exp atoms in a denominator: negate the argument instead
            fd = {}
            k = Fraction(1)
            for a, e in inv.f:
                if isinstance(a, ExpA):
                    ea, kk = make_exp_atom(-a.arg)
                    k *= kk
                    if ea is not None:
                        fd[ea] = ONE
                else:
                    fd[a] = e
            n = n * Poly({Mono(fd): k / c})
            d = ONE
        else:
            # normalise: leading coefficient of d is 1
            lead = d.sorted_terms()[0][1]
            if lead != 1:
                n = n.scale(1 / lead)
                d = d.scale(1 / lead)
        self.n = n
        self.d = d
        self._h = None

    def __hash__(self):
        if self._h is None:
            self._h = hash((self.n, self.d))
        return self._h

    def __eq__(self, o):
        return isinstance(o, RF) and o.n == self.n and o.d == self.d

    def __add__(self, o):
        o = rf(o)
        if self.d == o.d:
            return RF(self.n + o.n, self.d)
        return RF(self.n * o.d + o.n * self.d, self.d * o.d)

    __radd__ = __add__

    def __neg__(self):
        return RF(-self.n, self.d)

    def __sub__(self, o):
        return self + (-rf(o))

    def __rsub__(self, o):
        return rf(o) - self

    def __mul__(self, o):
        o = rf(o)
        return RF(self.n * o.n, self.d * o.d)

    __rmul__ = __mul__

    def __truediv__(self, o):
        o = rf(o)
        if o.n.is_zero():
            raise Unsupported("division by zero")
        return RF(self.n * o.d, self.d * o.n)

    def __rtruediv__(self, o):
        return rf(o) / self

    def __pow__(self, e):
        return pow_(self, rf(e))

    def is_zero(self):
        return self.n.is_zero()

    def as_const(self):
        if self.d == ONE:
            return self.n.as_const()
        return None

    def atoms(self):
        return self.n.atoms() | self.d.atoms()

    def depends_on(self, name):
        return depends_on(self, name)

    def __repr__(self):
        if self.d == ONE:
            return repr(self.n)
        return "(%r)/(%r)" % (self.n, self.d)


def rf(x):
    if isinstance(x, RF):
        return x
    if isinstance(x, Poly):
        return RF(x)
    return RF(pconst(x))


def const(x):
    return RF(pconst(x))


def sym(name):
    return RF(patom(Sym(name)))


def app(fn, args, dorder=0):
    return RF(patom(AppA(fn, dorder, tuple(rf(a) for a in args))))


def exp_(x):
    x = rf(x)
    if x.d != ONE:
        raise Unsupported("exp of a genuine rational function: %r" % (x,))
    a, k = make_exp_atom(x.n)
    if a is None:
        return const(k)
    return RF(Poly({Mono({a: ONE}): k}))


def log_(x):
    x = rf(x)
    c = x.as_const()
    if c is not None:
        if c <= 0:
            raise Unsupported("log of non-positive constant")
        return const(math.log(float(c)))
    # log(exp(P)) = P
    st = x.n.single_term() if x.d == ONE else None
    if st is not None:
        m, c = st
        if c == 1 and len(m.f) == 1:
            (a, e), = m.f
            if isinstance(a, ExpA) and e == ONE:
                return RF(a.arg)
    return RF(patom(LogA(x)))


def sqrt_(x):
    return pow_(rf(x), const(Fraction(1, 2)))


def _numpow(c, e):
    """c ** e for Fractions, exact when possible."""
    if e.denominator == 1:
        n = e.numerator
        if c == 0 and n < 0:
            raise Unsupported("0 ** negative")
        return c ** n
    if c < 0:
        raise Unsupported("negative base with fractional exponent")
    if c == 1 or c == 0:
        return c
    # exact roots of perfect powers
    r = _exact_root(c, e)
    if r is not None:
        return r
    return frac(float(c) ** float(e))


def _exact_root(c, e):
    q = e.denominator
    def iroot(n):
        if n < 0:
            return None
        x = round(n ** (1.0 / q))
        for y in (x - 1, x, x + 1):
            if y >= 0 and y ** q == n:
                return y
        return None
    a, b = iroot(c.numerator), iroot(c.denominator)
    if a is None or b is None:
        return None
    return Fraction(a, b) ** e.numerator


def pow_(base, e):
    base, e = rf(base), rf(e)
    ec = e.as_const()
    if ec is not None and ec.denominator == 1:
        n = ec.numerator
        if n == 0:
            return const(1)
        if n < 0:
            return pow_(const(1) / base, const(-n))
        # integer power by squaring
        result = const(1)
        b = base
        while n:
            if n & 1:
                result = result * b
            b = b * b if n > 1 else b
            n >>= 1
        return result
    if e.d != ONE:
        raise Unsupported("rational-function exponent")
    epoly = e.n
    bc = base.as_const()
    if bc is not None:
        if ec is not None:
            return const(_numpow(bc, ec))
        if bc == 1:
            return const(1)
        if bc <= 0:
            raise Unsupported("non-positive constant base with symbolic exponent")
        # c ** e = exp(e log c)
        return exp_(RF(epoly.scale(frac(math.log(float(bc))))))
    if base.d != ONE:
        return pow_(RF(base.n), e) / pow_(RF(base.d), e)
    st = base.n.single_term()
    if st is not None:
        m, c = st
        if ec is not None:
            k = _numpow(c, ec)
        elif c == 1:
            k = Fraction(1)
        else:
            raise Unsupported("coefficient %s with symbolic exponent" % c)
        fd = {}
        kk = Fraction(1)
        for a, ex in m.f:
            if isinstance(a, ExpA):
                ea, k2 = make_exp_atom(a.arg * epoly)
                kk *= k2
                if ea is not None:
                    fd[ea] = ONE
            else:
                ne = ex * epoly
                if not ne.is_zero():
                    fd[a] = ne
        return RF(Poly({Mono(fd): k * kk}))
    # multi-term base, non-integer exponent
    p = base.n
    lead = p.sorted_terms()[0][1]
    k = Fraction(1)
    if lead != 1 and ec is not None and (lead > 0 or ec.denominator == 1):
        k = _numpow(lead, ec)
        p = p.scale(1 / lead)
    elif lead != 1 and ec is None:
        pass
    a = BaseA(intern_poly(p))
    return RF(Poly({Mono({a: epoly}): k}))


# ---------------------------------------------------------------------------
# differentiation

def depends_on(x, name):
    if isinstance(x, RF):
        return depends_on(x.n, name) or depends_on(x.d, name)
    if isinstance(x, Poly):
        for m in x.t:
            for a, e in m.f:
                if atom_depends(a, name) or depends_on(e, name):
                    return True
        return False
    raise TypeError(x)


def atom_depends(a, name):
    if isinstance(a, Sym):
        return a.name == name
    if isinstance(a, (ExpA, BaseA)):
        return depends_on(a.arg, name)
    if isinstance(a, LogA):
        return depends_on(a.arg, name)
    if isinstance(a, AppA):
        return any(depends_on(x, name) for x in a.args)
    raise TypeError(a)


def d_atom(a, name):
    """derivative of the atom itself -> RF"""
    if isinstance(a, Sym):
        return const(1) if a.name == name else const(0)
    if isinstance(a, ExpA):
        return D(RF(a.arg), name) * RF(patom(a))
    if isinstance(a, BaseA):
        return D(RF(a.arg), name)
    if isinstance(a, LogA):
        return D(a.arg, name) / a.arg
    if isinstance(a, AppA):
        dep = [i for i, x in enumerate(a.args) if depends_on(x, name)]
        if not dep:
            return const(0)
        if len(a.args) != 1:
            raise Unsupported("derivative of opaque n-ary application %r" % (a,))
        inner = D(a.args[0], name)
        return RF(patom(AppA(a.fn, a.dorder + 1, a.args))) * inner
    raise TypeError(a)


def D(x, name="r"):
    x = rf(x)
    if x.d != ONE:
        dn = _dpoly(x.n, name)
        dd = _dpoly(x.d, name)
        return (dn * RF(x.d) - RF(x.n) * dd) / (RF(x.d) * RF(x.d))
    return _dpoly(x.n, name)


def _dpoly(p, name):
    total = const(0)
    for m, c in p.t.items():
        items = list(m.f)
        for i, (a, e) in enumerate(items):
            a_dep = atom_depends(a, name)
            e_dep = depends_on(e, name)
            if not a_dep and not e_dep:
                continue
            rest = Mono(dict(items[:i] + items[i + 1:]))
            rest_rf = RF(Poly({rest: c}))
            term = const(0)
            if a_dep:
                # e * a' * a^(e-1)
                da = d_atom(a, name)
                em1 = e - ONE
                am = RF(Poly({Mono({a: em1}): Fraction(1)})) if not em1.is_zero() else const(1)
                term = term + RF(e) * da * am
            if e_dep:
                # e' * log(a) * a^e
                de = D(RF(e), name)
                term = term + de * log_(RF(patom(a))) * RF(Poly({Mono({a: e}): Fraction(1)}))
            total = total + rest_rf * term
    return total


# ---------------------------------------------------------------------------
# substitution / evaluation

def substitute(x, env):
    """Replace symbols (by name) with RF values; rebuilds through the
    constructors so the result is again in normal form."""
    x = rf(x)
    if x.d == ONE:
        return _subst_poly(x.n, env)
    return _subst_poly(x.n, env) / _subst_poly(x.d, env)


def _subst_poly(p, env):
    total = const(0)
    for m, c in p.t.items():
        term = const(c)
        for a, e in m.f:
            ev = _subst_poly(e, env)
            av = _subst_atom(a, env)
            term = term * pow_(av, ev)
        total = total + term
    return total


def _subst_atom(a, env):
    if isinstance(a, Sym):
        v = env.get(a.name)
        return rf(v) if v is not None else RF(patom(a))
    if isinstance(a, ExpA):
        return exp_(_subst_poly(a.arg, env))
    if isinstance(a, BaseA):
        return _subst_poly(a.arg, env)
    if isinstance(a, LogA):
        return log_(substitute(a.arg, env))
    if isinstance(a, AppA):
        fnv = env.get(("fn", a.fn, a.dorder))
        args = [substitute(x, env) for x in a.args]
        if fnv is not None:
            return fnv(*args)
        return RF(patom(AppA(a.fn, a.dorder, args)))
    raise TypeError(a)


# ---------------------------------------------------------------------------
# comparison

def poly_close(p, q, tol=TOL):
    """-> (ok, detail)"""
    keys = set(p.t) | set(q.t)
    scale = max([abs(c) for c in p.t.values()] + [abs(c) for c in q.t.values()] + [Fraction(0)])
    for m in keys:
        a = p.t.get(m, Fraction(0))
        b = q.t.get(m, Fraction(0))
        if a == b:
            continue
        if a != 0 and b != 0:
            if not _close(a, b, tol):
                return False, "coefficient of %r differs: %s vs %s" % (m, _fmt_frac(a), _fmt_frac(b))
        else:
            return False, "term %s*%r present on one side only" % (_fmt_frac(a if a != 0 else b), m)
    return True, ""


def equal(a, b, tol=TOL):
    """Tolerant equality of two values -> (ok, detail)."""
    a, b = rf(a), rf(b)
    if a.d == b.d:
        return poly_close(a.n, b.n, tol)
    return poly_close(a.n * b.d, b.n * a.d, tol)


def is_zero(a, tol=TOL):
    return equal(a, const(0), tol)[0]


def nterms(a):
    a = rf(a)
    return len(a.n.t) + (len(a.d.t) if a.d != ONE else 0)

"""E-EP: exp-polynomial normal form (exact rational arithmetic).

Values are rational functions N/D of *Laurent polynomials with symbolic
exponents* over atoms:

  Sym(name)                      a symbol
  ExpA(P)                        exp of a polynomial P without constant term
                                 (always exponent 1 inside a monomial: products
                                 and powers of exps are merged into the argument)
  LogA(v)                        log of a value
  AppA(fn, order, args)          order-th derivative of the opaque unary/n-ary
                                 callable ``fn`` applied to ``args``
  BaseA(P)                       a multi-term polynomial used as the base of a
                                 non-integer power

Coefficients are exact Fractions (decimal literals are parsed exactly from
their source text).  The only inexact step is *comparison*: two values are equal
when their cross-multiplied numerators have the same monomials and the
coefficients agree to a relative tolerance (default 1e-9), and two exp/base
arguments are identified when they agree to that tolerance (tolerant
interning).  Differentiation is syntax-directed.
"""
import math
from fractions import Fraction

TOL = Fraction(1, 10 ** 9)


class Unsupported(Exception):
    """Expression outside the normal-form class (reported as ANALYSIS-ERROR)."""


def frac(x):
    if isinstance(x, Fraction):
        return x
    if isinstance(x, bool):
        return Fraction(int(x))
    if isinstance(x, int):
        return Fraction(x)
    if isinstance(x, float):
        if x != x or x in (float("inf"), float("-inf")):
            raise Unsupported("non-finite constant %r" % x)
        # repr() is the shortest decimal that round-trips: parse that exactly,
        # so 0.1 is 1/10 and not 3602879701896397/36028797018963968.
        return Fraction(repr(x))
    if isinstance(x, str):
        return Fraction(x)
    raise Unsupported("not a number: %r" % (x,))


# ---------------------------------------------------------------------------
# atoms

class Atom(object):
    __slots__ = ("_h",)
    order = 0

    def sort_key(self):
        return (self.order, self._skey())


class Sym(Atom):
    __slots__ = ("name",)
    order = 0

    def __init__(self, name):
        self.name = name
        self._h = hash(("Sym", name))

    def __eq__(self, o):
        return isinstance(o, Sym) and o.name == self.name

    def __hash__(self):
        return self._h

    def _skey(self):
        return self.name

    def __repr__(self):
        return self.name


class ExpA(Atom):
    __slots__ = ("arg",)
    order = 3

    def __init__(self, arg):
        self.arg = arg  # Poly (interned)
        self._h = hash(("Exp", arg))

    def __eq__(self, o):
        return isinstance(o, ExpA) and o.arg == self.arg

    def __hash__(self):
        return self._h

    def _skey(self):
        return repr(self.arg)

    def __repr__(self):
        return "exp(%r)" % (self.arg,)


class LogA(Atom):
    __slots__ = ("arg",)
    order = 2

    def __init__(self, arg):
        self.arg = arg  # RF
        self._h = hash(("Log", arg))

    def __eq__(self, o):
        return isinstance(o, LogA) and o.arg == self.arg

    def __hash__(self):
        return self._h

    def _skey(self):
        return repr(self.arg)

    def __repr__(self):
        return "log(%r)" % (self.arg,)


class AppA(Atom):
    __slots__ = ("fn", "dorder", "args")
    order = 1

    def __init__(self, fn, dorder, args):
        self.fn = fn
        self.dorder = dorder
        self.args = tuple(args)
        self._h = hash(("App", fn, dorder, self.args))

    def __eq__(self, o):
        return isinstance(o, AppA) and o.fn == self.fn and o.dorder == self.dorder and o.args == self.args

    def __hash__(self):
        return self._h

    def _skey(self):
        return "%s%s%r" % (self.fn, "'" * self.dorder, self.args)

    def __repr__(self):
        return "%s%s(%s)" % (self.fn, "'" * self.dorder, ", ".join(repr(a) for a in self.args))


class BaseA(Atom):
    __slots__ = ("arg",)
    order = 4

    def __init__(self, arg):
        self.arg = arg  # Poly
        self._h = hash(("Base", arg))

    def __eq__(self, o):
        return isinstance(o, BaseA) and o.arg == self.arg

    def __hash__(self):
        return self._h

    def _skey(self):
        return repr(self.arg)

    def __repr__(self):
        return "(%r)" % (self.arg,)


# ---------------------------------------------------------------------------
# monomials and polynomials

class Mono(object):
    """Product of atom ** exponent; exponents are Polys (usually constants)."""
    __slots__ = ("f", "_h")

    def __init__(self, factors):
        # factors: dict atom -> Poly exponent (non-zero)
        self.f = frozenset(factors.items())
        self._h = hash(self.f)

    def __eq__(self, o):
        return isinstance(o, Mono) and o.f == self.f

    def __hash__(self):
        return self._h

    def items(self):
        return sorted(self.f, key=lambda kv: kv[0].sort_key())

    def as_dict(self):
        return dict(self.f)

    def is_one(self):
        return not self.f

    def __repr__(self):
        if not self.f:
            return "1"
        out = []
        for a, e in self.items():
            c = e.as_const()
            if c == 1:
                out.append(repr(a))
            elif c is not None:
                out.append("%r^%s" % (a, _fmt_frac(c)))
            else:
                out.append("%r^(%r)" % (a, e))
        return "*".join(out)


ONE_MONO = Mono({})


def _fmt_frac(c):
    if c.denominator == 1:
        return str(c.numerator)
    f = float(c)
    if Fraction(repr(f)) == c and len(repr(f)) < 22:
        return repr(f)
    return "%.15g" % f


class Poly(object):
    __slots__ = ("t", "_h")

    def __init__(self, terms):
        self.t = dict((m, c) for m, c in terms.items() if c != 0)
        self._h = None

    def __hash__(self):
        if self._h is None:
            self._h = hash(frozenset(self.t.items()))
        return self._h

    def __eq__(self, o):
        return isinstance(o, Poly) and o.t == self.t

    def is_zero(self):
        return not self.t

    def as_const(self):
        if not self.t:
            return Fraction(0)
        if len(self.t) == 1 and ONE_MONO in self.t:
            return self.t[ONE_MONO]
        return None

    def const_term(self):
        return self.t.get(ONE_MONO, Fraction(0))

    def single_term(self):
        if len(self.t) == 1:
            (m, c), = self.t.items()
            return m, c
        return None

    def __add__(self, o):
        d = dict(self.t)
        for m, c in o.t.items():
            d[m] = d.get(m, 0) + c
        return Poly(d)

    def __neg__(self):
        return Poly(dict((m, -c) for m, c in self.t.items()))

    def __sub__(self, o):
        return self + (-o)

    def scale(self, k):
        k = frac(k)
        return Poly(dict((m, c * k) for m, c in self.t.items()))

    def __mul__(self, o):
        d = {}
        for m1, c1 in self.t.items():
            for m2, c2 in o.t.items():
                m, k = mono_mul(m1, m2)
                d[m] = d.get(m, 0) + c1 * c2 * k
        return Poly(d)

    def atoms(self):
        s = set()
        for m in self.t:
            for a, e in m.f:
                s.add(a)
                s |= e.atoms()
        return s

    def sorted_terms(self):
        return sorted(self.t.items(), key=lambda mc: repr(mc[0]))

    def __repr__(self):
        if not self.t:
            return "0"
        out = []
        for m, c in self.sorted_terms():
            if m.is_one():
                out.append(_fmt_frac(c))
            elif c == 1:
                out.append(repr(m))
            elif c == -1:
                out.append("-" + repr(m))
            else:
                out.append("%s*%r" % (_fmt_frac(c), m))
        return " + ".join(out).replace("+ -", "- ")


ZERO = Poly({})
ONE = Poly({ONE_MONO: Fraction(1)})


def pconst(c):
    return Poly({ONE_MONO: frac(c)})


def patom(a, e=None):
    return Poly({Mono({a: e if e is not None else ONE}): Fraction(1)})


def mono_mul(m1, m2):
    """-> (Mono, Fraction factor).  Merges exponents; merges exp atoms."""
    if m1.is_one():
        return m2, Fraction(1)
    if m2.is_one():
        return m1, Fraction(1)
    d = m1.as_dict()
    exp_arg = None
    for a, e in list(d.items()):
        if isinstance(a, ExpA):
            exp_arg = a.arg
            del d[a]
    for a, e in m2.f:
        if isinstance(a, ExpA):
            exp_arg = a.arg if exp_arg is None else exp_arg + a.arg
            continue
        if a in d:
            ne = d[a] + e
            if ne.is_zero():
                del d[a]
            else:
                d[a] = ne
        else:
            d[a] = e
    k = Fraction(1)
    if exp_arg is not None and not exp_arg.is_zero():
        ea, k = make_exp_atom(exp_arg)
        if ea is not None:
            d[ea] = ONE
    return Mono(d), k


# ---------------------------------------------------------------------------
# tolerant interning of polynomial arguments of ExpA / BaseA

_INTERN = {}


def reset_interning():
    _INTERN.clear()


def _close(a, b, tol=TOL):
    if a == b:
        return True
    m = max(abs(a), abs(b))
    return abs(a - b) <= tol * m


def intern_poly(p):
    """Return a representative Poly equal to p within TOL (same monomials)."""
    shape = frozenset(p.t.keys())
    reps = _INTERN.setdefault(shape, [])
    for r in reps:
        if all(_close(r.t[m], c) for m, c in p.t.items()):
            return r
    reps.append(p)
    return p


def make_exp_atom(arg):
    """exp(arg) -> (atom or None, numeric factor)."""
    c = arg.const_term()
    k = Fraction(1)
    if c != 0:
        k = frac(math.exp(float(c)))
        arg = arg - pconst(c)
    if arg.is_zero():
        return None, k
    return ExpA(intern_poly(arg)), k


# ---------------------------------------------------------------------------
# exact multivariate division (integer exponents only)

def _int_exps(m):
    out = {}
    for a, e in m.f:
        c = e.as_const()
        if c is None or c.denominator != 1:
            return None
        out[a] = int(c)
    return out


def _lead(p):
    """leading (monomial, coefficient) in a lexicographic order on atoms"""
    best = None
    for m, c in p.t.items():
        ex = _int_exps(m)
        if ex is None:
            return None
        k = tuple(sorted(((a.sort_key(), n) for a, n in ex.items()), reverse=True))
        if best is None or k > best[0]:
            best = (k, m, c)
    return best[1], best[2]


def _atoms_of(p):
    s = set()
    for m in p.t:
        for a, e in m.f:
            s.add(a)
    return s


def poly_div_exact(n, d):
    """n / d when d divides n exactly (polynomials with integer exponents), else None"""
    if d.is_zero():
        return None
    st = d.single_term()
    if st is not None:
        return None
    if not _atoms_of(d) <= _atoms_of(n):
        return None
    atoms = sorted(_atoms_of(n) | _atoms_of(d), key=lambda a: a.sort_key(), reverse=True)

    def vec(m):
        ex = _int_exps(m)
        if ex is None:
            return None
        return tuple(ex.get(a, 0) for a in atoms)

    dn = {}
    for m, c in d.t.items():
        v = vec(m)
        if v is None or any(x < 0 for x in v):
            return None
        dn[v] = c
    rn = {}
    for m, c in n.t.items():
        v = vec(m)
        if v is None:
            return None
        rn[v] = c
    dlead = max(dn)
    dlc = dn[dlead]
    q = {}
    steps = 0
    while rn:
        steps += 1
        if steps > 5000:
            return None
        rl = max(rn)
        diff = tuple(a - b for a, b in zip(rl, dlead))
        if any(x < 0 for x in diff) and all(min(k) >= 0 for k in rn):
            return None
        coef = rn[rl] / dlc
        q[diff] = q.get(diff, 0) + coef
        for dv, dc in dn.items():
            k = tuple(a + b for a, b in zip(diff, dv))
            nv = rn.get(k, 0) - coef * dc
            if nv == 0:
                rn.pop(k, None)
            else:
                rn[k] = nv
        if any(x < -64 for x in diff):
            return None
    terms = {}
    for v, c in q.items():
        if c == 0:
            continue
        terms[Mono(dict((a, pconst(x)) for a, x in zip(atoms, v) if x != 0))] = c
    return Poly(terms)


# ---------------------------------------------------------------------------
# rational functions (denominator kept as a product of factors)

class RF(object):
    __slots__ = ("n", "df", "_d", "_h")

    def __init__(self, n, d=None, df=None):
        """n: Poly; d: Poly (a single new factor) or df: dict Poly -> multiplicity"""
        fac = {}
        if df:
            for f, m in df.items():
                fac[f] = fac.get(f, 0) + m
        if d is not None and d != ONE:
            fac[d] = fac.get(d, 0) + 1
        clean = {}
        for f, m in fac.items():
            if m == 0:
                continue
            if f.is_zero():
                raise Unsupported("division by zero in normal form")
            st = f.single_term()
            if st is not None:
                mono, c = st
                fd = {}
                k = Fraction(1)
                for a, e in mono.f:
                    if isinstance(a, ExpA):
                        ea, kk = make_exp_atom((-a.arg).scale(m))
                        k *= kk
                        if ea is not None:
                            fd[ea] = ONE
                    else:
                        fd[a] = (-e).scale(m)
                n = n * Poly({Mono(fd): k / (c ** m)})
                continue
            lead = f.sorted_terms()[0][1]
            if lead != 1:
                f = f.scale(1 / lead)
                n = n.scale(1 / (lead ** m))
            f = intern_poly(f)
            clean[f] = clean.get(f, 0) + m
        # cancel common factors
        if not n.is_zero():
            for f in list(clean):
                while clean[f] > 0:
                    q = poly_div_exact(n, f)
                    if q is None:
                        break
                    n = q
                    clean[f] -= 1
                if clean[f] == 0:
                    del clean[f]
        else:
            clean = {}
        self.n = n
        self.df = clean
        self._d = None
        self._h = None

    @property
    def d(self):
        if self._d is None:
            p = ONE
            for f, m in self.df.items():
                for _ in range(m):
                    p = p * f
            self._d = p
        return self._d

    def __hash__(self):
        if self._h is None:
            self._h = hash((self.n, frozenset(self.df.items())))
        return self._h

    def __eq__(self, o):
        return isinstance(o, RF) and o.n == self.n and o.df == self.df

    def __add__(self, o):
        o = rf(o)
        if self.df == o.df:
            return RF(self.n + o.n, df=self.df)
        lcm = dict(self.df)
        for f, m in o.df.items():
            lcm[f] = max(lcm.get(f, 0), m)
        na = self.n
        nb = o.n
        for f, m in lcm.items():
            for _ in range(m - self.df.get(f, 0)):
                na = na * f
            for _ in range(m - o.df.get(f, 0)):
                nb = nb * f
        return RF(na + nb, df=lcm)

    __radd__ = __add__

    def __neg__(self):
        return RF(-self.n, df=self.df)

    def __sub__(self, o):
        return self + (-rf(o))

    def __rsub__(self, o):
        return rf(o) - self

    def __mul__(self, o):
        o = rf(o)
        if not self.df and not o.df:
            return RF(self.n * o.n)
        df = dict(self.df)
        for f, m in o.df.items():
            df[f] = df.get(f, 0) + m
        return RF(self.n * o.n, df=df)

    __rmul__ = __mul__

    def __truediv__(self, o):
        o = rf(o)
        if o.n.is_zero():
            raise Unsupported("division by zero")
        # self.n * o.d / (self.d * o.n)
        num = RF(self.n, df=self.df)
        for f, m in o.df.items():
            for _ in range(m):
                num = num * RF(f)
        return RF(num.n, d=o.n, df=num.df)

    def __rtruediv__(self, o):
        return rf(o) / self

    def __pow__(self, e):
        return pow_(self, rf(e))

    def is_zero(self):
        return self.n.is_zero()

    def as_const(self):
        if not self.df:
            return self.n.as_const()
        return None

    def atoms(self):
        return self.n.atoms() | self.d.atoms()

    def depends_on(self, name):
        return depends_on(self, name)

    def __repr__(self):
        if not self.df:
            return repr(self.n)
        ds = "*".join(("(%r)" % f) + ("^%d" % m if m > 1 else "") for f, m in
                      sorted(self.df.items(), key=lambda fm: repr(fm[0])))
        return "(%r)/%s" % (self.n, ds)


def rf(x):
    if isinstance(x, RF):
        return x
    if isinstance(x, Poly):
        return RF(x)
    return RF(pconst(x))


def const(x):
    return RF(pconst(x))


def sym(name):
    return RF(patom(Sym(name)))


def app(fn, args, dorder=0):
    return RF(patom(AppA(fn, dorder, tuple(rf(a) for a in args))))


def exp_(x):
    x = rf(x)
    if x.df:
        raise Unsupported("exp of a genuine rational function: %r" % (x,))
    a, k = make_exp_atom(x.n)
    if a is None:
        return const(k)
    return RF(Poly({Mono({a: ONE}): k}))


def log_(x):
    x = rf(x)
    c = x.as_const()
    if c is not None:
        if c <= 0:
            raise Unsupported("log of non-positive constant")
        return const(math.log(float(c)))
    # log(exp(P)) = P
    st = x.n.single_term() if not x.df else None
    if st is not None:
        m, c = st
        if c == 1 and len(m.f) == 1:
            (a, e), = m.f
            if isinstance(a, ExpA) and e == ONE:
                return RF(a.arg)
    return RF(patom(LogA(x)))


def sqrt_(x):
    return pow_(rf(x), const(Fraction(1, 2)))


def _numpow(c, e):
    """c ** e for Fractions, exact when possible."""
    if e.denominator == 1:
        n = e.numerator
        if c == 0 and n < 0:
            raise Unsupported("0 ** negative")
        return c ** n
    if c < 0:
        raise Unsupported("negative base with fractional exponent")
    if c == 1 or c == 0:
        return c
    # exact roots of perfect powers
    r = _exact_root(c, e)
    if r is not None:
        return r
    return frac(float(c) ** float(e))


def _exact_root(c, e):
    q = e.denominator
    def iroot(n):
        if n < 0:
            return None
        x = round(n ** (1.0 / q))
        for y in (x - 1, x, x + 1):
            if y >= 0 and y ** q == n:
                return y
        return None
    a, b = iroot(c.numerator), iroot(c.denominator)
    if a is None or b is None:
        return None
    return Fraction(a, b) ** e.numerator


def pow_(base, e):
    base, e = rf(base), rf(e)
    ec = e.as_const()
    if ec is not None and ec.denominator == 1:
        n = ec.numerator
        if n == 0:
            return const(1)
        if n < 0:
            return pow_(const(1) / base, const(-n))
        # integer power by squaring
        result = const(1)
        b = base
        while n:
            if n & 1:
                result = result * b
            b = b * b if n > 1 else b
            n >>= 1
        return result
    if e.df:
        raise Unsupported("rational-function exponent")
    epoly = e.n
    bc = base.as_const()
    if bc is not None:
        if ec is not None:
            return const(_numpow(bc, ec))
        if bc == 1:
            return const(1)
        if bc <= 0:
            raise Unsupported("non-positive constant base with symbolic exponent")
        # c ** e = exp(e log c)
        return exp_(RF(epoly.scale(frac(math.log(float(bc))))))
    if base.df:
        return pow_(RF(base.n), e) / pow_(RF(base.d), e)
    st = base.n.single_term()
    if st is not None:
        m, c = st
        if ec is not None:
            k = _numpow(c, ec)
        elif c == 1:
            k = Fraction(1)
        else:
            raise Unsupported("coefficient %s with symbolic exponent" % c)
        fd = {}
        kk = Fraction(1)
        for a, ex in m.f:
            if isinstance(a, ExpA):
                ea, k2 = make_exp_atom(a.arg * epoly)
                kk *= k2
                if ea is not None:
                    fd[ea] = ONE
            else:
                ne = ex * epoly
                if not ne.is_zero():
                    fd[a] = ne
        return RF(Poly({Mono(fd): k * kk}))
    # multi-term base, non-integer exponent
    p = base.n
    lead = p.sorted_terms()[0][1]
    k = Fraction(1)
    if lead != 1 and ec is not None and (lead > 0 or ec.denominator == 1):
        k = _numpow(lead, ec)
        p = p.scale(1 / lead)
    elif lead != 1 and ec is None:
        pass
    a = BaseA(intern_poly(p))
    return RF(Poly({Mono({a: epoly}): k}))


# ---------------------------------------------------------------------------
# differentiation

def depends_on(x, name):
    if isinstance(x, RF):
        return depends_on(x.n, name) or depends_on(x.d, name)
    if isinstance(x, Poly):
        for m in x.t:
            for a, e in m.f:
                if atom_depends(a, name) or depends_on(e, name):
                    return True
        return False
    raise TypeError(x)


def atom_depends(a, name):
    if isinstance(a, Sym):
        return a.name == name
    if isinstance(a, (ExpA, BaseA)):
        return depends_on(a.arg, name)
    if isinstance(a, LogA):
        return depends_on(a.arg, name)
    if isinstance(a, AppA):
        return any(depends_on(x, name) for x in a.args)
    raise TypeError(a)


def d_atom(a, name):
    """derivative of the atom itself -> RF"""
    if isinstance(a, Sym):
        return const(1) if a.name == name else const(0)
    if isinstance(a, ExpA):
        return D(RF(a.arg), name) * RF(patom(a))
    if isinstance(a, BaseA):
        return D(RF(a.arg), name)
    if isinstance(a, LogA):
        return D(a.arg, name) / a.arg
    if isinstance(a, AppA):
        dep = [i for i, x in enumerate(a.args) if depends_on(x, name)]
        if not dep:
            return const(0)
        if len(a.args) != 1:
            raise Unsupported("derivative of opaque n-ary application %r" % (a,))
        inner = D(a.args[0], name)
        return RF(patom(AppA(a.fn, a.dorder + 1, a.args))) * inner
    raise TypeError(a)


def D(x, name="r"):
    x = rf(x)
    if x.df:
        # product rule over n * prod f^-m
        total = _dpoly(x.n, name) * RF(ONE, df=x.df)
        for f, m in x.df.items():
            df2 = dict(x.df)
            df2[f] = m + 1
            total = total - RF(x.n, df=df2) * _dpoly(f, name) * const(m)
        return total
    return _dpoly(x.n, name)


def _dpoly(p, name):
    total = const(0)
    for m, c in p.t.items():
        items = list(m.f)
        for i, (a, e) in enumerate(items):
            a_dep = atom_depends(a, name)
            e_dep = depends_on(e, name)
            if not a_dep and not e_dep:
                continue
            rest = Mono(dict(items[:i] + items[i + 1:]))
            rest_rf = RF(Poly({rest: c}))
            term = const(0)
            if a_dep:
                # e * a' * a^(e-1)
                da = d_atom(a, name)
                em1 = e - ONE
                am = RF(Poly({Mono({a: em1}): Fraction(1)})) if not em1.is_zero() else const(1)
                term = term + RF(e) * da * am
            if e_dep:
                # e' * log(a) * a^e
                de = D(RF(e), name)
                term = term + de * log_(RF(patom(a))) * RF(Poly({Mono({a: e}): Fraction(1)}))
            total = total + rest_rf * term
    return total


# ---------------------------------------------------------------------------
# substitution / evaluation

def substitute(x, env):
    """Replace symbols (by name) with RF values; rebuilds through the
    constructors so the result is again in normal form."""
    x = rf(x)
    res = _subst_poly(x.n, env)
    for f, m in x.df.items():
        fv = _subst_poly(f, env)
        for _ in range(m):
            res = res / fv
    return res


def _subst_poly(p, env):
    total = const(0)
    for m, c in p.t.items():
        term = const(c)
        for a, e in m.f:
            ev = _subst_poly(e, env)
            av = _subst_atom(a, env)
            term = term * pow_(av, ev)
        total = total + term
    return total


def _subst_key(k, env):
    if isinstance(k, tuple):
        return tuple(_subst_key(x, env) for x in k)
    if isinstance(k, RF):
        return substitute(k, env)
    return k


def _subst_atom(a, env):
    if isinstance(a, Sym):
        v = env.get(a.name)
        return rf(v) if v is not None else RF(patom(a))
    if isinstance(a, ExpA):
        return exp_(_subst_poly(a.arg, env))
    if isinstance(a, BaseA):
        return _subst_poly(a.arg, env)
    if isinstance(a, LogA):
        return log_(substitute(a.arg, env))
    if isinstance(a, AppA):
        fnv = env.get(("fn", a.fn, a.dorder))
        args = [substitute(x, env) for x in a.args]
        if fnv is not None:
            return fnv(*args)
        return RF(patom(AppA(_subst_key(a.fn, env), a.dorder, args)))
    raise TypeError(a)


# ---------------------------------------------------------------------------
# comparison

def poly_close(p, q, tol=TOL):
    """-> (ok, detail)"""
    keys = set(p.t) | set(q.t)
    scale = max([abs(c) for c in p.t.values()] + [abs(c) for c in q.t.values()] + [Fraction(0)])
    for m in keys:
        a = p.t.get(m, Fraction(0))
        b = q.t.get(m, Fraction(0))
        if a == b:
            continue
        if a != 0 and b != 0:
            if not _close(a, b, tol):
                return False, "coefficient of %r differs: %s vs %s" % (m, _fmt_frac(a), _fmt_frac(b))
        else:
            return False, "term %s*%r present on one side only" % (_fmt_frac(a if a != 0 else b), m)
    return True, ""


def equal(a, b, tol=TOL):
    """Tolerant equality of two values -> (ok, detail)."""
    a, b = rf(a), rf(b)
    if a.df == b.df:
        return poly_close(a.n, b.n, tol)
    return poly_close(a.n * b.d, b.n * a.d, tol)


def is_zero(a, tol=TOL):
    return equal(a, const(0), tol)[0]


def nterms(a):
    a = rf(a)
    return len(a.n.t) + (len(a.d.t) if a.df else 0)


def regular_at_zero(x, name):
    """conservative: x (RF/Poly) is a finite expression at name = 0 by its shape - name occurs only with non-negative whole
    powers, inside exponentials of expressions that are themselves regular, and never in a denominator, logarithm, power
    base or uninterpreted function"""
    if isinstance(x, RF):
        if x.df and depends_on(x.d, name):
            return False
        return regular_at_zero(x.n, name)
    if isinstance(x, Poly):
        for m in x.t:
            for a, e in m.f:
                if depends_on(e, name):
                    return False
                if not atom_depends(a, name):
                    continue
                if isinstance(a, Sym):
                    c = e.as_const()
                    if c is None or c < 0 or Fraction(c).denominator != 1:
                        return False
                elif isinstance(a, ExpA):
                    if not regular_at_zero(a.arg, name):
                        return False
                    c = e.as_const()
                    if c is None:
                        return False
                else:
                    return False
        return True
    raise TypeError(x)

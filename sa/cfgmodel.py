"""Call-level models of the configparser API used by atsim.potentials.config
(library contract, see DESIGN.md section 11): recording parser / section proxy
objects whose answers are fixed by a scenario, for finite-domain evaluation of
the repository's own functions."""
from . import ep
from .model import AnalysisError
from .values import *   # noqa
from .symeval import RaiseSignal
from .symeval_ops import PyObjV, ExcV

# configparser's exception hierarchy (documented)
CFG_EXC = {
    "Error": None,
    "NoSectionError": "Error", "DuplicateSectionError": "Error", "DuplicateOptionError": "Error",
    "NoOptionError": "Error", "InterpolationError": "Error", "InterpolationDepthError": "InterpolationError",
    "InterpolationMissingOptionError": "InterpolationError", "InterpolationSyntaxError": "InterpolationError",
    "ParsingError": "Error", "MissingSectionHeaderError": "ParsingError",
}


def cfg_exc(name, msg="message"):
    e = ExcV(ExtV("configparser." + name), [Const(msg)])
    return e


def is_cfg_subclass(name, base):
    name = name.split(".")[-1]
    base = base.split(".")[-1]
    while name is not None:
        if name == base:
            return True
        name = CFG_EXC.get(name)
    return False


class SectionRec(object):
    def __init__(self, parser, name):
        self.parser = parser
        self.name = name

    def setitem(self, I, idx, val):
        self.parser.ops.append(("set", self.name, idx.v if isinstance(idx, Const) else repr(idx), val))

    def length(self, I):
        return Num(ep.const(self.parser.scenario.get("len:" + self.name, 1)))

    def get_name(self, I):
        return Const(self.name)


class ParserRec(object):
    """records mutating calls; answers queries from ``scenario``"""
    def __init__(self, scenario):
        self.scenario = scenario
        self.ops = []

    def m_read_file(self, I, args, kwargs):
        exc = self.scenario.get("read_file_raises")
        self.ops.append(("read_file",))
        if exc:
            raise RaiseSignal(cfg_exc(exc), None)
        return NONE

    def m_has_option(self, I, args, kwargs):
        return Const(bool(self.scenario.get("has_option:%s:%s" % (args[0].v, args[1].v), False)))

    def m_has_section(self, I, args, kwargs):
        return Const(bool(self.scenario.get("has_section:%s" % args[0].v, False)))

    def m_remove_option(self, I, args, kwargs):
        self.ops.append(("remove_option", args[0].v, args[1].v))
        return TRUE

    def m_remove_section(self, I, args, kwargs):
        self.ops.append(("remove_section", args[0].v))
        return TRUE

    def m_add_section(self, I, args, kwargs):
        if args[0].v == self.scenario.get("default_section", "Variables"):
            raise RaiseSignal(ExcV(ExtV("builtins.ValueError"), [Const("Invalid section name")]), None)
        self.ops.append(("add_section", args[0].v))
        return NONE

    def m_set(self, I, args, kwargs):
        self.ops.append(("set", args[0].v, args[1].v, args[2]))
        return NONE

    def get_default_section(self, I):
        return Const(self.scenario.get("default_section", "Variables"))

    def getitem(self, I, idx):
        return PyObjV(SectionRec(self, idx.v))


# ---------------------------------------------------------------------------
# Base-class model of configparser.RawConfigParser (documented behaviour), used together with the
# repository's REAL overrides in _RawConfigParser (optionxform, options, has_option, get): the methods
# below are installed as models of the external base class and operate on the instance's _sections /
# _defaults dictionaries.

import re as _re

_SECT = _re.compile(r"^\[(?P<header>.+)\]\s*$")
_OPT = _re.compile(r"^(?P<option>.*?)\s*(?P<vi>[=:])\s*(?P<value>.*)$")


def _d(inst, name):
    v = inst.attrs.get(name)
    if not isinstance(v, DictV):
        raise AnalysisError("parser attribute %s is not a dictionary" % name)
    return v


def _s(v):
    if isinstance(v, Const) and isinstance(v.v, str):
        return v.v
    raise AnalysisError("configparser model needs concrete strings, got %r" % (v,))


def _raise(name, *args):
    raise RaiseSignal(cfg_exc(name, " ".join(str(a) for a in args)), None)


def _xform(I, inst, key):
    r = I.call(I.getattr(inst, "optionxform"), [Const(key)], {})
    return _s(r)


def _default_name(inst):
    return _s(inst.attrs.get("default_section", Const("DEFAULT")))


def b_init(I, inst, args, kwargs):
    inst.attrs["@init_kwargs"] = dict(kwargs)
    inst.attrs["@init_args"] = list(args)
    inst.attrs["_sections"] = DictV()
    inst.attrs["_defaults"] = DictV()
    inst.attrs["default_section"] = kwargs.get("default_section", Const("DEFAULT"))
    inst.attrs["_interpolation"] = kwargs.get("interpolation", NONE)
    inst.attrs["_dict"] = kwargs.get("dict_type", NONE)
    return NONE


def b_has_section(I, inst, args, kwargs):
    return Const(Const(_s(args[0])).key() in _d(inst, "_sections").items)


def b_sections(I, inst, args, kwargs):
    return ListV([k for k, _ in _d(inst, "_sections").items.values()], "list")


def b_defaults(I, inst, args, kwargs):
    return _d(inst, "_defaults")


def b_add_section(I, inst, args, kwargs):
    s = _s(args[0])
    if s == _default_name(inst):
        raise RaiseSignal(ExcV(ExtV("builtins.ValueError"), [Const("Invalid section name: %r" % s)]), None)
    secs = _d(inst, "_sections")
    if Const(s).key() in secs.items:
        _raise("DuplicateSectionError", s)
    secs.items[Const(s).key()] = (Const(s), DictV())
    return NONE


def _sectdict(I, inst, s, create=False):
    if s == _default_name(inst):
        return _d(inst, "_defaults")
    secs = _d(inst, "_sections")
    ent = secs.items.get(Const(s).key())
    if ent is None:
        _raise("NoSectionError", s)
    return ent[1]


def b_options(I, inst, args, kwargs):
    s = _s(args[0])
    own = _sectdict(I, inst, s)
    keys = [k for k, _ in own.items.values()]
    for k, _ in _d(inst, "_defaults").items.values():
        if all(k.key() != x.key() for x in keys):
            keys.append(k)
    return ListV(keys, "list")


def b_has_option(I, inst, args, kwargs):
    s, o = _s(args[0]), _s(args[1])
    key = Const(_xform(I, inst, o)).key()
    if not s or s == _default_name(inst):
        return Const(key in _d(inst, "_defaults").items)
    secs = _d(inst, "_sections")
    if Const(s).key() not in secs.items:
        return FALSE
    return Const(key in secs.items[Const(s).key()][1].items or key in _d(inst, "_defaults").items)


_PLACEHOLDER = _re.compile(r"\$\{([^}]+)\}")


def b_get(I, inst, args, kwargs):
    s, o = _s(args[0]), _s(args[1])
    key = _xform(I, inst, o)
    own = _sectdict(I, inst, s)
    merged = {}
    for k, v in _d(inst, "_defaults").items.values():
        merged[_s(k)] = v
    for k, v in own.items.values():
        merged[_s(k)] = v
    extra = set(kwargs) - {"raw", "vars", "fallback"}
    if extra or len(args) > 2:
        raise AnalysisError("configparser model: get() with %s" % (sorted(extra) or "more than two positional arguments"))
    vars_ = kwargs.get("vars")
    if vars_ is not None and not (isinstance(vars_, Const) and vars_.v is None):
        # the library gives the caller's mapping the highest priority (over the section and the default section), its keys
        # passed through optionxform
        if not isinstance(vars_, DictV):
            raise AnalysisError("configparser model: get(vars=%r)" % (vars_,))
        for k, v in vars_.items.values():
            merged[_xform(I, inst, _s(k))] = v
            inst.attrs.setdefault("@vars", {})[_xform(I, inst, _s(k))] = v
    if key not in merged:
        fb = kwargs.get("fallback")
        if fb is None or (isinstance(fb, ExtV) and fb.name.endswith("_UNSET")):
            _raise("NoOptionError", o, s)
        return fb
    val = merged[key]
    raw = kwargs.get("raw")
    if isinstance(val, Const) and isinstance(val.v, str) and "$" in val.v and not (isinstance(raw, Const) and raw.v):
        return Const(_interpolate_some(I, inst, key, val.v, s, merged, 1, val.v))
    return val


_KEYCRE = _re.compile(r"\$\{([^}]+)\}")
_MAX_DEPTH = 10


def _interpolate_some(I, inst, option, rest, section, map_, depth, rawval):
    """ExtendedInterpolation._interpolate_some as documented and shipped: '$$' is a dollar sign, '${name}' looks name up
    (through optionxform) in the current section merged with the defaults and the caller's vars, '${section:name}' calls
    parser.get(section, name, raw=True) - the parser's own, possibly overridden, method - and a value that itself holds a '$'
    is expanded in the context of the section it came from, whose entries are dict(parser.items(section, raw=True)) -
    again the parser's own method.  map_: {key: value}"""
    if depth > _MAX_DEPTH:
        _raise("InterpolationDepthError", option, section, rawval)
    accum = []
    while rest:
        p = rest.find("$")
        if p < 0:
            accum.append(rest)
            break
        if p > 0:
            accum.append(rest[:p])
            rest = rest[p:]
        c = rest[1:2]
        if c == "$":
            accum.append("$")
            rest = rest[2:]
        elif c == "{":
            m = _KEYCRE.match(rest)
            if m is None:
                _raise("InterpolationSyntaxError", option, section, "bad interpolation variable reference %r" % rest)
            path = m.group(1).split(":")
            rest = rest[m.end():]
            sect, opt = section, option
            if len(path) == 1:
                opt = _xform(I, inst, path[0])
                if opt not in map_:
                    _raise("InterpolationMissingOptionError", option, section, rawval, ":".join(path))
                v = _s(map_[opt])
            elif len(path) == 2:
                sect = path[0]
                opt = _xform(I, inst, path[1])
                try:
                    v = _s(I.call(I.getattr(inst, "get"), [Const(sect), Const(opt)], {"raw": TRUE}))
                except RaiseSignal as e:
                    nm = getattr(getattr(e.exc, "cls", None), "name", "") or ""
                    if nm.split(".")[-1] in ("KeyError", "NoSectionError", "NoOptionError"):
                        _raise("InterpolationMissingOptionError", option, section, rawval, ":".join(path))
                    raise
            else:
                _raise("InterpolationSyntaxError", option, section, "More than one ':' found: %r" % rest)
            if "$" in v:
                items = I.call(I.getattr(inst, "items"), [Const(sect)], {"raw": TRUE})
                m2 = {}
                for it in I.as_iterable(items).items:
                    kv = I.as_iterable(it).items
                    m2[_s(kv[0])] = kv[1]
                accum.append(_interpolate_some(I, inst, opt, v, sect, m2, depth + 1, rawval))
            else:
                accum.append(v)
        else:
            _raise("InterpolationSyntaxError", option, section, "'$' must be followed by '$' or '{', found: %r" % (rest,))
    return "".join(accum)


def b_set(I, inst, args, kwargs):
    s, o, v = _s(args[0]), _s(args[1]), args[2]
    d = _sectdict(I, inst, s)
    k = Const(_xform(I, inst, o))
    # the section dictionary is the repository's dict_type: its own __setitem__ transform applies as well
    d.items[k.key()] = (k, v)
    inst.attrs.setdefault("@ops", []).append(("set", s, k.v, v))
    return NONE


def b_remove_option(I, inst, args, kwargs):
    s, o = _s(args[0]), _s(args[1])
    d = _sectdict(I, inst, s)
    k = Const(_xform(I, inst, o)).key()
    existed = k in d.items
    if existed:
        del d.items[k]
    inst.attrs.setdefault("@ops", []).append(("remove_option", s, o))
    return Const(existed)


def b_remove_section(I, inst, args, kwargs):
    s = _s(args[0])
    secs = _d(inst, "_sections")
    existed = Const(s).key() in secs.items
    if existed:
        del secs.items[Const(s).key()]
    inst.attrs.setdefault("@ops", []).append(("remove_section", s))
    return Const(existed)


def b_read_file(I, inst, args, kwargs):
    fp = args[0]
    if not (isinstance(fp, PyObjV) and hasattr(fp.obj, "text")):
        raise AnalysisError("read_file needs a file model with concrete text")
    secs = _d(inst, "_sections")
    cur = None
    curname = None
    lastkey = None
    seen_in_file = set()
    for lineno, line in enumerate(fp.obj.text.splitlines(), 1):
        stripped = line.strip()
        if not stripped or stripped[0] in "#;":
            continue
        indented = line[0] in " \t"
        if indented and cur is not None and lastkey is not None:
            k, v = cur.items[lastkey]
            cur.items[lastkey] = (k, Const(_s(v) + "\n" + stripped))
            continue
        m = _SECT.match(stripped)
        if m:
            name = m.group("header")
            if name == _default_name(inst):
                cur = _d(inst, "_defaults")
                curname = name
                continue
            if Const(name).key() in secs.items:
                _raise("DuplicateSectionError", name)
            secs.items[Const(name).key()] = (Const(name), DictV())
            cur = secs.items[Const(name).key()][1]
            curname = name
            lastkey = None
            continue
        if cur is None:
            _raise("MissingSectionHeaderError", lineno, line)
        m = _OPT.match(stripped)
        if not m:
            _raise("ParsingError", lineno, line)
        key = _xform(I, inst, m.group("option").rstrip())
        if (curname, key) in seen_in_file:
            _raise("DuplicateOptionError", curname, key)
        seen_in_file.add((curname, key))
        cur.items[Const(key).key()] = (Const(key), Const(m.group("value").strip()))
        lastkey = Const(key).key()
    return NONE


class SectionProxy(object):
    """configparser.SectionProxy: every access goes through the parser's (possibly overridden) methods"""
    def __init__(self, inst, name):
        self.inst = inst
        self.name = name

    def _call(self, I, meth, *args, **kw):
        return I.call(I.getattr(self.inst, meth), list(args), kw)

    def iter_items(self, I):
        if self.name == _default_name(self.inst):
            return [k for k, _ in _d(self.inst, "_defaults").items.values()]
        r = self._call(I, "options", Const(self.name))
        return list(I.as_iterable(r).items)

    def length(self, I):
        return Num(ep.const(len(self.iter_items(I))))

    def contains(self, I, item):
        r = self._call(I, "has_option", Const(self.name), item)
        return r.v

    def getitem(self, I, idx):
        if not self.contains(I, idx):
            raise RaiseSignal(ExcV(ExtV("builtins.KeyError"), [idx]), None)
        return self._call(I, "get", Const(self.name), idx)

    def setitem(self, I, idx, val):
        self._call(I, "set", Const(self.name), idx, val)

    def m_get(self, I, args, kwargs):
        fb = args[1] if len(args) > 1 else kwargs.get("fallback", NONE)
        return self._call(I, "get", Const(self.name), args[0], fallback=fb)

    def get_name(self, I):
        return Const(self.name)


def b_getitem(I, inst, args, kwargs):
    s = _s(args[0])
    if s != _default_name(inst) and Const(s).key() not in _d(inst, "_sections").items:
        raise RaiseSignal(ExcV(ExtV("builtins.KeyError"), [args[0]]), None)
    return PyObjV(SectionProxy(inst, s))


def install_rawconfigparser(I):
    base = "RawConfigParser"
    for name, fn in (("__init__", b_init), ("has_section", b_has_section), ("sections", b_sections), ("defaults", b_defaults),
                     ("add_section", b_add_section), ("options", b_options), ("has_option", b_has_option), ("get", b_get),
                     ("set", b_set), ("remove_option", b_remove_option), ("remove_section", b_remove_section),
                     ("read_file", b_read_file), ("__getitem__", b_getitem), ("items", b_items)):
        I.ext_methods[(base, name)] = fn


class TextFile(object):
    def __init__(self, text):
        self.text = text


def b_items(I, inst, args, kwargs):
    """RawConfigParser.items(section): own options merged with the defaults (library behaviour)"""
    if not args:
        raise AnalysisError("items() without a section is not modelled")
    s = _s(args[0])
    extra = set(kwargs) - {"raw", "vars"}
    if extra or len(args) > 1:
        raise AnalysisError("configparser model: items() with %s" % (sorted(extra) or "positional raw/vars"))
    # library behaviour: the keys are those of the section merged with the defaults (and vars), whatever options() says
    keys = []
    for src in (_d(inst, "_defaults"), _sectdict(I, inst, s)):
        for k, _ in src.items.values():
            if _s(k) not in keys:
                keys.append(_s(k))
    # (the caller's vars add values, not keys)
    kw = dict((k, v) for k, v in kwargs.items() if k in ("raw", "vars"))
    out = []
    for k in keys:
        out.append(ListV([Const(k), b_get(I, inst, [Const(s), Const(k)], dict(kw))], "tuple"))
    return ListV(out, "list")


# ---------------------------------------------------------------------------
# cexprtk model: a symbol table is two dictionaries; an expression evaluates to an opaque value that
# records the expression text and the variable bindings at the moment of evaluation

# exprtk names that a symbol table refuses (cexprtk contract, confirmed against the installed library):
#   functions[n] = f : KeyError when a variable or a constant is called n; ReservedFunctionShadowException (a
#                      NameShadowException) when n is a built-in exprtk function
#   variables[n] = v : KeyError when a function or a constant is called n
EXPRTK_CONSTANTS = ("pi", "epsilon", "inf")
EXPRTK_BUILTINS = ("abs", "acos", "acosh", "asin", "asinh", "atan", "atan2", "atanh", "avg", "ceil", "clamp", "cos", "cosh", "cot", "csc",
                   "erf", "erfc", "exp", "expm1", "floor", "frac", "hypot", "iclamp", "inrange", "log", "log10", "log1p", "log2", "logn",
                   "max", "min", "mul", "ncdf", "pow", "root", "round", "roundn", "sec", "sgn", "sin", "sinc", "sinh", "sqrt", "sum",
                   "swap", "tan", "tanh", "trunc", "if", "and", "or", "not", "mod")


class Store(object):
    def __init__(self, log, kind, table=None):
        self.d = {}
        self.log = log
        self.kind = kind
        self.table = table

    def setitem(self, I, idx, val):
        name = _s(idx)
        t = self.table
        if t is not None:
            other = t.functions if self.kind == "var" else t.variables
            if name in other.d or (getattr(t, "add_constants", False) and name in EXPRTK_CONSTANTS):
                raise RaiseSignal(ExcV(ExtV("builtins.KeyError"), [Const("name %s is already taken in the symbol table" % name)]), None)
            if self.kind == "func" and name in EXPRTK_BUILTINS:
                raise RaiseSignal(cfg_exc_cexprtk("ReservedFunctionShadowException"), None)
        self.d[name] = val
        self.log.append((self.kind, name, val))

    def getitem(self, I, idx):
        return self.d[_s(idx)]

    def contains(self, I, item):
        return _s(item) in self.d


class SymbolTable(object):
    def __init__(self):
        self.log = []
        self.variables = Store(self.log, "var", self)
        self.functions = Store(self.log, "func", self)
        self.add_constants = False

    def get_variables(self, I):
        return PyObjV(self.variables)

    def get_functions(self, I):
        return PyObjV(self.functions)


class Expression(object):
    def __init__(self, text, table):
        self.text = text
        self.table = table
        self.evaluations = []

    def m___call__(self, I, args, kwargs):
        snap = tuple(sorted((k, v.key()) for k, v in self.table.variables.d.items()))
        self.evaluations.append(dict(self.table.variables.d))
        I.log_event(("eval", ("cexprtk", self.text)))
        return Num(ep.app(("cexprtk", self.text, snap), []))


def install_cexprtk(I):
    def symtab(args, kwargs, node, env):
        # cexprtk.Symbol_Table(variables, constants={}, add_constants=False, functions={})
        st = SymbolTable()
        if len(args) > 1 or set(kwargs) - {"add_constants"}:
            raise AnalysisError("cexprtk.Symbol_Table model: constants/functions arguments")
        ac = kwargs.get("add_constants")
        st.add_constants = bool(isinstance(ac, Const) and ac.v is True)
        if args:
            v = args[0]
            if not isinstance(v, DictV):
                raise AnalysisError("cexprtk.Symbol_Table model: variables %r" % (v,))
            for k, val in v.items.values():
                st.variables.setitem(I, k, val)
        return PyObjV(st)

    def expression(args, kwargs, node, env):
        return PyObjV(Expression(_s(args[0]) if isinstance(args[0], Const) else repr(args[0]), args[1].obj)).as_callable() \
            if False else PyObjV(Expression(_s(args[0]) if isinstance(args[0], Const) else repr(args[0]), args[1].obj))
    I.x_cexprtk_Symbol_Table = symtab
    I.x_cexprtk_Expression = expression


def cfg_exc_cexprtk(name):
    """an exception of cexprtk._exceptions (NameShadowException family)"""
    return ExcV(ExtV("cexprtk._exceptions." + name), [Const(name)])


def model_attrs(inst, cls):
    """the model objects of the given kind that an instance holds in its attributes (whatever the attributes are called)"""
    out = []
    for v in getattr(inst, "attrs", {}).values():
        if isinstance(v, PyObjV) and isinstance(v.obj, cls):
            out.append(v.obj)
    return out


def symbol_table_of(inst):
    t = model_attrs(inst, SymbolTable)
    if len(t) != 1:
        raise AnalysisError("%s holds %d cexprtk symbol tables (expected one)" % (getattr(getattr(inst, "ci", None), "name", inst), len(t)))
    return t[0]


def expression_of(inst):
    e = model_attrs(inst, Expression)
    if len(e) > 1:
        raise AnalysisError("%s holds %d cexprtk expressions" % (getattr(getattr(inst, "ci", None), "name", inst), len(e)))
    return e[0] if e else None

"""C15 - [Variables] substitution (DESIGN.md section 4, C15)."""
import ast

from .. import ep
from ..model import AnalysisError
from ..values import *     # noqa
from ..symeval import RaiseSignal
from ..symeval_ops import ExcV, NTV, PyObjV
from .. import formrules as F
from .. import writerules as W
from .. import cfgmodel as M

CP = "atsim.potentials.config._config_parser"

EXPLANATION = (
    "[Variables] is configparser's default section. The repository's real overrides in _RawConfigParser (optionxform, "
    "options, has_option, get) are evaluated by the abstract evaluator on top of a model of the documented base-class "
    "behaviour (defaults are merged into every section by the base class). For a file containing every kind of section and "
    "for every way the repository looks at a section (iteration, len, membership, subscript, .get with fallback, and every "
    "section accessor of ConfigParser: tabulation, species, potential_form, pair-like sections, table forms, duplicate "
    "checks, parsed/orphan sections, --list-items) the result with a block of unreferenced variables - named like options "
    "of each section - must equal the result without it. Placeholders ${NAME}, ${SECTION:KEY} are compared with textual "
    "substitution. The parser's construction arguments and a deny-list of default-merging APIs are checked on the syntax tree.")

SECTIONS = """[Tabulation]
target : setfl
nr : 11
cutoff : 5.0
[Pair]
A-B : as.buck 1000.0 0.3 32.0
B-B : as.zero
[EAM-Embed]
A : as.sqrt 2.0
[EAM-Density]
A : as.zero
[Potential-Form]
f(r, A) : A*r
[Table-Form:t]
x : 0 1 2 3
y : 0 1 2 3
[Species]
A.atomic_mass : 12.0
[EAM-ADP-Dipole]
A-B : as.zero
"""

# unreferenced variables whose names resemble options of the other sections
VARIABLES = """[Variables]
unused : 1
cutoff_rho : 77.0
nrho : 3
dr : 0.5
target : GULP
interpolation : nope
xy : 1 2 3 4
C-D : as.zero
Z : as.zero
g(r) : r
Q.atomic_mass : 3
"""


def run(chk):
    P = F.load_program()
    chk.explanation = EXPLANATION
    chk.info.update(P.stats())
    chk.rule("C15.O1", "raw section views (iteration, len, in, [k], .get) are unchanged by unreferenced variables", 8)
    chk.rule("C15.O2", "every ConfigParser accessor gives the same result with and without unreferenced variables", 12)
    chk.rule("C15.O3", "${NAME} and ${SECTION:KEY} equal textual substitution in every section; unresolvable ones are configuration errors", 6)
    chk.rule("C15.O4", "parser construction: default_section 'Variables', ExtendedInterpolation, no other parser options; no default-merging API used", 4)
    chk.attempt("O1", lambda: raw_views(chk, P))
    chk.attempt("O2", lambda: accessors(chk, P))
    chk.attempt("O3", lambda: substitution(chk, P))
    chk.attempt("O4", lambda: construction(chk, P))
    chk.assume("configparser contract: RawConfigParser merges the default section into options()/has_option()/get()/items() of "
               "every section; SectionProxy uses the parser's options/has_option/get; ExtendedInterpolation resolves ${name} from "
               "the section then the defaults and ${section:name} from that section")
    chk.assume("the file used is one representative containing every section kind; variable names cover option names of each section")


def build(P, text):
    I = F.make_interp(P)
    M.install_rawconfigparser(I)
    M.install_cexprtk(I)
    try:
        cp = I.instantiate(P.cls(CP, "ConfigParser"), [PyObjV(M.TextFile(text))], {}, None)
    except RaiseSignal as e:
        raise ConstructionFailed(e.exc)
    return I, cp


class ConstructionFailed(Exception):
    def __init__(self, exc):
        self.exc = exc


def guarded_build(chk, P, rule, what, text):
    """a well-formed file must construct; a failure is a violation, not an analysis error"""
    try:
        return build(P, text)
    except ConstructionFailed as e:
        chk.ob(rule, "%s can be read (ConfigParser construction)" % what, False, site=P.cls(CP, "ConfigParser").site_of("__init__"),
               found="raises %r" % (e.exc,), expect="accepted", key="%s|construct|%s" % (rule, what))
        return None


def proxy_view(I, raw, section, probe_keys):
    sec = I.getitem(raw, Const(section))
    out = {"iter": [k.v for k in I.as_iterable(sec).items], "len": int(I.x_len([sec], {}, None, None).const())}
    for k in probe_keys:
        inn = I.contains(sec, Const(k))
        out["in:" + k] = inn
        g = I.call(I.getattr(sec, "get"), [Const(k), Const("<fallback>")], {})
        out["get:" + k] = g.v if isinstance(g, Const) else repr(g)
        try:
            v = I.getitem(sec, Const(k))
            out["item:" + k] = v.v if isinstance(v, Const) else repr(v)
        except RaiseSignal as e:
            out["item:" + k] = "KeyError"
    return out


def raw_views(chk, P):
    r0 = guarded_build(chk, P, "C15.O1", "the file without variables", SECTIONS)
    r1 = guarded_build(chk, P, "C15.O1", "the file with unreferenced variables", SECTIONS + VARIABLES)
    if r0 is None or r1 is None:
        return
    (I0, cp0), (I1, cp1) = r0, r1
    raw0, raw1 = I0.getattr(cp0, "raw_config_parser"), I1.getattr(cp1, "raw_config_parser")
    var_names = [k.v for k, _ in raw1.attrs["_defaults"].items.values()]
    site = P.cls(CP, "_RawConfigParser").site_of("options") if P.cls(CP, "_RawConfigParser").lookup("options") else P.module(CP).relpath
    for k, d in raw0.attrs["_sections"].items.values():
        own = [kk.v for kk, _ in d.items.values()]
        probes = own + var_names
        v0 = proxy_view(I0, raw0, k.v, probes)
        v1 = proxy_view(I1, raw1, k.v, probes)
        diff = [(q, v0[q], v1[q]) for q in v0 if v0[q] != v1[q]]
        chk.ob("C15.O1", "[%s]: iteration, len, membership, [k] and .get(k, fallback) for %d probed keys" % (k.v, len(probes)), not diff,
               site=site, found=diff[:4] or None, expect="identical with and without [Variables]", key="C15.O1|%s" % k.v)


def _norm(v):
    if isinstance(v, DictV):
        return ("dict",) + tuple((repr(k.key()), _norm(x)) for k, x in v.items.values())
    if isinstance(v, ListV):
        return (v.kind,) + tuple(_norm(x) for x in v.items)
    if isinstance(v, NTV):
        return ("nt", v.cls.name) + tuple(_norm(x) for x in v.values)
    try:
        return v.key()
    except Exception:
        return repr(v)


def accessors(chk, P):
    r0 = guarded_build(chk, P, "C15.O2", "the file without variables", SECTIONS)
    r1 = guarded_build(chk, P, "C15.O2", "the file with unreferenced variables", SECTIONS + VARIABLES)
    if r0 is None or r1 is None:
        return
    (I0, cp0), (I1, cp1) = r0, r1
    cls = P.cls(CP, "ConfigParser")

    def both(name, fn):
        res = []
        for I, cp in ((I0, cp0), (I1, cp1)):
            try:
                res.append(("ok", _norm(fn(I, cp))))
            except RaiseSignal as e:
                res.append(("raise", repr(e.exc)))
        return res
    props = ["pair", "eam_embed", "eam_density", "potential_form", "table_form", "species", "parsed_sections", "orphan_sections"]
    for pname in props:
        r = both(pname, lambda I, cp: I.getattr(cp, pname))
        fi = cls.lookup(pname)
        chk.ob("C15.O2", "ConfigParser.%s" % pname, r[0] == r[1] and r[0][0] == "ok", site=fi.site() if fi else None,
               found=r[1] if r[0] != r[1] else (r[0] if r[0][0] != "ok" else None), expect=r[0], key="C15.O2|%s" % pname)
    r = both("parse_pair_like", lambda I, cp: I.call(I.getattr(cp, "parse_pair_like"), [Const("EAM-ADP-Dipole")], {}))
    chk.ob("C15.O2", "ConfigParser.parse_pair_like('EAM-ADP-Dipole')", r[0] == r[1] and r[0][0] == "ok", site=cls.site_of("parse_pair_like"),
           found=r[1], expect=r[0], key="C15.O2|parse_pair_like")
    for attr in ("target", "cutoff", "nr", "cutoff_rho", "nrho"):
        r = both(attr, lambda I, cp: I.getattr(I.getattr(cp, "tabulation"), attr))
        chk.ob("C15.O2", "ConfigParser.tabulation.%s" % attr, r[0] == r[1] and r[0][0] == "ok", site=cls.site_of("tabulation"),
               found=r[1], expect=r[0], key="C15.O2|tabulation.%s" % attr)
    # --list-items: same items apart from the Variables block itself
    fi = P.func("atsim.potentials.tools.potable._query_actions", "action_list_items")

    def items(I, cp):
        I.run(fi, [cp])
        out = W.out_tree(I.stdout())
        if not isinstance(out, SLit):
            raise AnalysisError("--list-items output is not concrete: %r" % (out,))
        return ListV([Const(ln) for ln in out.text.split("\n") if not ln.startswith("Variables:")], "list")
    r = both("_list_items", items)
    chk.ob("C15.O2", "--list-items (ignoring the Variables block)", r[0] == r[1] and r[0][0] == "ok", site=fi.site(), found=r[1], expect=r[0],
           key="C15.O2|list-items")


def substitution(chk, P):
    templated = """[Variables]
A_val : 1000.0
rho : 0.3
[Tabulation]
target : GULP
nr : ${Counts:n}
cutoff : ${Variables:cut}
[Counts]
n : 11
m : ${n}
big : ${A_val}
[Pair]
A-B : as.buck ${A_val} ${rho} ${Variables:rho}
[Potential-Form]
f(r) : ${A_val}*r
[Table-Form:t]
x : 0 ${Counts:m}
y : 0 1
[Species]
A.atomic_mass : ${Counts:big}
"""
    templated = templated.replace("[Variables]\n", "[Variables]\ncut : 5.0\n")
    plain = """[Tabulation]
target : GULP
nr : 11
cutoff : 5.0
[Counts]
n : 11
m : 11
big : 1000.0
[Pair]
A-B : as.buck 1000.0 0.3 0.3
[Potential-Form]
f(r) : 1000.0*r
[Table-Form:t]
x : 0 11
y : 0 1
[Species]
A.atomic_mass : 1000.0
"""
    rt = guarded_build(chk, P, "C15.O3", "the templated file", templated)
    rp = guarded_build(chk, P, "C15.O3", "the hand-substituted file", plain)
    if rt is None or rp is None:
        return
    (It, cpt), (Ip, cpp) = rt, rp
    cls = P.cls(CP, "ConfigParser")
    def view(J, cp_, *path):
        # what the accessor gives - or the exception it ends in (a templated file that is refused where the hand-substituted
        # one is read is a difference, not a gap of the analysis)
        try:
            v = cp_
            for nm in path:
                v = J.getattr(v, nm)
            return _norm(v)
        except RaiseSignal as e:
            return "raises %r" % (e.exc,)
    for pname in ("pair", "potential_form", "table_form", "species"):
        a = view(It, cpt, pname)
        b = view(Ip, cpp, pname)
        chk.ob("C15.O3", "ConfigParser.%s of the templated file equals that of the hand-substituted file" % pname, a == b,
               site=cls.lookup(pname).site(), found=a, expect=b, key="C15.O3|%s" % pname)
    for attr in ("nr", "cutoff"):
        a = view(It, cpt, "tabulation", attr)
        b = view(Ip, cpp, "tabulation", attr)
        chk.ob("C15.O3", "[Tabulation] %s given through a placeholder" % attr, a == b, site=cls.site_of("tabulation"), found=a, expect=b,
               key="C15.O3|tabulation.%s" % attr)
    # the file is the only source of placeholder values: whatever the package hands to the library as `vars` would take
    # precedence over a [Variables] entry of the same name
    supplied = {}
    for J, cp_ in ((It, cpt), (Ip, cpp)):
        rawp = J.getattr(cp_, "raw_config_parser")
        supplied.update(getattr(rawp, "attrs", {}).get("@vars", {}))
    chk.ob("C15.O3", "the package supplies no placeholder values of its own to the parser (a [Variables] entry of the same name would "
                     "be overruled)", not supplied, site=P.cls(CP, "_RawConfigParser").site(), found=sorted(supplied) or None,
           expect="values come from the file only", key="C15.O3|package-supplied-values")
    for name in sorted(supplied)[:3]:
        Iv, cpv = build(P, "[Variables]\n%s : 7.25\n[Pair]\nA-B : as.constant ${%s}\n" % (name, name))
        try:
            got = _norm(Iv.getattr(cpv, "pair"))
        except RaiseSignal as e:
            got = e.exc
        Iw, cpw = build(P, "[Pair]\nA-B : as.constant 7.25\n")
        want = _norm(Iw.getattr(cpw, "pair"))
        chk.ob("C15.O3", "[Variables] %s : 7.25 used as ${%s} equals writing 7.25" % (name, name), got == want,
               site=P.cls(CP, "_RawConfigParser").site(), found=got, expect=want, key="C15.O3|shadowed|%s" % name)
    # unresolvable placeholder -> configuration error
    cfg = P.cls("atsim.potentials.config._common", "ConfigurationException")
    Ib, cpb = build(P, "[Pair]\nA-B : as.buck ${nope} 0.3 0\n")
    try:
        r = Ib.getattr(cpb, "pair")
        out = r
    except RaiseSignal as e:
        out = e.exc
    ok = isinstance(out, ExcV) and isinstance(out.cls, ClassV) and out.cls.ci.is_subclass_of(cfg)
    chk.ob("C15.O3", "an unresolvable ${...} is a configuration error", ok, site=P.cls(CP, "_RawConfigParser").site_of("get")
           if P.cls(CP, "_RawConfigParser").lookup("get") else None, found=out, expect="ConfigurationException", key="C15.O3|unresolvable")


def construction(chk, P):
    I = F.make_interp(P)
    M.install_rawconfigparser(I)
    raw = I.instantiate(P.cls(CP, "_RawConfigParser"), [], {}, None)
    kw = raw.attrs.get("@init_kwargs", {})
    site = P.cls(CP, "_RawConfigParser").site_of("__init__")
    ds = kw.get("default_section")
    chk.ob("C15.O4", "default_section is 'Variables'", isinstance(ds, Const) and ds.v == "Variables", site=site, found=ds, expect="Variables",
           key="C15.O4|default_section")
    ip = kw.get("interpolation")
    if isinstance(ip, InstV):
        from ..model import ExternalClass
        if any(isinstance(c, ExternalClass) and c.name.endswith("ExtendedInterpolation") for c in ip.ci.mro()):
            # the library's interpolation with methods overridden by the package: what ${...} then means is decided by code
            # that runs inside the library's own get(); the parser model implements the library's ExtendedInterpolation only
            raise AnalysisError("the parser's interpolation is %s, a subclass of ExtendedInterpolation defined by the package: placeholder "
                                "resolution through its overridden methods is outside the parser model" % ip.ci.name)
    chk.ob("C15.O4", "interpolation is ExtendedInterpolation", isinstance(ip, Opaque) and "ExtendedInterpolation" in repr(ip.path), site=site,
           found=ip, expect="ExtendedInterpolation()", key="C15.O4|interpolation")
    extra = sorted(set(kw) - {"dict_type", "default_section", "interpolation"})
    chk.ob("C15.O4", "no other parser options (delimiters, comment prefixes, strict=False, ...) are changed", not extra and not raw.attrs.get("@init_args"),
           site=site, found=extra or raw.attrs.get("@init_args"), expect="only dict_type, default_section, interpolation", key="C15.O4|no-other-options")
    # deny-list of default-merging / raw APIs
    bad = []
    n = 0
    for modname in (CP, "atsim.potentials.tools.potable._query_actions", "atsim.potentials.tools.potable",
                    "atsim.potentials.config._filtered_config_parser", "atsim.potentials.config._configuration"):
        m = P.module(modname)
        inside_raw = set()
        for cnode in ast.walk(m.tree):
            if isinstance(cnode, ast.ClassDef) and cnode.name == "_RawConfigParser":
                inside_raw = set(id(x) for x in ast.walk(cnode))
        for node in ast.walk(m.tree):
            if id(node) in inside_raw:
                continue
            if isinstance(node, ast.Call) and isinstance(node.func, ast.Attribute):
                n += 1
                if node.func.attr == "items" and node.args:
                    bad.append("%s:%d .items(section) merges the default section" % (m.relpath, node.lineno))
                for k in node.keywords:
                    if k.arg in ("raw", "vars"):
                        bad.append("%s:%d %s= argument bypasses/augments interpolation" % (m.relpath, node.lineno, k.arg))
            if isinstance(node, ast.Attribute) and node.attr in ("_sections", "_defaults", "_proxies"):
                bad.append("%s:%d direct access to parser.%s" % (m.relpath, node.lineno, node.attr))
    chk.ob("C15.O4", "no default-merging or interpolation-bypassing parser API is used outside _RawConfigParser (%d calls inspected)" % n,
           not bad, site="atsim/potentials/config", found=bad or None, expect="none of items(section), raw=, vars=, _sections, _defaults",
           key="C15.O4|deny-list")

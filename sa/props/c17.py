"""C17 - a failed tabulation never leaves a partial table (DESIGN.md section 4, C17)."""
from .. import ep
from ..model import AnalysisError
from ..values import *     # noqa
from ..strtree import *    # noqa
from ..symeval import RaiseSignal
from ..symeval_ops import PyObjV, ExcV
from .. import writerules as W
from .. import excelmodel

EXPLANATION = (
    "Effect-order analysis: write(fp) of every tabulation class registered in TABULATION_FACTORIES or in "
    "writePotentials' dispatch table is translated by the symbolic evaluator, which logs in program order (loops as nested "
    "groups) every evaluation of a user-supplied callable (EVAL) and every write that reaches the real file object "
    "(WRITE(fp); writes into local StringIO buffers are not effects on fp). The rule: no EVAL may follow a WRITE(fp), and "
    "no loop may contain both. action_tabulate must build the tabulation before it opens (truncates) the output file.")


KNOWN_CTOR = ("potentials", "eam_potentials", "dipole_potentials", "quadrupole_potentials", "cutoff", "nr", "cutoff_rho", "nrho")


def _required(ci):
    """constructor parameters a scenario binds: the required ones and the known model / grid parameters; an option that has a
    default keeps it (and so does every parameter after the first such option)"""
    init = ci.lookup("__init__")
    params = init.params()[1:]
    ndef = len(init.node.args.defaults)
    optional = set(params[len(params) - ndef:]) if ndef else set()
    out = []
    for p in params:
        if p in optional and p not in KNOWN_CTOR:
            break
        out.append(p)
    return out


def registered_classes(P, I):
    out = {}
    mod = P.module("atsim.potentials.config._tabulation_factories")
    table = I.module_global(mod, "TABULATION_FACTORIES")
    if not isinstance(table, DictV) or len(table.items) < 11:
        raise AnalysisError("TABULATION_FACTORIES has fewer than the 11 entries confirmed by hand")
    for k, fac in table.items.values():
        tc = I.getattr(fac, "tabulation_class")
        if not isinstance(tc, ClassV):
            raise AnalysisError("factory %r has no tabulation class" % (k,))
        out[tc.ci.fq] = (tc.ci, "TABULATION_FACTORIES[%r]" % k.v)
    # writePotentials' local table: collected by running it for each documented key
    for key in ("DL_POLY", "LAMMPS", "GULP"):
        J = W.make_interp(P, elem={("param", "potentials"): W.POT})
        fp = BufV("fp", is_file=True)
        seen = {}
        orig = J.instantiate

        def spy(ci, args, kwargs, node, _orig=orig, _seen=seen):
            if ci.lookup("write") is not None:
                _seen[ci.fq] = ci
            return _orig(ci, args, kwargs, node)
        J.instantiate = spy
        J.run(P.func("atsim.potentials", "writePotentials"), [Const(key), W.param("potentials"), W.nsym("cutoff"), W.nsym("nr"), fp])
        for fq, ci in seen.items():
            out.setdefault(fq, (ci, "writePotentials(%r)" % key))
    return out


def concrete_pots(I, P):
    pot = P.cls(*W.POT)
    return ListV([I.instantiate(pot, [Const(a), Const(b), W.param("phi_%s%s" % (a, b))], {}, None)
                  for a, b in (("Al", "Al"), ("Al", "Cu"))], "list")


def concrete_eam(I, P, fs):
    ci = P.cls(*W.EAMPOT)
    out = []
    for a in ("Al", "Cu"):
        if fs:
            d = DictV()
            for b in ("Al", "Cu"):
                d.items[Const(b).key()] = (Const(b), W.param("rho_%s_%s" % (a, b)))
        else:
            d = W.param("rho_" + a)
        out.append(I.instantiate(ci, [Const(a), Num(ep.const(1)), Num(ep.const(1)), W.param("F_" + a), d], {}, None))
    return ListV(out, "list")


def run(chk):
    P = W.load_program()
    chk.explanation = EXPLANATION
    chk.info.update(P.stats())
    chk.rule("C17.E", "write(fp): no user-function evaluation after the first byte reaches fp", 11)
    chk.rule("C17.W", "write(fp) does reach fp (the summary is not vacuous)", 11)
    chk.rule("C17.O", "open_fp(name) of every tabulation class opens the named output file for (over)writing", 11)
    chk.rule("C17.A", "action_tabulate builds the tabulation before opening the output file and only writes inside the with-block", 2)
    I0 = W.make_interp(P)
    classes = registered_classes(P, I0)
    chk.info["registered_tabulation_classes"] = sorted(c.name for c, _ in classes.values())
    nev = 0
    for fq, (ci, how) in sorted(classes.items()):
        def one(ci=ci, how=how):
            excel = "Excel" in ci.name
            fs = "Finnis" in ci.name or "_FS_" in ci.name
            params = _required(ci)
            I = W.make_interp(P, elem=W.EAM_ELEM)
            if excel:
                excelmodel.install(I)
            args = []
            for p in params:
                if p == "potentials":
                    args.append(concrete_pots(I, P) if excel else W.param("potentials"))
                elif p == "eam_potentials":
                    args.append(concrete_eam(I, P, fs) if excel else W.param("eam_potentials"))
                elif p in ("dipole_potentials", "quadrupole_potentials"):
                    I.elem_classes[("param", p)] = P.cls(*W.POT)
                    args.append(W.param(p))
                else:
                    args.append(W.nsym(p))
            inst = I.instantiate(ci, args, {}, None)
            fp = BufV("fp", is_file=True)
            W.run_method(I, inst, "write", [fp])
            bad = W.first_write_then_eval(I.events)
            site = ci.site_of("write")
            nwrites = W.count_events(I.events, "write")
            nevals = W.count_events(I.events, "eval")
            chk.ob("C17.E", "%s.write: EVAL* then WRITE(fp)*  (%d evaluation site(s), %d write site(s))" % (ci.name, nevals, nwrites),
                   not bad, site=site, found="; ".join(bad) if bad else None,
                   expect="every evaluation of a user function precedes the first write to fp", path=how,
                   key="C17.E|%s.write" % ci.name)
            chk.ob("C17.W", "%s.write reaches fp and evaluates user functions" % ci.name, nwrites >= 1 and nevals >= 1, site=site,
                   found="%d writes, %d evals" % (nwrites, nevals), expect=">=1 each", key="C17.W|%s.write" % ci.name)
            # the file object potable writes to: open_fp(name) opens that very file, for writing (anything else and the named
            # output file is not the one that stays empty or complete)
            if ci.lookup("open_fp") is not None:
                J = W.make_interp(P)
                b = J.call(J.getattr(ClassV(ci), "open_fp"), [Const("out.table")], {})
                fn, mode = getattr(b, "filename", None), getattr(b, "mode", None)
                ok = isinstance(b, BufV) and isinstance(fn, Const) and fn.v == "out.table" and isinstance(mode, Const) \
                    and isinstance(mode.v, str) and mode.v in (("wb",) if excel else ("w", "wt"))
                chk.ob("C17.O", "%s.open_fp(name) opens the named file, truncating, in %s mode" % (ci.name, "binary" if excel else "text"), ok,
                       site=ci.site_of("open_fp"), found=(fn, mode) if isinstance(b, BufV) else b,
                       expect="open(name, %r)" % ("wb" if excel else "w"), key="C17.O|%s.open_fp" % ci.name)
            return nevals
        r = chk.attempt(ci.name, one)
        nev += r or 0
    chk.info["evaluation_sites_seen"] = nev
    chk.rule("C17.R", "a write() that failed leaves nothing behind in the tabulation object: writing again (the function still failing) "
                      "fails again or emits nothing - never a table assembled from the half-built state", 20)
    for fq, (ci, how) in sorted(classes.items()):
        chk.attempt("R/" + ci.name, lambda ci=ci, how=how: retry(chk, P, ci, how))
    chk.attempt("A", lambda: action_tabulate(chk, P))
    chk.assume("I/O failures of fp itself and failures inside openpyxl's save are not considered")
    chk.assume("Excel targets are summarised on a two-potential / two-element model (their cell loops need concrete column counts)")


class _Failing(object):
    """a user function outside its domain: every evaluation raises"""
    def __init__(self, role):
        self.role = role
        self.calls = 0

    def m___call__(self, I, args, kwargs):
        _ = (args, kwargs)
        self.calls += 1
        raise RaiseSignal(ExcV(ExtV("builtins.ValueError"), [Const("math domain error in the %s function" % self.role)]), None)


def _failing_model(I, P, ci, role):
    """constructor arguments of a two-element model in which every function of the given role fails"""
    fs = "Finnis" in ci.name or "_FS_" in ci.name
    fail = _Failing(role)

    def f(r, nm):
        return PyObjV(fail) if r == role else W.param(nm)
    pot = P.cls(*W.POT)
    eam = P.cls(*W.EAMPOT)

    def pots(r, prefix):
        return ListV([I.instantiate(pot, [Const(a), Const(b), f(r, "%s_%s%s" % (prefix, a, b))], {}, None)
                      for a, b in (("Al", "Al"), ("Al", "Cu"))], "list")
    eams = []
    for a in ("Al", "Cu"):
        if fs:
            d = DictV()
            for b in ("Al", "Cu"):
                d.items[Const(b).key()] = (Const(b), f("density", "rho_%s_%s" % (a, b)))
        else:
            d = f("density", "rho_" + a)
        eams.append(I.instantiate(eam, [Const(a), Num(ep.const(1)), Num(ep.const(1)), f("embedding", "F_" + a), d], {}, None))
    args = []
    for p in _required(ci):
        if p == "potentials":
            args.append(pots("pair", "phi"))
        elif p == "eam_potentials":
            args.append(ListV(eams, "list"))
        elif p == "dipole_potentials":
            args.append(pots("dipole", "u"))
        elif p == "quadrupole_potentials":
            args.append(pots("quadrupole", "w"))
        else:
            args.append(W.nsym(p))
    return args, fail


def retry(chk, P, ci, how):
    params = ci.lookup("__init__").params()
    roles = ["pair"]
    if "eam_potentials" in params:
        roles += ["density", "embedding"]
    if "dipole_potentials" in params:
        roles += ["dipole", "quadrupole"]
    site = ci.site_of("write")
    for role in roles:
        I = W.make_interp(P)
        excelmodel.install(I)
        args, fail = _failing_model(I, P, ci, role)
        inst = I.instantiate(ci, args, {}, None)
        outcome = []
        for attempt in (1, 2):
            fp = BufV("fp", is_file=True)
            try:
                W.run_method(I, inst, "write", [fp])
                raised = None
            except RaiseSignal as e:
                raised = e.exc
            outcome.append((raised, bool(fp.pieces)))
        (r1, o1), (r2, o2) = outcome
        if r1 is None and not fail.calls:
            raise AnalysisError("%s.write never evaluates a %s function of the model" % (ci.name, role))
        ok1 = r1 is not None and not o1
        ok2 = not o2
        what = "%s.write with a failing %s function: the first call fails without output" % (ci.name, role)
        chk.ob("C17.R", what, ok1, site=site, found="returns" if r1 is None else ("fails after output" if o1 else "fails, no output"),
               expect="fails, no output", path=how, key="C17.R|%s|%s|first" % (ci.name, role))
        chk.ob("C17.R", "%s.write with a failing %s function: a second write on the same object emits nothing either" % (ci.name, role), ok2,
               site=site, found=("returns with output" if r2 is None else "fails after output") if o2 else ("fails, no output" if r2 is not None else "returns, no output"),
               expect="no output (the failure is met again, or nothing is written)", path=how, key="C17.R|%s|%s|second" % (ci.name, role))


class _Recorder(object):
    def __init__(self, log):
        self.log = log

    def m_open_fp(self, I, args, kwargs):
        self.log.append("open")
        self.opened = args[0]
        self.fp = BufV("outfile", is_file=True)
        return self.fp

    def m_write(self, I, args, kwargs):
        self.log.append("write")
        self.written_to = args[0]
        return NONE


def action_tabulate(chk, P):
    I = W.make_interp(P)
    log = []

    recs = []

    def rfp(i, fv, a, k, n):
        log.append("build")
        recs.append(_Recorder(log))
        return PyObjV(recs[-1])
    I.hooks["atsim.potentials.config._configuration:Configuration.read_from_parser"] = rfp
    fi = P.func("atsim.potentials.tools.potable._actions", "action_tabulate")
    I.run(fi, [W.param("cp"), Const("out.txt")])
    chk.ob("C17.A", "tabulation is built before the output file is opened", log[:2] == ["build", "open"], site=fi.site(), found=log,
           expect=["build", "open", "write"], key="C17.A|build-before-open")
    chk.ob("C17.A", "after opening, the only action is tabulation.write(outfile)", log[2:] == ["write"], site=fi.site(), found=log,
           expect=["build", "open", "write"], key="C17.A|only-write")
    r = recs[0] if recs else None
    opened = getattr(r, "opened", None)
    ok = isinstance(opened, Const) and opened.v == "out.txt" and getattr(r, "written_to", None) is getattr(r, "fp", 0)
    chk.ob("C17.A", "the file opened is the requested output file and the tabulation is written to that file object", ok, site=fi.site(),
           found=(opened, getattr(r, "written_to", None)), expect="open_fp(outfilename); write(<that file>)", key="C17.A|which-file")

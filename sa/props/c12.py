"""C12 - tabulation is deterministic; evaluation is pure (DESIGN.md section 4, C12)."""
import ast
import re

from .. import ep
from ..model import AnalysisError, ClassInfo, FuncInfo
from ..values import *     # noqa
from ..symeval import RaiseSignal
from ..symeval_ops import ExcV, NTV, PyObjV
from .. import formrules as F
from .. import writerules as W
from .. import cfgmodel as M
from ..taint import Taint, ORDER, ELEM, _own_nodes

EXPLANATION = (
    "Histories and hash seeds are effects, decided without running anything: (O1) a field-based interprocedural taint from "
    "unsorted set iteration through list/dict construction, attributes, arguments and returns to output effects - no written "
    "byte may depend on hash order; (O2) no function assigns module-level or class-level state (global statements, stores "
    "through module/class-level containers, attribute assignment on the shared factory objects); (O3) no mutable default "
    "argument, nor a field it is stored in, is ever mutated; (O4) a custom formula re-binds all of its parameters, "
    "unconditionally, before every evaluation and keeps no other state between calls (syntax tree + abstract evaluation of "
    "two consecutive calls); (O5) caches follow the write-once idiom; (O6) no source of nondeterminism (random, time, uuid, "
    "id(), hash(), environment) is used by the package.")

MUTATORS = ("append", "extend", "insert", "update", "setdefault", "add", "pop", "popitem", "clear", "sort", "reverse", "remove", "discard")


def run(chk):
    P = F.load_program()
    chk.explanation = EXPLANATION
    chk.info.update(P.stats())
    chk.rule("C12.O1", "no output effect inside an iteration whose order derives from unsorted set iteration", 4)
    chk.rule("C12.O1s", "self-test of the taint engine on a positive example kept in /verif (must be flagged on every run)", 1)
    chk.rule("C12.O2", "no function writes module-level or class-level state", 3)
    chk.rule("C12.O3", "mutable default arguments (and the fields that store them) are never mutated", 1)
    chk.rule("C12.O4", "custom formula evaluation is a function of its arguments only: all parameters re-bound unconditionally before each evaluation", 5)
    chk.rule("C12.O5", "caches are write-once (assigned None in __init__, filled only under 'is None')", 5)
    chk.rule("C12.O6", "no nondeterminism source is used", 1)
    chk.attempt("O1", lambda: hash_order(chk, P))
    chk.attempt("O1s", lambda: taint_selftest(chk))
    chk.rule("C12.O7", "instance state written outside setters / construction / write-once caches cannot be observed: results do not "
                       "depend on the order of earlier evaluations", 10)
    chk.attempt("O7", lambda: instance_state(chk, P))
    chk.attempt("O2", lambda: global_state(chk, P))
    chk.attempt("O3", lambda: mutable_defaults(chk, P))
    chk.attempt("O4", lambda: formula_purity(chk, P))
    chk.attempt("O5", lambda: caches(chk, P))
    chk.attempt("O6", lambda: nondeterminism(chk, P))
    chk.assume("bytes produced inside openpyxl for the Excel targets (timestamps) are not decided")
    chk.assume("iteration order of dict (insertion order) and list is deterministic; only set iteration depends on PYTHONHASHSEED")


def hash_order(chk, P):
    t = Taint(P, modules="atsim")
    viol = t.run()
    chk.info["taint_functions"] = len(t.funcs)
    chk.info["taint_fixpoint_iterations"] = t.iterations
    chk.info["set_typed_locals"] = len(t.setvars)
    chk.info["tainted_locations"] = len(t.flags)
    seen = set()
    for fi, node, what in viol:
        key = "C12.O1|%s|%s" % (fi.fq, " ".join(ast.unparse(node).split())[:60])
        if key in seen:
            continue
        seen.add(key)
        chk.ob("C12.O1", "%s: %s" % (fi.qualname, what), False, site=fi.site(node), found=ast.unparse(node)[:120],
               expect="sorted(...) before anything ordered is built from a set", key=key)
    # every loop over a set is listed with its verdict
    for fi, node, is_sorted in t.set_loops:
        why = t.iter_source_tainted(fi, node.iter)
        effects = _ordered_effects(t, fi, node)
        ok = is_sorted or not any(e[0] == "output" for e in effects)
        chk.ob("C12.O1", "%s: loop over the set %s %s" % (fi.qualname, ast.unparse(node.iter)[:50],
               "is sorted" if is_sorted else "is unsorted; its effects (%s) are tracked to every use" % ", ".join(sorted(set(e[1] for e in effects))) ),
               ok, site=fi.site(node), found=None if ok else effects, expect="sorted or no output effect",
               key="C12.O1|loop|%s|%s" % (fi.fq, ast.unparse(node.iter)[:40]))
    # tainted locations must not be iterated with output effects - summarised as one obligation listing them
    tainted = sorted("%s:%s" % (k[1].split(":")[-1].split("@")[0] if k[0] == "var" else k[0], k[2] if k[0] == "var" else k[1])
                     for k, v in t.flags.items() if ORDER in v)
    chk.ob("C12.O1", "hash-order-tainted containers (%d) never reach an output effect through iteration" % len(tainted), not viol,
           site="atsim/potentials", found=[w for _, _, w in viol][:3] or None, expect="no ordered output under tainted iteration",
           key="C12.O1|summary")
    chk.samples_extra.append({"order_tainted_locations": tainted[:20]})


def _ordered_effects(t, fi, loop):
    out = []
    for node in ast.walk(ast.Module(body=loop.body, type_ignores=[])):
        if isinstance(node, ast.Call):
            f = node.func
            if isinstance(f, ast.Attribute) and f.attr in ("write", "writelines") or (isinstance(f, ast.Name) and f.id == "print"):
                out.append(("output", "write"))
            elif isinstance(f, ast.Attribute) and f.attr in ("append", "extend"):
                out.append(("order", "list append"))
            elif isinstance(f, ast.Attribute) and f.attr in ("setdefault", "update"):
                out.append(("order", "dict insertion"))
            elif any(g.fq in t.has_write for g in t.callees(fi, node)):
                out.append(("output", "call of a writer"))
        elif isinstance(node, ast.Assign) and any(isinstance(x, ast.Subscript) for x in node.targets):
            out.append(("order", "dict insertion"))
    return out


POSITIVE = '''
def fill(d, names):
    for s in names:
        d[s] = 0

def build(defined, declared):
    missing = set(declared) - set(defined)
    table = {}
    fill(table, missing)
    out = []
    for k in table:
        out.append(k)
    return out

def emit(fp, defined, declared):
    for name in build(defined, declared):
        fp.write(name)
'''


def taint_selftest(chk):
    """the rule's expected count on the tree is zero, so a tiny positive example must be flagged on every run"""
    import os
    import tempfile
    from ..model import Program, Module, PKG_ROOT
    import ast as _ast

    class Mini(object):
        pass
    # build a minimal Program-like object around the example
    from .. import model as _m
    p = _m.Program.__new__(_m.Program)
    p.repo = "/verif"
    p.modules = {}
    p.classes = {}
    p.funcs = {}
    mod = _m.Module("example", "/verif/sa/props/c12.py#POSITIVE", POSITIVE, _ast.parse(POSITIVE), False)
    p.modules["example"] = mod
    p._index_module(mod)
    t = Taint(p)
    v = t.run()
    ok = any(fi.name == "emit" for fi, node, what in v)
    chk.ob("C12.O1s", "set difference -> dict filled in a callee -> list built from the dict -> written: flagged in emit()", ok,
           site="/verif/sa/props/c12.py POSITIVE", found=[(fi.name, w) for fi, n, w in v] or "not flagged", expect="violation in emit()",
           key="C12.O1s|positive")


def _import_time_only(P, fi):
    """fi (a module-level function) is referenced at least once, and never from inside a function body"""
    name = fi.name
    at_module_level = 0
    for m in P.modules.values():
        def visit(node, in_func):
            nonlocal at_module_level
            for ch in ast.iter_child_nodes(node):
                if isinstance(ch, (ast.FunctionDef, ast.AsyncFunctionDef, ast.Lambda)):
                    if isinstance(ch, ast.Lambda):
                        if not visit(ch, True):
                            return False
                        continue
                    # decorators and defaults are evaluated where the def statement stands
                    for d in ch.decorator_list + ch.args.defaults + [x for x in ch.args.kw_defaults if x is not None]:
                        if not visit_expr(d, in_func):
                            return False
                    if ch is fi.node:
                        continue
                    for st in ch.body:
                        if not visit(ast.Module(body=[st], type_ignores=[]), True):
                            return False
                    continue
                if isinstance(ch, (ast.Name, ast.Attribute)):
                    if not visit_expr(ch, in_func):
                        return False
                    continue
                if not visit(ch, in_func):
                    return False
            return True

        def visit_expr(e, in_func):
            nonlocal at_module_level
            for n in ast.walk(e):
                hit = (isinstance(n, ast.Name) and n.id == name and isinstance(n.ctx, ast.Load)) or \
                      (isinstance(n, ast.Attribute) and n.attr == name)
                if hit:
                    if in_func:
                        return False
                    at_module_level += 1
            return True
        if not visit(m.tree, False):
            return False
    return at_module_level > 0


def global_state(chk, P):
    bad = []
    nfun = 0
    for fi in P.all_functions():
        nfun += 1
        m = fi.module
        for node in _own_nodes(fi.node):
            if isinstance(node, ast.Global):
                bad.append((fi, node, "global statement: %s" % ", ".join(node.names)))
            tgt = None
            if isinstance(node, ast.Assign):
                tgts = node.targets
            elif isinstance(node, ast.AugAssign):
                tgts = [node.target]
            else:
                tgts = []
            for t in tgts:
                root = _root(t)
                if isinstance(t, (ast.Subscript, ast.Attribute)) and isinstance(root, ast.Name) and _is_module_level(P, fi, root.id):
                    bad.append((fi, node, "store through module-level name %s" % root.id))
                if isinstance(t, (ast.Subscript,)) and _class_level_container(fi, t.value):
                    bad.append((fi, node, "store into class-level container %s" % ast.unparse(t.value)))
            if isinstance(node, ast.Call) and isinstance(node.func, ast.Attribute) and node.func.attr in MUTATORS:
                root = _root(node.func.value)
                if isinstance(root, ast.Name) and _is_module_level(P, fi, root.id) and not _is_local(fi, root.id):
                    bad.append((fi, node, "mutation of module-level object %s" % ast.unparse(node.func.value)))
                if _class_level_container(fi, node.func.value):
                    bad.append((fi, node, "mutation of class-level container %s" % ast.unparse(node.func.value)))
    # registration at import: a function used only in decorator position / at module level runs while the module is
    # being imported, in source order - its writes are part of building the module's constants, not state that a
    # tabulation can observe changing
    still = []
    for fi, node, what in bad:
        outer = fi
        while outer.parent is not None:
            outer = outer.parent
        if outer.cls is None and _import_time_only(P, outer):
            chk.ob("C12.O2", "%s: %s - only while the module is imported (registration by decorator)" % (fi.qualname, what), True,
                   site=fi.site(node), key="C12.O2|%s|%s|import-time" % (fi.fq, what))
        else:
            still.append((fi, node, what))
    bad = []
    for fi, node, what in still:
        root = what.rsplit(" ", 1)[-1].split(".")[0].split("[")[0]
        if ("module-level" in what) and _memo_filter(P, fi, root):
            chk.ob("C12.O2", "%s: %s - a look-up table whose key determines its value (%s)" % (fi.qualname, what, MEMO_EXPERIMENTS[fi.module.name][0]),
                   True, site=fi.site(node), key="C12.O2|%s|%s|memo" % (fi.fq, what))
        else:
            bad.append((fi, node, what))
    for fi, node, what in bad:
        chk.ob("C12.O2", "%s: %s" % (fi.qualname, what), False, site=fi.site(node), found=ast.unparse(node)[:100], expect="no shared state written",
               key="C12.O2|%s|%s" % (fi.fq, what))
    chk.ob("C12.O2", "%d functions inspected: none declares global, stores through or mutates a module-level / class-level object" % nfun, not bad,
           site="atsim", found=len(bad) or None, expect=0, key="C12.O2|summary")
    # Configuration copies the factory table; factory objects (module-level singletons) assign attributes only in __init__
    conf = P.cls("atsim.potentials.config._configuration", "Configuration")
    init = conf.lookup("__init__")
    copies = any(isinstance(n, ast.Call) and isinstance(n.func, ast.Name) and n.func.id == "dict" and n.args
                 and isinstance(n.args[0], ast.Name) and n.args[0].id == "TABULATION_FACTORIES" for n in ast.walk(init.node))
    direct = any(isinstance(n, ast.Assign) and isinstance(n.value, ast.Name) and n.value.id == "TABULATION_FACTORIES" for n in ast.walk(init.node))
    chk.ob("C12.O2", "Configuration works on a copy of TABULATION_FACTORIES", copies and not direct, site=init.site(), found="copied" if copies else "shared",
           expect="dict(TABULATION_FACTORIES)", key="C12.O2|factory-table-copy")
    fac = P.cls("atsim.potentials.config._tabulation_factories", "PairTabulationFactory")
    stores = []
    for c in P.subclasses(fac):
        for name, fi in c.methods.items():
            if name == "__init__":
                continue
            for node in _own_nodes(fi.node):
                if isinstance(node, (ast.Assign, ast.AugAssign)):
                    for t in (node.targets if isinstance(node, ast.Assign) else [node.target]):
                        if isinstance(t, ast.Attribute) and isinstance(t.value, ast.Name) and t.value.id == "self":
                            stores.append("%s.%s assigns self.%s" % (c.name, name, t.attr))
    chk.ob("C12.O2", "the shared tabulation factory objects keep no per-model state (no attribute assigned outside __init__)", not stores,
           site=fac.module.relpath, found=stores or None, expect="stateless after construction", key="C12.O2|factories-stateless")


def _root(e):
    while isinstance(e, (ast.Attribute, ast.Subscript, ast.Call)):
        e = e.value if not isinstance(e, ast.Call) else e.func
    return e


def _is_local(fi, name):
    if name in fi.params():
        return True
    for node in _own_nodes(fi.node):
        if isinstance(node, ast.Name) and node.id == name and isinstance(node.ctx, ast.Store):
            return True
        if isinstance(node, (ast.Import, ast.ImportFrom)):
            for a in node.names:
                if (a.asname or a.name.split(".")[0]) == name:
                    return True
    p = fi.parent
    while p is not None:
        if name in p.params():
            return True
        for node in _own_nodes(p.node):
            if isinstance(node, ast.Name) and node.id == name and isinstance(node.ctx, ast.Store):
                return True
        p = p.parent
    return False


# ------------------------------------------------------------------------------------------------------------------
# module-level memo tables: written state that cannot be observed when the key determines the value
_MEMO_VERDICT = {}
MEMO_EXPERIMENTS = {
    # module -> (what decides it, function(view, P) discharging obligations): the second-use experiment of the property
    # whose objects go through that module
    "atsim.potentials.spline": ("C10.O7 (a second spline with one radius changed solves the system of its own radii)", "c10", "second_spline"),
}


def memo_verdict(P, module, name):
    """'transparent' | 'observable' | 'undecided: why' | None (not a memo table) for the module-level name `name`:
    a dictionary that the whole package touches only as a look-up table (get / in / [] / store / clear / len / pop) and for
    which an experiment of this machinery decides that a second use with other inputs gives what a fresh process gives"""
    k = (module.name, name)
    if k in _MEMO_VERDICT:
        return _MEMO_VERDICT[k]
    verdict = None
    b = module.bindings.get(name)
    val = getattr(getattr(b, "node", None), "value", None)
    is_dict = isinstance(val, ast.Dict) and not val.keys or (isinstance(val, ast.Call) and ast.unparse(val.func).split(".")[-1] in ("dict", "OrderedDict")
                                                             and not val.args and not val.keywords)
    if b is not None and b.kind == "assign" and is_dict:
        ok = True
        for m in P.modules.values():
            parents = {}
            for n in ast.walk(m.tree):
                for ch in ast.iter_child_nodes(n):
                    parents[ch] = n
            for n in ast.walk(m.tree):
                refers = (isinstance(n, ast.Name) and n.id == name and m is module) or \
                         (isinstance(n, ast.Attribute) and n.attr == name and m is not module)
                if not refers:
                    continue
                p = parents.get(n)
                if isinstance(n, ast.Name) and isinstance(n.ctx, ast.Store) and isinstance(p, ast.Assign) and p is b.node:
                    continue
                if isinstance(p, ast.Subscript) and p.value is n:
                    continue
                if isinstance(p, ast.Attribute) and p.value is n and p.attr in ("get", "clear", "pop", "popitem", "setdefault") \
                        and isinstance(parents.get(p), ast.Call):
                    continue
                if isinstance(p, ast.Compare) and n in p.comparators and all(isinstance(o, (ast.In, ast.NotIn)) for o in p.ops):
                    continue
                if isinstance(p, ast.Call) and isinstance(p.func, ast.Name) and p.func.id == "len" and p.args == [n]:
                    continue
                if isinstance(n, ast.Attribute) and m is not module:
                    continue          # an attribute of that name on some other object
                ok = False
        exp = MEMO_EXPERIMENTS.get(module.name)
        if ok and exp is not None:
            import importlib
            from ..report import RuleView

            class _Collect(object):
                def __init__(self):
                    self.bad, self.n = [], 0

                def ob(self, rule, desc, ok_, **kw):
                    self.n += 1
                    if not ok_:
                        self.bad.append(desc)

                def rule(self, *a, **k):
                    pass

                def assume(self, *a, **k):
                    pass
            col = _Collect()
            try:
                getattr(importlib.import_module("sa.props." + exp[1]), exp[2])(col, P)
                verdict = "transparent" if col.n and not col.bad else "observable"
            except AnalysisError as e:
                verdict = "undecided: %s" % e
    _MEMO_VERDICT[k] = verdict
    return verdict


def _memo_filter(P, fi, rootname):
    """True: a write to the module-level table `rootname` by fi is a transparent memo fill (discharged); False: report it.
    Raises AnalysisError when the deciding experiment could not be carried out"""
    v = memo_verdict(P, fi.module, rootname)
    if v == "transparent":
        return True
    if v is not None and v.startswith("undecided"):
        raise AnalysisError("%s writes the module-level look-up table %s; whether its key determines its value is decided by %s, which "
                            "could not be carried out (%s)" % (fi.qualname, rootname, MEMO_EXPERIMENTS[fi.module.name][0], v[11:160]))
    return False


def _is_module_level(P, fi, name):
    if _is_local(fi, name) or name in ("self", "cls"):
        return False
    b = fi.module.bindings.get(name)
    return b is not None and b.kind == "assign"


def _class_level_container(fi, e):
    """self.X / cls.X where X is a mutable literal defined in the class body and never assigned on the instance"""
    if not (isinstance(e, ast.Attribute) and isinstance(e.value, ast.Name) and e.value.id in ("self", "cls") and fi.cls is not None):
        return False
    c, expr = fi.cls.lookup_class_attr(e.attr)
    if expr is None or not isinstance(expr, (ast.Dict, ast.List, ast.Set)):
        return False
    for cc in fi.cls.mro():
        if isinstance(cc, ClassInfo):
            for m in cc.methods.values():
                for node in ast.walk(m.node):
                    if isinstance(node, ast.Assign):
                        for t in node.targets:
                            if isinstance(t, ast.Attribute) and t.attr == e.attr and isinstance(t.value, ast.Name) and t.value.id == "self":
                                return False
    return True


def mutable_defaults(chk, P):
    sites = []
    examined = 0
    for fi in P.all_functions():
        if not fi.module.name.startswith("atsim"):
            continue
        a = fi.node.args
        params = [x.arg for x in a.args]
        for i, d in enumerate(a.defaults):
            examined += 1
            pname = params[len(params) - len(a.defaults) + i]
            mutable = isinstance(d, (ast.List, ast.Dict, ast.Set)) or \
                (isinstance(d, ast.Call) and isinstance(P.resolve_expr(fi.module, d.func), ClassInfo))
            if mutable:
                sites.append((fi, pname, d))
    # the guard against a vacuous rule is the number of default arguments looked at, not how many of them are mutable: a tree
    # without any mutable default satisfies the rule
    if examined < 40:
        raise AnalysisError("only %d default arguments were examined (more than 60 confirmed by reading)" % examined)
    chk.ob("C12.O3", "%d default arguments of the package examined, %d of them mutable objects (each followed below)" % (examined, len(sites)),
           True, site="atsim/", key="C12.O3|examined")
    # fields that store a mutable default (self.X = param)
    fields = {}
    for fi, pname, d in sites:
        for node in _own_nodes(fi.node):
            if isinstance(node, ast.Assign) and isinstance(node.value, ast.Name) and node.value.id == pname:
                for t in node.targets:
                    if isinstance(t, ast.Attribute):
                        fields[t.attr] = (fi, pname)
    for fi, pname, d in sites:
        bad = []
        for node in _own_nodes(fi.node):
            if _mutates(node, lambda e: isinstance(e, ast.Name) and e.id == pname):
                bad.append("%s line %d" % (ast.unparse(node)[:60], node.lineno))
        chk.ob("C12.O3", "%s(%s=%s): the default object is not mutated in the function" % (fi.qualname, pname, ast.unparse(d)), not bad,
               site=fi.site(), found=bad or None, expect="read only", key="C12.O3|param|%s|%s" % (fi.fq, pname))
    for fname, (ofi, pname) in sorted(fields.items()):
        bad = []
        for fi in P.all_functions():
            for node in _own_nodes(fi.node):
                if _mutates(node, lambda e: isinstance(e, ast.Attribute) and e.attr == fname):
                    bad.append("%s: %s" % (fi.qualname, ast.unparse(node)[:60]))
        chk.ob("C12.O3", "field .%s holds the default of %s(%s) and is never mutated anywhere" % (fname, ofi.qualname, pname), not bad,
               site=ofi.site(), found=bad or None, expect="read only", key="C12.O3|field|%s" % fname)


def shared_state_findings(P):
    """[(function, description)]: every place where a function mutates a default-argument object, a field that stores one,
    or a module-level / class-level container (the raw material of C12.O2/O3, reusable per call path)"""
    out = []
    sites = []
    for fi in P.all_functions():
        a = fi.node.args
        params = [x.arg for x in a.args]
        for i, d in enumerate(a.defaults):
            pname = params[len(params) - len(a.defaults) + i]
            if isinstance(d, (ast.List, ast.Dict, ast.Set)) or \
                    (isinstance(d, ast.Call) and isinstance(P.resolve_expr(fi.module, d.func), ClassInfo)):
                sites.append((fi, pname, d))
    fields = {}
    for fi, pname, d in sites:
        for node in _own_nodes(fi.node):
            if isinstance(node, ast.Assign) and isinstance(node.value, ast.Name) and node.value.id == pname:
                for t in node.targets:
                    if isinstance(t, ast.Attribute):
                        fields[t.attr] = (fi, pname)
            if _mutates(node, lambda e: isinstance(e, ast.Name) and e.id == pname):
                out.append((fi, "mutates its default argument %s=%s: %s" % (pname, ast.unparse(d), ast.unparse(node)[:50])))
    for fname, (ofi, pname) in fields.items():
        for fi in P.all_functions():
            for node in _own_nodes(fi.node):
                if _mutates(node, lambda e: isinstance(e, ast.Attribute) and e.attr == fname):
                    out.append((fi, "mutates .%s, which holds the default object of %s(%s): %s" % (fname, ofi.qualname, pname, ast.unparse(node)[:50])))
    for fi in P.all_functions():
        for node in _own_nodes(fi.node):
            if isinstance(node, ast.Global):
                out.append((fi, "global statement: %s" % ", ".join(node.names)))
            if isinstance(node, ast.Call) and isinstance(node.func, ast.Attribute) and node.func.attr in MUTATORS:
                root = _root(node.func.value)
                if isinstance(root, ast.Name) and _is_module_level(P, fi, root.id) and not _is_local(fi, root.id):
                    outer = fi
                    while outer.parent is not None:
                        outer = outer.parent
                    if not (outer.cls is None and _import_time_only(P, outer)) and not _memo_filter(P, fi, root.id):
                        out.append((fi, "mutates module-level object %s" % ast.unparse(node.func.value)))
    return out


def path_state(chk, P, rule, inlined, what):
    """no function on a check's own call path keeps state between calls (same input -> same output on every call)"""
    mine = [(fi, d) for fi, d in shared_state_findings(P) if fi.fq in inlined]
    for fi, d in mine:
        chk.ob(rule, "%s %s" % (fi.qualname, d), False, site=fi.site(), found=d, expect="no state shared between calls",
               key="%s|%s|%s" % (rule, fi.fq, d.split(":")[0][:60]))
    chk.ob(rule, "%s: none of the %d functions on this path mutates a default-argument object, a field holding one, or a "
                 "module-level container" % (what, len(inlined)), not mine and len(inlined) > 0, site="atsim", found=len(mine) or None, expect=0,
           key="%s|%s|summary" % (rule, what))


def _mutates(node, is_target):
    if isinstance(node, ast.Call) and isinstance(node.func, ast.Attribute) and node.func.attr in MUTATORS and is_target(node.func.value):
        return True
    if isinstance(node, ast.Assign):
        for t in node.targets:
            if isinstance(t, ast.Subscript) and is_target(t.value):
                return True
    if isinstance(node, ast.AugAssign) and (is_target(node.target) or (isinstance(node.target, ast.Subscript) and is_target(node.target.value))):
        return True
    if isinstance(node, ast.Delete):
        for t in node.targets:
            if isinstance(t, ast.Subscript) and is_target(t.value):
                return True
    return False


def formula_purity(chk, P):
    cx = P.cls("atsim.potentials.config._cexprtk_potential_function", "_Cexptrk_Potential_Function")
    call = cx.lookup("__call__")
    site = call.site()
    # 1. whatever the previous calls were, the expression is evaluated with exactly this call's arguments bound to the
    #    parameter names: a sequence that changes one argument at a time, repeats calls and interleaves a second form
    Ib = F.make_interp(P)
    M.install_cexprtk(Ib)
    from .c09 import _form_tuple as _ft1
    fa = Ib.instantiate(cx, [_ft1(Ib, P, "f", ["r", "A", "n"], "A*r^n")], {}, None)
    fb = Ib.instantiate(cx, [_ft1(Ib, P, "g", ["r", "A", "n"], "A+r+n")], {}, None)
    seq = [(fa, ("r0", "a0", "n0")), (fa, ("r1", "a0", "n0")), (fa, ("r1", "a1", "n0")), (fb, ("r9", "a9", "n9")),
           (fa, ("r1", "a1", "n1")), (fa, ("r1", "a1", "n1")), (fb, ("r1", "a9", "n9")), (fa, ("r0", "a0", "n0"))]
    bad = []
    for idx, (fn, args) in enumerate(seq):
        Ib.call(fn, [Num(ep.sym(x)) for x in args], {})
        ex = M.expression_of(fn)
        last = ex.evaluations[-1] if ex is not None and ex.evaluations else {}
        got = tuple(repr(Ib.num(last[k])) if k in last else None for k in ("r", "A", "n"))
        if got != args:
            bad.append("call %d %s%r evaluated with %r" % (idx + 1, "f" if fn is fa else "g", args, got))
    chk.ob("C12.O4", "in a sequence of %d calls (one argument changed at a time, repeats, a second form in between) every evaluation sees "
                     "exactly that call's arguments" % len(seq), not bad, site=site, found=bad[:3] or None,
           expect="r, A, n bound to the call's own arguments", key="C12.O4|unconditional-binding")
    # 1b. a call with fewer (or more) arguments than the signature - a custom form invoked from another formula with the wrong
    #     number of arguments - must not be evaluated with whatever an earlier call left bound to the missing names
    for label, args in (("one argument too few", ("r5", "a5")), ("one argument too many", ("r5", "a5", "n5", "x5"))):
        n0 = len(M.expression_of(fa).evaluations) if M.expression_of(fa) is not None else 0
        try:
            Ib.call(fa, [Num(ep.sym(x)) for x in args], {})
            outcome_ = "evaluated"
        except RaiseSignal:
            outcome_ = "refused"
        ex = M.expression_of(fa)
        evaluated = ex is not None and len(ex.evaluations) > n0
        chk.ob("C12.O4", "a call of f(r, A, n) with %s is refused, not evaluated with values left over from earlier calls" % label,
               outcome_ == "refused" and not evaluated, site=site, found=outcome_, expect="refused", key="C12.O4|arity|%s" % label)
    # 2. no instance state written in __call__ apart from the lazily created expression: the first call may add attributes
    #    that hold the parsed expression (a write-once cache); a second call adds and changes nothing
    I0 = F.make_interp(P)
    M.install_cexprtk(I0)
    from .c09 import _form_tuple as _ft
    f0 = I0.instantiate(cx, [_ft(I0, P, "f", ["r", "A"], "A*r")], {}, None)

    def snap(inst):
        return dict((k, v.key()) for k, v in inst.attrs.items())
    s0 = snap(f0)
    I0.call(f0, [Num(ep.sym("r1")), Num(ep.sym("a1"))], {})
    s1 = snap(f0)
    I0.call(f0, [Num(ep.sym("r2")), Num(ep.sym("a2"))], {})
    s2 = snap(f0)
    changed1 = sorted(k for k in s1 if s0.get(k) != s1[k])
    only_expr = all(isinstance(f0.attrs[k], PyObjV) and isinstance(f0.attrs[k].obj, M.Expression) for k in changed1)
    chk.ob("C12.O4", "__call__ assigns no instance attribute other than the lazily parsed expression, and only on the first call",
           only_expr and s1 == s2, site=site, found={"first call": changed1, "second call": sorted(k for k in s2 if s1.get(k) != s2[k])},
           expect="first call: the parsed expression only; second call: nothing", key="C12.O4|no-call-state")
    # 3. abstract evaluation: two different forms, interleaved calls, shared sub-form with different arguments
    I = F.make_interp(P)
    M.install_cexprtk(I)
    from .c09 import _form_tuple
    f = I.instantiate(cx, [_form_tuple(I, P, "f", ["r", "A", "n"], "A*r^n")], {}, None)
    g = I.instantiate(cx, [_form_tuple(I, P, "g", ["r", "A", "n"], "A*r^n")], {}, None)
    seq = [(f, ("r", "a1", "n1")), (g, ("r", "a2", "n2")), (f, ("r", "a1", "n3")), (f, ("r", "a1", "n1"))]
    vals = []
    for fn, args in seq:
        vals.append(I.num(I.call(fn, [Num(ep.sym(x)) for x in args], {})))
    chk.ob("C12.O4", "same form, same r, only the last argument changed: the evaluation sees the new binding",
           not ep.equal(vals[0], vals[2])[0], site=site, found=vals[2], expect="value for (r, a1, n3)", key="C12.O4|last-arg-rebound")
    chk.ob("C12.O4", "repeating a call after other calls gives the value of the first time (history independent)",
           ep.equal(vals[0], vals[3])[0], site=site, found=vals[3], expect=vals[0], key="C12.O4|history-independent")
    tf, tg = M.symbol_table_of(f), M.symbol_table_of(g)
    chk.ob("C12.O4", "each form has its own symbol table and expression", tf is not tg and M.expression_of(f) is not M.expression_of(g),
           site=cx.site_of("__init__"), found="shared" if tf is tg else "separate", expect="separate", key="C12.O4|per-instance")


def caches(chk, P):
    found = 0
    for ci in sorted(P.classes.values(), key=lambda c: c.fq):
        init = ci.methods.get("__init__")
        if init is None:
            continue
        none_attrs = set()
        for node in ast.walk(init.node):
            if isinstance(node, ast.Assign) and isinstance(node.value, ast.Constant) and node.value.value is None:
                for t in node.targets:
                    if isinstance(t, ast.Attribute) and isinstance(t.value, ast.Name) and t.value.id == "self":
                        none_attrs.add(t.attr)
        for attr in sorted(none_attrs):
            writers = []
            for c in [ci] + P.subclasses(ci, strict=True):
                for name, fi in c.methods.items():
                    if name == "__init__":
                        continue
                    for node in ast.walk(fi.node):
                        if isinstance(node, ast.Assign):
                            for t in node.targets:
                                if isinstance(t, ast.Attribute) and t.attr == attr and isinstance(t.value, ast.Name) and t.value.id == "self":
                                    writers.append((c, fi, node))
            if not writers:
                continue
            found += 1
            bad = []
            for c, fi, node in writers:
                if not (_under_is_none(fi.node, node, attr) or _only_called_under_is_none(c, fi, attr) or _construction_only(c, fi)):
                    bad.append("%s.%s line %d" % (c.name, fi.name, node.lineno))
            chk.ob("C12.O5", "%s.%s is filled only when it is still None (%d writer(s))" % (ci.name, attr, len(writers)), not bad, site=init.site(),
                   found=bad or None, expect="assignment guarded by 'if self.%s is None'" % attr, key="C12.O5|%s.%s" % (ci.name, attr))
    if found < 5:
        raise AnalysisError("only %d lazily filled attributes found (5 confirmed by reading)" % found)


def _always_exits(stmts):
    return bool(stmts) and isinstance(stmts[-1], (ast.Return, ast.Raise, ast.Continue, ast.Break))


def _guard_walk(fnode, target, enters_none, leaves_filled):
    """is `target` reached only where the cache attribute is still empty?  Recognised shapes:
         if <attr is None>: ... target ...                (enters_none(test))
         if <attr is not None>: return ...  ; ... target ...   (leaves_filled(test), body always exits)"""
    def guarded(node, under):
        if node is target:
            return under
        for field, val in ast.iter_fields(node):
            if isinstance(val, list):
                u_seq = under
                for k in val:
                    if not isinstance(k, ast.AST):
                        continue
                    u = u_seq
                    if isinstance(node, ast.If) and field == "body" and enters_none(node.test):
                        u = True
                    r = guarded(k, u)
                    if r is not None:
                        return r
                    if isinstance(k, ast.If) and not k.orelse and leaves_filled(k.test) and _always_exits(k.body):
                        u_seq = True          # past an early exit taken whenever the cache is filled
            elif isinstance(val, ast.AST):
                r = guarded(val, under)
                if r is not None:
                    return r
        return None
    return bool(guarded(fnode, False))


def _under_is_none(fnode, target, attr):
    return _guard_walk(fnode, target, lambda t: _tests_none(t, attr), lambda t: _tests_filled(t, attr))


def _tests_filled(test, attr):
    t = ast.unparse(test)
    return t in ("self.%s is not None" % attr, "not self.%s is None" % attr, "self.%s" % attr, "not (self.%s is None)" % attr)


def _tests_none(test, attr):
    t = ast.unparse(test)
    return ("self.%s is None" % attr) in t or ("not self.%s" % attr) in t


def _only_called_under_is_none(ci, fi, attr):
    """the writer method is called only from places guarded by 'if self.attr is None'"""
    callers = 0
    ok = True
    for c in [ci] + ci.program.subclasses(ci, strict=True):
        for m in c.methods.values():
            for node in ast.walk(m.node):
                if isinstance(node, ast.Call) and isinstance(node.func, ast.Attribute) and node.func.attr == fi.name \
                        and isinstance(node.func.value, ast.Name) and node.func.value.id == "self":
                    callers += 1
                    if not _under_is_none(m.node, node, attr):
                        ok = False
    return callers > 0 and ok


def _construction_only(ci, fi, depth=0):
    """the method is (transitively) called only from __init__ of its class: part of construction, not a cache"""
    if depth > 4:
        return False
    callers = []
    for c in [ci] + ci.program.subclasses(ci, strict=True):
        for m in list(c.methods.values()) + list(c.setters.values()):
            for node in ast.walk(m.node):
                if isinstance(node, ast.Call) and isinstance(node.func, ast.Attribute) and node.func.attr == fi.name \
                        and isinstance(node.func.value, ast.Name) and node.func.value.id == "self":
                    callers.append((c, m))
    if not callers or fi.is_property or fi.is_setter:
        return False
    return all(m.name == "__init__" or _construction_only(c, m, depth + 1) for c, m in callers)


def _under_any_is_none(fnode, target):
    """target lies in the body of an 'if self.<something> is None' / 'if not self.<something>' test, or after an early exit
    taken when 'self.<something> is not None'"""
    def enters(test):
        t = ast.unparse(test)
        return bool(re.search(r"self\.\w+ is None", t) or re.search(r"not self\.\w+", t))

    def leaves(test):
        t = ast.unparse(test)
        return bool(re.fullmatch(r"self\.\w+ is not None|not self\.\w+ is None|self\.\w+|not \(self\.\w+ is None\)", t))
    return _guard_walk(fnode, target, enters, leaves)


def _cache_fill_only(ci, fi, depth=0):
    """the method runs only as part of filling a write-once cache (every call site is under an 'is None' guard) or of
    construction"""
    if depth > 4 or fi.is_property or fi.is_setter:
        return False
    callers = []
    for c in [ci] + ci.program.subclasses(ci, strict=True) + [b for b in ci.mro() if hasattr(b, "methods") and b is not ci]:
        for m in list(c.methods.values()) + list(getattr(c, "setters", {}).values()):
            for node in ast.walk(m.node):
                if isinstance(node, ast.Call) and isinstance(node.func, ast.Attribute) and node.func.attr == fi.name \
                        and isinstance(node.func.value, ast.Name) and node.func.value.id == "self":
                    callers.append((c, m, node))
    if not callers:
        return False
    for c, m, node in callers:
        if m.name == "__init__" or _under_any_is_none(m.node, node):
            continue
        if _construction_only(c, m) or _cache_fill_only(c, m, depth + 1):
            continue
        return False
    return True


def instance_state(chk, P):
    """evaluating, writing or querying an object does not change it: every store to self.<attr> outside __init__ is a property
    setter (an explicit mutation by the caller), part of construction, or the single fill of a write-once cache"""
    n = 0
    for ci in sorted(P.classes.values(), key=lambda c: c.fq):
        if not ci.module.name.startswith("atsim"):
            continue
        for name, fi in sorted(ci.methods.items()):
            if name in ("__init__", "__setattr__", "__setstate__"):
                continue
            for node in ast.walk(fi.node):
                tg = []
                if isinstance(node, ast.Assign):
                    tg = node.targets
                elif isinstance(node, (ast.AugAssign, ast.AnnAssign)):
                    tg = [node.target]
                elif isinstance(node, ast.Call) and isinstance(node.func, ast.Name) and node.func.id == "setattr" and node.args \
                        and isinstance(node.args[0], ast.Name) and node.args[0].id == "self":
                    tg = [ast.Attribute(value=node.args[0], attr=ast.unparse(node.args[1]) if len(node.args) > 1 else "?", ctx=ast.Store())]
                for t in tg:
                    for el in (t.elts if isinstance(t, (ast.Tuple, ast.List)) else [t]):
                        if not (isinstance(el, ast.Attribute) and isinstance(el.value, ast.Name) and el.value.id == "self"):
                            continue
                        n += 1
                        ok = fi.is_setter or _construction_only(ci, fi) or _under_is_none(fi.node, node, el.attr) \
                            or _only_called_under_is_none(ci, fi, el.attr) or _cache_fill_only(ci, fi)
                        if ok:
                            chk.ob("C12.O7", "%s.%s stores self.%s as setter, construction or write-once cache fill" % (ci.name, name, el.attr),
                                   True, site=fi.site(node), key="C12.O7|%s.%s|%s" % (ci.name, name, el.attr))
                            continue
                        # state written while the object is being used: harmless if it cannot be observed (a correct look-up
                        # hint), a violation if results then depend on what was asked before - decided by evaluating one object
                        # on query sequences in different orders against fresh objects
                        exp = _order_experiment(P, ci)
                        if exp is None:
                            raise AnalysisError("%s.%s writes self.%s while the object is in use and no order-independence experiment "
                                                "exists for this class" % (ci.name, name, el.attr))
                        bad = exp()
                        chk.ob("C12.O7", "%s.%s writes self.%s during use: results are independent of the order of earlier queries"
                               % (ci.name, name, el.attr), not bad, site=fi.site(node), found="; ".join(bad[:3]) if bad else None,
                               expect="same value for the same argument whatever was evaluated before",
                               key="C12.O7|%s.%s|%s|history" % (ci.name, name, el.attr))
    return n


def _order_experiment(P, ci):
    names = set(c.name for c in ci.mro() if hasattr(c, "name")) | set(c.name for c in P.subclasses(ci))
    if any(n.startswith("Multi_Range_Potential_Form") for n in names):
        return lambda: _multirange_orders(P)
    if names & {"TableReaderBase", "DatReader", "TableReader"}:
        return lambda: _tablereader_orders(P)
    return None


def _multirange_orders(P):
    """one multi-range object (>0 f0, >=2 f1, >4 f2) evaluated at the same separations in several orders; every answer must equal
    the answer of a fresh object"""
    from .c08 import build
    from .. import formrules as F8
    ranges = {0: ("f0", ">", 0), 1: ("f1", ">=", 2), 2: ("f2", ">", 4)}
    qs = [-1, 0, 1, 2, 3, 4, 5]
    orders = [qs, qs[::-1], [3, 0, 5, 2, -1, 4, 1], [4, 4, 0, 0, 2, 2]]
    bad = []
    for meth in ("__call__", "deriv", "deriv2"):
        fresh = {}
        for q in qs:
            J = F8.make_interp(P)
            J.assumption_fns.append(F8.hasattr_true({"deriv": True, "deriv2": True}))
            o = build(J, P, ranges, [0, 1, 2])
            fresh[q] = J.num(J.call(J.getattr(o, meth), [Num(ep.const(q))], {}))
        for order in orders:
            J = F8.make_interp(P)
            J.assumption_fns.append(F8.hasattr_true({"deriv": True, "deriv2": True}))
            o = build(J, P, ranges, [0, 1, 2])
            for q in order:
                v = J.num(J.call(J.getattr(o, meth), [Num(ep.const(q))], {}))
                if not ep.equal(v, fresh[q])[0]:
                    bad.append("%s(%s) after %s: %r, fresh object: %r" % (meth, q, order[:order.index(q)], v, fresh[q]))
    return bad


def _tablereader_orders(P):
    from .c18 import FileModel
    from ..symeval_ops import PyObjV
    from .. import formrules as F8
    reader = P.cls("atsim.potentials", "TableReader")
    text = "".join("%d @y%d\n" % (2 * i, i) for i in range(4))
    qs = list(range(-1, 8))
    fresh = {}
    for q in qs:
        J = F8.make_interp(P)
        o = J.instantiate(reader, [PyObjV(FileModel(text))], {}, None)
        fresh[q] = J.num(J.call(o, [Num(ep.const(q))], {}))
    bad = []
    for order in (qs, qs[::-1], [5, 0, 7, 2, -1, 6, 1, 3, 4], [6, 6, 1, 1]):
        J = F8.make_interp(P)
        o = J.instantiate(reader, [PyObjV(FileModel(text))], {}, None)
        for q in order:
            v = J.num(J.call(o, [Num(ep.const(q))], {}))
            if not ep.equal(v, fresh[q])[0]:
                bad.append("reader(%s) after %s: %r, fresh reader: %r" % (q, order[:order.index(q)], v, fresh[q]))
    return bad


def nondeterminism(chk, P):
    bad = []
    n = 0
    for m in P.modules.values():
        if not m.name.startswith("atsim"):
            continue
        for node in ast.walk(m.tree):
            n += 1
            if isinstance(node, (ast.Import, ast.ImportFrom)):
                names = [a.name for a in node.names] + ([node.module] if isinstance(node, ast.ImportFrom) and node.module else [])
                for nm in names:
                    if nm.split(".")[0] in ("random", "time", "datetime", "uuid", "secrets"):
                        bad.append("%s:%d imports %s" % (m.relpath, node.lineno, nm))
            if isinstance(node, ast.Call) and isinstance(node.func, ast.Name) and node.func.id in ("id", "hash"):
                bad.append("%s:%d calls %s()" % (m.relpath, node.lineno, node.func.id))
            if isinstance(node, ast.Attribute) and ast.unparse(node) in ("os.environ", "os.getpid", "os.urandom", "sys.flags"):
                bad.append("%s:%d uses %s" % (m.relpath, node.lineno, ast.unparse(node)))
    chk.ob("C12.O6", "no use of random/time/datetime/uuid, id(), hash(), os.environ, os.getpid in the package (%d syntax nodes)" % n, not bad,
           site="atsim", found=bad or None, expect="none", key="C12.O6|sources")

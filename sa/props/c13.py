"""C13 - species filtering (DESIGN.md section 4, C13)."""
import ast
import itertools

from .. import ep
from ..model import AnalysisError, ClassInfo
from ..values import *     # noqa
from ..symeval import RaiseSignal
from ..symeval_ops import ExcV, NTV, PyObjV
from .. import formrules as F
from .. import writerules as W

FCP = "atsim.potentials.config._filtered_config_parser"
CP = "atsim.potentials.config._config_parser"
POTABLE = "atsim.potentials.tools.potable"

EXPLANATION = (
    "The filter is a finite decision: membership of one or two species labels in the given set, and the include/exclude "
    "flag. FilteredConfigParser is evaluated by the abstract evaluator on a wrapped parser model whose four species-keyed "
    "views hold entries over the labels {C, Cu, uC} (each a prefix or suffix of another, so a test that looks inside labels is told from membership; one- and two-species keys, every membership pattern), for every "
    "include and exclude set over {A, B, C, unknown} including the empty set; results are compared with 'delete every entry "
    "that mentions a species outside S / inside S', order preserved. wrapt.ObjectProxy's attribute forwarding is modelled "
    "(names without the _self_ prefix are stored on the wrapped parser), so interference between several views of one "
    "parser shows as a wrong list in a multi-view history. Exhaustiveness of the overridden views and the CLI's presence "
    "tests are decided on the syntax tree / by abstract evaluation.")

# labels related as prefix / suffix of one another (a filter that looks inside a label - startswith, a pattern match without end
# anchor, a substring test - is not the membership test the property states), plus an unknown label that is a prefix of one
# label and a suffix of another
LABELS = ("C", "Cu", "uC")
UNKNOWN = "u"


class ParserModel(object):
    """wrapped ConfigParser: four views with species-keyed rows"""
    def __init__(self, I, P):
        mod = P.module("atsim.potentials.config._common")
        sp = I.module_global(mod, "SpeciesTuple")
        fs = I.module_global(mod, "EAMFSDensitySpeciesTuple")
        pair_t = I.module_global(mod, "PairPotentialTuple")
        emb_t = I.module_global(mod, "EAMEmbedTuple")
        den_t = I.module_global(mod, "EAMDensityTuple")
        self.views = {}
        pairs = list(itertools.product(LABELS, repeat=2))
        self.views["pair"] = [(k, I.call(pair_t, [I.call(sp, [Const(k[0]), Const(k[1])], {}), Opaque(("defn", "pair", k))], {})) for k in pairs]
        self.views["eam_embed"] = [((a,), I.call(emb_t, [Const(a), Opaque(("defn", "embed", a))], {})) for a in LABELS]
        self.views["eam_density"] = [((a,), I.call(den_t, [Const(a), Opaque(("defn", "dens", a))], {})) for a in LABELS]
        self.views["eam_density_fs"] = [(k, I.call(den_t, [I.call(fs, [Const(k[0]), Const(k[1])], {}), Opaque(("defn", "fs", k))], {})) for k in pairs]

    def _get(self, name):
        return ListV([row for _, row in self.views[name]], "list")

    def get_pair(self, I):
        return self._get("pair")

    def get_eam_embed(self, I):
        return self._get("eam_embed")

    def get_eam_density(self, I):
        return self._get("eam_density")

    def get_eam_density_fs(self, I):
        return self._get("eam_density_fs")


class RealModel(object):
    """the package's own ConfigParser on a model file over LABELS (standard or A->B density keys), evaluated on the
    configparser / pyparsing models: .I interpreter, .cp the parser object, .views name -> [(species key, row)] read from
    the unfiltered parser"""
    NAMES = {False: ("pair", "eam_embed", "eam_density"), True: ("pair", "eam_embed", "eam_density_fs")}

    def __init__(self, P, fs):
        from .c14 import parse
        out = parse(P, _file_text(lambda key: True)[fs])
        if out[0] != "ok":
            raise AnalysisError("the model file of the C13 scenarios is refused by the parser: %r" % (out[1],))
        self.I, self.cp, self.fs = out[3], out[4], fs
        self.views = {}
        for name in self.NAMES[fs]:
            rows = self.I.as_iterable(self.I.getattr(self.cp, name))
            if not isinstance(rows, ListV):
                raise AnalysisError("ConfigParser.%s is not a concrete list" % name)
            self.views[name] = [(self.key_of(r), r) for r in rows.items]

    def key_of(self, row):
        sp = self.I.getattr(row, "species")
        if isinstance(sp, Const):
            return (sp.v,)
        vals = getattr(sp, "values", None) or getattr(sp, "items", None)
        if vals is None or not all(isinstance(v, Const) for v in vals):
            raise AnalysisError("species of a parsed entry is not concrete: %r" % (sp,))
        return tuple(v.v for v in vals)


def keep(key, species, exclude):
    if exclude:
        return not any(s in species for s in key)
    return all(s in species for s in key)


def subsets():
    pool = tuple(LABELS) + (UNKNOWN,)
    out = []
    for n in range(len(pool) + 1):
        for c in itertools.combinations(pool, n):
            out.append(list(c))
    return out


def run(chk):
    global LABELS
    LABELS = ("C", "Cu", "uC", "CuC") if chk.tier == "thorough" else ("C", "Cu", "uC")
    P = F.load_program()
    chk.explanation = EXPLANATION
    chk.info.update(P.stats())
    chk.rule("C13.O1", "every (species set, include/exclude) filter keeps exactly the entries of the hand-edited file, in order, in all four views", 30)
    chk.rule("C13.O3", "every species-keyed view of ConfigParser is overridden by the filter; builders reach the parser only through views", 3)
    chk.rule("C13.O4", "a view is unaffected by creating and reading other views of the same parsed file", 6)
    chk.rule("C13.O5", "CLI: --include-species -> include=, --exclude-species -> exclude=, presence decided by 'is None' (an empty set is honoured)", 8)
    stats = {"cases": 0}
    chk.attempt("O1", lambda: filters(chk, P, stats))
    chk.attempt("O3", lambda: exhaustive(chk, P))
    chk.attempt("O4", lambda: isolation(chk, P))
    chk.attempt("O4b", lambda: builder_isolation(chk, P))
    chk.attempt("O5", lambda: cli(chk, P))
    chk.rule("C13.O6", "end to end: builders on the filtered file = builders on the hand-edited file (every species set, both modes, "
                       "standard and Finnis-Sinclair keys)", 12)
    chk.attempt("O6", lambda: end_to_end(chk, P, stats))
    chk.states = stats["cases"]
    chk.exhaustive = True
    chk.assume("byte equality of the final table with that of the hand-edited file additionally needs C01-C05 and the builders' order preservation (C12)")
    chk.assume("ADP dipole/quadrupole sections (parse_pair_like) are not filtered; the property names pair, embedding and density entries")


def view_result(I, view, name):
    lst = I.getattr(view, name)
    if not isinstance(lst, ListV):
        raise AnalysisError("filtered view %s is not a concrete list: %r" % (name, lst))
    return [r.key() for r in lst.items]


def filters(chk, P, stats):
    cls = P.cls(FCP, "FilteredConfigParser")
    site = cls.site_of("_check_tuple")
    models = {False: RealModel(P, False), True: RealModel(P, True)}      # one parsed file of each kind; every filter is a view of it
    for exclude in (False, True):
        for S in subsets():
            bad = []
            for fs in (False, True):
                model = models[fs]
                I = model.I
                kw = {"exclude" if exclude else "include": ListV([Const(s) for s in S], "list")}
                view = I.instantiate(cls, [model.cp], kw, None)
                for name, rows in model.views.items():
                    if fs and name != "eam_density_fs":
                        continue
                    got = view_result(I, view, name)
                    want = [row.key() for key, row in rows if keep(key, S, exclude)]
                    stats["cases"] += len(rows)
                    if got != want:
                        bad.append("%s: kept %d entries, hand-edited file has %d" % (name, len(got), len(want)))
            mode = "exclude" if exclude else "include"
            chk.ob("C13.O1", "%s=%s: pair, eam_embed, eam_density, eam_density_fs keep exactly the surviving entries" % (mode, S),
                   not bad, site=site, found="; ".join(bad) if bad else None, expect="entries of the hand-edited file, order kept",
                   key="C13.O1|%s|%s" % (mode, ",".join(S)))


def exhaustive(chk, P):
    cp = P.cls(CP, "ConfigParser")
    fcp = P.cls(FCP, "FilteredConfigParser")
    # species-keyed views: properties of ConfigParser that return parsed parameter sections
    # species-keyed views: public properties / methods without required arguments of ConfigParser that, on a model file, give
    # rows carrying a `species` field (found by reading them on the parsed model files, not by the names of private helpers)
    keyed = []
    for fs in (False, True):
        m = RealModel(P, fs)
        for name, fi in cp.methods.items():
            if name.startswith("_") or name in keyed:
                continue
            nreq = len(fi.node.args.args) - 1 - len(fi.node.args.defaults)
            if nreq > 0:
                continue
            try:
                v = m.I.getattr(m.cp, name)
                if not fi.is_property:
                    v = m.I.call(v, [], {})
                rows = m.I.as_iterable(v)
            except (RaiseSignal, AnalysisError):
                continue
            if isinstance(rows, ListV) and rows.items and all(hasattr(r_, "fields") or hasattr(r_, "values") for r_ in rows.items):
                try:
                    m.I.getattr(rows.items[0], "species")
                except (RaiseSignal, AnalysisError):
                    continue
                keyed.append(name)
    keyed = [k for k in keyed if k != "species"]
    if len(keyed) < 4:
        chk.error("species-keyed views of ConfigParser are not recognised: %s" % sorted(keyed))
    for name in sorted(keyed):
        ov = name in fcp.methods and fcp.methods[name].is_property == cp.methods[name].is_property
        chk.ob("C13.O3", "view %r is overridden by FilteredConfigParser" % name, ov, site=fcp.module.relpath + " FilteredConfigParser",
               found=sorted(fcp.methods), expect=name, key="C13.O3|override|%s" % name)
    # builders do not bypass the views
    bad = []
    n = 0
    for modname in ("atsim.potentials.config._eam_potential_builder", "atsim.potentials.config._pair_potential_builder",
                    "atsim.potentials.config._tabulation_factories", "atsim.potentials.config._configuration",
                    "atsim.potentials.tools.potable._actions"):
        m = P.module(modname)
        for node in ast.walk(m.tree):
            if isinstance(node, ast.Attribute):
                n += 1
                if node.attr in ("__wrapped__", "raw_config_parser", "_config_parser"):
                    bad.append("%s:%d .%s" % (m.relpath, node.lineno, node.attr))
            # the generic section reader of ConfigParser returns *unfiltered* entries unless the filter overrides it: it may be
            # used for sections the filter does not cover (ADP dipoles/quadrupoles) but not for the filtered ones
            if isinstance(node, ast.Call) and isinstance(node.func, ast.Attribute) and node.func.attr in ("parse_pair_like", "_parse_params_section"):
                ov = node.func.attr in fcp.methods
                sec = node.args[0] if node.args else None
                secs = _section_constants(m, node, sec)
                if not ov and (secs is None or any(x in ("Pair", "EAM-Embed", "EAM-Density") for x in secs)):
                    bad.append("%s:%d .%s(%s) reads a filtered section without going through the filter" % (
                        m.relpath, node.lineno, node.func.attr, ast.unparse(sec) if sec is not None else ""))
    chk.ob("C13.O3", "builders, factories and the tabulate action never reach behind the filter (%d attribute accesses inspected)" % n,
           not bad, site="atsim/potentials/config", found=bad or None, expect="no __wrapped__/raw_config_parser/_config_parser access",
           key="C13.O3|no-bypass")


def _section_constants(m, call, sec, depth=3):
    """the string constants a section-name argument can take: a literal, or a parameter of the enclosing function
    that every call of that function in the module supplies as a literal (followed through up to three functions)"""
    if isinstance(sec, ast.Constant) and isinstance(sec.value, str):
        return [sec.value]
    if not isinstance(sec, ast.Name) or depth == 0:
        return None
    owner = None
    for fn in ast.walk(m.tree):
        if isinstance(fn, ast.FunctionDef) and any(n is call for n in ast.walk(fn)):
            if owner is None or any(n is fn for n in ast.walk(owner)):
                owner = fn
    if owner is None:
        return None
    params = [a.arg for a in owner.args.args]
    if sec.id not in params:
        return None
    idx = params.index(sec.id)
    out = []
    ncalls = 0
    for n in ast.walk(m.tree):
        if isinstance(n, ast.Call) and ((isinstance(n.func, ast.Name) and n.func.id == owner.name)
                                        or (isinstance(n.func, ast.Attribute) and n.func.attr == owner.name)):
            ncalls += 1
            pos = idx - 1 if (isinstance(n.func, ast.Attribute) and params and params[0] in ("self", "cls")) else idx
            arg = n.args[pos] if 0 <= pos < len(n.args) else next((k.value for k in n.keywords if k.arg == sec.id), None)
            sub = _section_constants(m, n, arg, depth - 1) if arg is not None else None
            if sub is None:
                return None
            out.extend(sub)
    return out if ncalls else None


def isolation(chk, P):
    cls = P.cls(FCP, "FilteredConfigParser")
    model = RealModel(P, True)
    I = model.I
    wrapped = model.cp
    site = cls.site_of("__init__")
    specs = [("include", [LABELS[0], LABELS[1]]), ("include", [LABELS[2]]), ("exclude", [LABELS[0]])]
    views = []
    history = []

    def expect(i, name):
        mode, S = specs[i]
        return [row.key() for key, row in model.views[name] if keep(key, S, mode == "exclude")]

    def read(i, name, when):
        got = view_result(I, views[i], name)
        ok = got == expect(i, name)
        chk.ob("C13.O4", "view %d (%s=%s).%s %s" % (i + 1, specs[i][0], specs[i][1], name, when), ok, site=site,
               found="%d entries" % len(got), expect="%d entries" % len(expect(i, name)),
               key="C13.O4|v%d|%s|%s" % (i + 1, name, when))
    views.append(I.instantiate(cls, [wrapped], {specs[0][0]: ListV([Const(s) for s in specs[0][1]], "list")}, None))
    read(0, "pair", "before any other view exists")
    views.append(I.instantiate(cls, [wrapped], {specs[1][0]: ListV([Const(s) for s in specs[1][1]], "list")}, None))
    read(0, "pair", "after a second view was created")
    read(1, "pair", "after its creation")
    read(0, "eam_density_fs", "after the second view was read")
    views.append(I.instantiate(cls, [wrapped], {specs[2][0]: ListV([Const(s) for s in specs[2][1]], "list")}, None))
    read(2, "eam_embed", "after its creation")
    read(1, "eam_embed", "after a third view (exclude) was created and read")
    read(0, "pair", "read again at the end")
    stores = sorted(set(e[1] for e in I.events if e[0] == "proxy-store"))
    chk.ob("C13.O4", "no attribute of a view is stored on the shared wrapped parser", not stores, site=site, found=stores or None,
           expect="only _self_-prefixed attributes are assigned on an ObjectProxy", key="C13.O4|proxy-stores")


def builder_isolation(chk, P):
    """models built one after the other from different filtered views of one parsed file (one process): each builder sees
    its own view's entries.  Both EAM builders, pair builder; the second build is compared with the same build made alone."""
    from .. import eamrules as E
    fcls = P.cls(FCP, "FilteredConfigParser")
    specs = [("exclude", [LABELS[0]]), ("include", [LABELS[0], LABELS[1]]), ("exclude", [LABELS[2]])]

    def species_of(I, builder_cls_name, view):
        st = I.__dict__.setdefault("class_standins", {})
        pfb = P.cls("atsim.potentials.config._potential_form_builder", "Potential_Form_Builder")
        st[pfb.fq] = lambda J, ci, args, kwargs: PyObjV(E.FormBuilder())
        bcls = P.cls(E.BUILDER_MOD, builder_cls_name)
        b = I.instantiate(bcls, [view, Opaque(("collaborator", "forms")), Opaque(("collaborator", "modifiers"))],
                          {"reference_data": PyObjV(E.RefData(P))}, None)
        pots = I.as_iterable(I.getattr(b, "eam_potentials"))
        out = []
        for p_ in pots.items:
            d = I.getattr(p_, "electronDensityFunction")
            dk = sorted(k.v for k, _ in d.items.values()) if isinstance(d, DictV) else repr(d.key())
            out.append((I.getattr(p_, "species").v, repr(I.getattr(p_, "embeddingFunction").key()), dk))
        return sorted(out)

    def view_of(I, wrapped, i):
        return I.instantiate(fcls, [wrapped], {specs[i][0]: ListV([Const(s) for s in specs[i][1]], "list")}, None)
    for bname in ("EAM_Potential_Builder", "EAM_Potential_Builder_FS"):
        site = P.cls(E.BUILDER_MOD, bname).site_of("eam_potentials")
        alone = []
        for i in range(len(specs)):
            m1 = RealModel(P, bname.endswith("_FS"))
            alone.append(species_of(m1.I, bname, view_of(m1.I, m1.cp, i)))
        mh = RealModel(P, bname.endswith("_FS"))
        I, wrapped = mh.I, mh.cp
        for i in range(len(specs)):
            got = species_of(I, bname, view_of(I, wrapped, i))
            chk.ob("C13.O4", "%s on view %d (%s=%s), built after the views before it from the same parsed file, gives the model it gives when "
                             "built alone" % (bname, i + 1, specs[i][0], specs[i][1]), got == alone[i], site=site,
                   found=[g[0] for g in got] if got != alone[i] else None, expect=[g[0] for g in alone[i]],
                   key="C13.O4|builders|%s|v%d" % (bname, i + 1))


def _file_text(keep_entry):
    """a model file over LABELS: every unordered pair, every embedding, every density (standard keys and A->B keys are two
    files); each entry's definition is 'as.constant <its own number>' so that it can be recognised in the built model"""
    n = [0]

    def num():
        n[0] += 1
        return n[0]
    pairs = list(itertools.combinations_with_replacement(LABELS, 2))
    out = {}
    for fs in (False, True):
        lines = ["[Pair]"]
        for a, b in pairs:
            k = num()
            if keep_entry((a, b)):
                lines.append("%s-%s : as.constant %d" % (a, b, k))
        lines.append("[EAM-Embed]")
        for a in LABELS:
            k = num()
            if keep_entry((a,)):
                lines.append("%s : as.constant %d" % (a, k))
        lines.append("[EAM-Density]")
        if fs:
            for a, b in itertools.product(LABELS, repeat=2):
                k = num()
                if keep_entry((a, b)):
                    lines.append("%s->%s : as.constant %d" % (a, b, k))
        else:
            for a in LABELS:
                k = num()
                if keep_entry((a,)):
                    lines.append("%s : as.constant %d" % (a, k))
        out[fs] = "\n".join(lines) + "\n"
        n[0] = 0 if not fs else n[0]
    return out


def _built_models(P, text, fs, filt=None):
    """the pair potentials and EAM potentials the package's builders make from the file `text`, read through
    FilteredConfigParser(**filt) when filt is given -> comparable summary (species and the definitions bound to them)"""
    from .. import eamrules as E
    from .c14 import parse
    out = parse(P, text)
    if out[0] != "ok":
        return ("refused", repr(out[1]))
    I, cp = out[3], out[4]
    view = cp
    if filt is not None:
        view = I.instantiate(P.cls(FCP, "FilteredConfigParser"), [cp], dict((k, ListV([Const(x) for x in v], "list")) for k, v in filt.items()), None)
    st = I.__dict__.setdefault("class_standins", {})
    pfb = P.cls("atsim.potentials.config._potential_form_builder", "Potential_Form_Builder")
    st[pfb.fq] = lambda J, ci, args, kwargs: PyObjV(E.FormBuilder())
    regs = [Opaque(("collaborator", "forms")), Opaque(("collaborator", "modifiers"))]
    res = {}
    try:
        pb = I.instantiate(P.cls("atsim.potentials.config._pair_potential_builder", "Pair_Potential_Builder"), [view] + regs, {}, None)
        pots = I.as_iterable(I.getattr(pb, "potentials"))
        res["pair"] = [(I.getattr(p_, "speciesA").v, I.getattr(p_, "speciesB").v, repr(I.getattr(p_, "potentialFunction").key())) for p_ in pots.items]
    except RaiseSignal as e:
        res["pair"] = "raises %r" % (e.exc,)
    try:
        b = I.instantiate(P.cls(E.BUILDER_MOD, "EAM_Potential_Builder_FS" if fs else "EAM_Potential_Builder"), [view] + regs,
                          {"reference_data": PyObjV(E.RefData(P))}, None)
        eam = []
        for p_ in I.as_iterable(I.getattr(b, "eam_potentials")).items:
            d = I.getattr(p_, "electronDensityFunction")
            dk = sorted((k.v, repr(v.key())) for k, v in d.items.values()) if isinstance(d, DictV) else repr(d.key())
            eam.append((I.getattr(p_, "species").v, repr(I.getattr(p_, "embeddingFunction").key()), dk))
        res["eam"] = eam
    except RaiseSignal as e:
        res["eam"] = "raises %r" % (e.exc,)
    return res


def end_to_end(chk, P, stats):
    """the property as stated: the models the package's builders make from the file read through the filter = the models
    they make from the hand-edited file (entries mentioning unwanted species deleted), for every species set and both
    modes, standard and Finnis-Sinclair density keys"""
    site = P.cls(FCP, "FilteredConfigParser").site()
    full = _file_text(lambda key: True)
    # which view each builder reads is what this rule adds to O1 (all sets, all views): in the quick tier a few sets are enough
    sets = subsets() if chk.tier == "thorough" else [[], [LABELS[0]], [LABELS[1], LABELS[2]], [LABELS[0], UNKNOWN]]
    for exclude in (False, True):
        mode = "exclude" if exclude else "include"
        for S in sets:
            edited = _file_text(lambda key: keep(key, S, exclude))
            for fs in (False, True):
                got = _built_models(P, full[fs], fs, {mode: S})
                want = _built_models(P, edited[fs], fs)
                stats["cases"] += 1
                bad = [k for k in ("pair", "eam") if not isinstance(got, dict) or not isinstance(want, dict) or got.get(k) != want.get(k)]
                chk.ob("C13.O6", "%s=%s, %s density keys: pair and EAM models built through the filter equal those built from the "
                                 "hand-edited file" % (mode, S, "A->B" if fs else "standard"), not bad, site=site,
                       found=dict((k, got.get(k) if isinstance(got, dict) else got) for k in bad) or None,
                       expect=dict((k, want.get(k) if isinstance(want, dict) else want) for k in bad) or "equal models",
                       key="C13.O6|%s|%s|%s" % (mode, ",".join(S), "fs" if fs else "std"))


def cli(chk, P):
    entry = W.console_entry(P)

    def v(x):
        return NONE if x is None else ListV([Const(s) for s in x], "list")
    for inc, exc in ((["A"], None), ([], None), (None, ["A"]), (None, []), (None, None)):
        seen = {}

        def fcp_init(i, fv, a, k, n, seen=seen):
            names = [x for x in fv.fi.params() if x != "self"]
            pos = [x for x in a if not (hasattr(x, "ci") and x.ci is fv.fi.cls)] if len(a) > len(names) else list(a)
            bound = dict(zip(names, pos))
            bound.update(k)
            bound.pop(names[0], None)          # the wrapped parser
            seen["filter"] = bound
            return NONE
        r = W.run_potable(P, {"include_species": v(inc), "exclude_species": v(exc), "config_file": W.param("config_file"),
                              "out_filename": Const("out")},
                          hooks={CP + ":ConfigParser.__init__": lambda i, fv, a, k, n: NONE,
                                 FCP + ":FilteredConfigParser.__init__": fcp_init,
                                 "atsim.potentials.tools.potable._actions:action_tabulate": lambda i, fv, a, k, n: NONE})
        desc = "--include-species %s" % inc if inc is not None else ("--exclude-species %s" % exc if exc is not None else "no filter option")
        if r.raised is not None or r.parser.errors:
            ok = False
            seen["filter"] = "fails: %r %r" % (r.raised, r.parser.errors)
            want = "a tabulation"
        elif inc is None and exc is None:
            ok = "filter" not in seen
            want = "no FilteredConfigParser"
        else:
            kw = seen.get("filter")
            name = "include" if inc is not None else "exclude"
            vals = inc if inc is not None else exc
            ok = kw is not None and set(kw) == {name} and isinstance(kw[name], ListV) \
                and [x.v for x in kw[name].items] == vals
            want = "FilteredConfigParser(cp, %s=%s)" % (name, vals)
        chk.ob("C13.O5", "%s -> %s" % (desc, want), ok, site=entry.site(), found=seen.get("filter", "parser not wrapped"), expect=want,
               key="C13.O5|%s" % desc)
    # FilteredConfigParser itself distinguishes an absent list from an empty one
    cls = P.cls(FCP, "FilteredConfigParser")
    for kw, wantall in (({"exclude": []}, True), ({"include": []}, False), ({}, True)):
        I = F.make_interp(P)
        model = ParserModel(I, P)
        view = I.instantiate(cls, [PyObjV(model)], dict((k, ListV([], "list")) for k in kw), None)
        got = view_result(I, view, "pair")
        ok = len(got) == (len(model.views["pair"]) if wantall else 0)
        chk.ob("C13.O5", "FilteredConfigParser(%s) keeps %s" % (", ".join("%s=[]" % k for k in kw) or "no lists",
                                                                 "everything" if wantall else "nothing"), ok,
               site=cls.site_of("__init__"), found="%d pair entries" % len(got), expect="all" if wantall else "none",
               key="C13.O5|empty|%s" % ("-".join(kw) or "none"))

"""C08 - multi-range selection (DESIGN.md section 4, C08)."""
import ast
import itertools
import os

from .. import ep
from ..model import AnalysisError
from ..values import *     # noqa
from ..symeval import RaiseSignal
from ..symeval_ops import ExcV, NTV, PyObjV
from .. import formrules as F
from .. import writerules as W

MOD = "atsim.potentials._multi_range_potential_form"

EXPLANATION = (
    "Step 1 (premise, by dataflow over the syntax tree): in _range_search and _range_defn_cmp the separation r and the range "
    "starts are used only as operands of comparisons and range_type only in equality tests with the literals '>' and '>='. "
    "Hence the selection depends only on the order type of (r, starts) and on the markers. Step 2: every order type is "
    "enumerated - all weak orderings of k starts, all marker assignments, every position of r (below, on, between, above each "
    "distinct start) and every listing permutation - and the class's real constructor, sorted setter, _range_search, "
    "__call__, deriv and deriv2 are evaluated on each by the abstract evaluator (no repository code is executed) and compared "
    "with the selection stated in the property. Where an inclusive and an exclusive range share a start s < r the statement "
    "leaves the winner open and either is accepted.")


def weak_orderings(k):
    """all assignments of ranks to k items such that ranks used are 0..m-1"""
    out = []
    for ranks in itertools.product(range(k), repeat=k):
        used = sorted(set(ranks))
        if used == list(range(len(used))):
            out.append(ranks)
    return out


def oracle(ranges, r):
    """ranges: list of (label, marker, start). -> set of acceptable labels (or {None})"""
    cont = [(lab, mk, s) for lab, mk, s in ranges if (r > s or (mk == ">=" and r == s))]
    if not cont:
        return {None}
    top = max(s for _, _, s in cont)
    best = [(lab, mk, s) for lab, mk, s in cont if s == top]
    return set(lab for lab, _, _ in best)


def premise(chk, P):
    """Soundness premise of the enumeration over order types: the separation r and the range starts influence the selection only
    through comparisons (they may be copied to locals, passed on to other functions of the module and handed to the selected
    sub-potential, but never enter arithmetic, indexing or conversions); markers only through ==/!= with the two literals.
    A premise that cannot be established is an analysis error, not a violation: the enumeration then does not cover the code."""
    cls = P.cls(MOD, "Multi_Range_Potential_Form")
    entries = []
    for c in [cls] + P.subclasses(cls, strict=True):
        for nm in ("__call__", "deriv", "deriv2", "_range_search"):
            fi = c.methods.get(nm)
            if fi is not None:
                entries.append((fi, frozenset(a.arg for a in fi.node.args.args[1:2])))
    cmpf = P.resolve_name(P.module(MOD), "_range_defn_cmp")
    if cmpf is not None and hasattr(cmpf, "node"):
        entries.append((cmpf, frozenset()))
    seen = set()
    work = list(entries)
    n = 0
    while work:
        fi, tainted0 = work.pop()
        if (fi.fq, tainted0) in seen:
            continue
        seen.add((fi.fq, tainted0))
        parents = {}
        for node in ast.walk(fi.node):
            for ch in ast.iter_child_nodes(node):
                parents[ch] = node
        tainted = set(tainted0)

        def is_t(e):
            """expression carries r / a start (outside comparisons)"""
            if isinstance(e, ast.Name):
                return e.id in tainted
            if isinstance(e, ast.Attribute):
                return e.attr == "start"
            if isinstance(e, ast.IfExp):
                return is_t(e.body) or is_t(e.orelse)
            return False
        changed = True
        while changed:
            changed = False
            for node in ast.walk(fi.node):
                if isinstance(node, ast.Assign) and is_t(node.value):
                    for t in node.targets:
                        if isinstance(t, ast.Name) and t.id not in tainted:
                            tainted.add(t.id)
                            changed = True
        # locals holding a copy of a marker (a_type = a.range_type)
        mlocals = set()
        for node in ast.walk(fi.node):
            if isinstance(node, ast.Assign) and isinstance(node.value, ast.Attribute) and node.value.attr == "range_type":
                for t in node.targets:
                    if isinstance(t, ast.Name):
                        mlocals.add(t.id)
        for node in ast.walk(fi.node):
            if isinstance(node, ast.Assign) and not (isinstance(node.value, ast.Attribute) and node.value.attr == "range_type"):
                for t in node.targets:
                    if isinstance(t, ast.Name) and t.id in mlocals:
                        mlocals.discard(t.id)     # also bound to something else: not a pure marker copy
        for node in ast.walk(fi.node):
            kind = None
            if isinstance(node, ast.Name) and node.id in tainted and isinstance(node.ctx, ast.Load):
                kind = "r" if node.id in tainted0 else node.id
            elif isinstance(node, ast.Attribute) and node.attr == "start" and isinstance(node.ctx, ast.Load):
                kind = ".start"
            elif (isinstance(node, ast.Attribute) and node.attr == "range_type" and isinstance(node.ctx, ast.Load)) or \
                    (isinstance(node, ast.Name) and node.id in mlocals and isinstance(node.ctx, ast.Load)):
                p = parents.get(node)
                if isinstance(node, ast.Attribute) and isinstance(p, ast.Assign) and p.value is node and \
                        all(isinstance(t, ast.Name) and t.id in mlocals for t in p.targets):
                    n += 1
                    continue
                def marker(c):
                    """the literal '>' / '>=' or a class-level constant of the module holding one (an enum of the markers)"""
                    if isinstance(c, ast.Constant):
                        return c.value in (">", ">=")
                    if isinstance(c, ast.Attribute) and isinstance(c.value, ast.Name):
                        owner = P.resolve_name(fi.module, c.value.id)
                        expr = getattr(owner, "class_attrs", {}).get(c.attr)
                        return isinstance(expr, ast.Constant) and expr.value in (">", ">=")
                    return False
                ok = isinstance(p, ast.Compare) and all(isinstance(o, (ast.Eq, ast.NotEq)) for o in p.ops) and \
                    all(marker(c) for c in ([p.left] + p.comparators) if c is not node)
                if not ok:
                    raise AnalysisError("premise: %s line %d uses range_type other than in ==/!= with the literals '>' and '>='"
                                        % (fi.fq, node.lineno))
                n += 1
                continue
            else:
                continue
            # climb through value-preserving wrappers
            cur, p = node, parents.get(node)
            while isinstance(p, ast.IfExp) and cur is not p.test:
                cur, p = p, parents.get(p)
            ok = False
            if isinstance(p, ast.Compare):
                ok = True
            elif isinstance(p, (ast.Assign, ast.AnnAssign)) and p.value is cur:
                ok = True
            elif isinstance(p, ast.Return):
                ok = kind == ".start" and False
            elif isinstance(p, ast.keyword):
                p = parents.get(p)
            if isinstance(p, ast.Call) and (cur in p.args or any(k.value is cur for k in p.keywords)):
                f = p.func
                callee = None
                if isinstance(f, ast.Attribute) and isinstance(f.value, ast.Name) and f.value.id in ("self", "cls") and fi.cls is not None:
                    callee = fi.cls.lookup(f.attr)
                    for sub in P.subclasses(fi.cls, strict=True):
                        o = sub.methods.get(f.attr)
                        if o is not None and o is not callee:
                            idx0 = p.args.index(cur) if cur in p.args else None
                            if idx0 is not None:
                                work.append((o, frozenset([o.node.args.args[idx0 + 1].arg])))
                elif isinstance(f, ast.Name):
                    r_ = P.resolve_name(fi.module, f.id)
                    callee = r_ if hasattr(r_, "node") and isinstance(getattr(r_, "node", None), ast.FunctionDef) else None
                if callee is not None:
                    idx0 = p.args.index(cur) if cur in p.args else None
                    params = [a.arg for a in callee.node.args.args]
                    off = 1 if callee.cls is not None else 0
                    if idx0 is not None and idx0 + off < len(params):
                        work.append((callee, frozenset([params[idx0 + off]])))
                        ok = True
                    else:
                        kw = next((k.arg for k in p.keywords if k.value is cur), None)
                        if kw in params:
                            work.append((callee, frozenset([kw])))
                            ok = True
                elif isinstance(f, ast.Attribute) and kind != ".start" and not (isinstance(f.value, ast.Name) and f.value.id in ("math", "np", "numpy")):
                    ok = True      # r handed to the selected sub-potential (rt.potential_form(r), rt.deriv(r), getter(rt)(r))
                elif isinstance(f, ast.Call) and kind != ".start":
                    ok = True
                elif isinstance(f, ast.Name) and kind != ".start" and f.id in tainted | {a.arg for a in fi.node.args.args}:
                    ok = True      # a callable parameter / local applied to r
            if not ok:
                raise AnalysisError("premise: %s line %d: %s is used outside a comparison (%s) - the enumeration over order types "
                                    "does not cover this code" % (fi.fq, node.lineno, kind, type(parents.get(node)).__name__))
            n += 1
        chk.ob("C08.P", "%s: r / range starts reach the selection only through comparisons (may be copied, passed on, or handed to the "
                        "selected sub-potential)" % fi.qualname, True, site=fi.site(), key="C08.P|%s" % fi.qualname)
    if n < 10:
        raise AnalysisError("premise: only %d uses of r / start / range_type found (10 confirmed by reading)" % n)
    return n


def build(I, P, ranges, listing):
    """instantiate the real class with the ranges in the given listing order"""
    defn = P.cls(MOD, "Multi_Range_Defn")
    cls = P.cls(MOD, "Multi_Range_Potential_Form_Deriv2")
    objs = []
    for idx in listing:
        lab, mk, s = ranges[idx]
        objs.append(I.instantiate(defn, [Const(mk), Num(ep.const(s)), Opaque(("f", lab))], {}, None))
    return I.instantiate(cls, objs, {}, None)


def run(chk):
    P = F.load_program()
    chk.explanation = EXPLANATION
    chk.info.update(P.stats())
    thorough = chk.tier == "thorough"
    kmax = 5 if thorough else 3
    perm_max = 4 if thorough else 3
    chk.rule("C08.P", "premise: r, starts and markers are touched only through comparisons", 4)
    chk.rule("C08.O1", "selection = range with the greatest start containing r (inclusive at r = s), None below the first", kmax)
    chk.rule("C08.O2", "the result does not depend on the listing order (constructor sorts through the comparator)", perm_max - 1)
    chk.rule("C08.O3", "value, deriv and deriv2 come from the selected range; default_value / 0.0 when none", 2)
    chk.rule("C08.O4", "potable: a definition without marker acts for r > 0; builder binds (marker, start); '>=' is tried before '>'", 8)
    chk.rule("C08.O5", "factory picks the class offering deriv/deriv2 iff any range offers it (any listing order)", 2)
    chk.attempt("P", lambda: premise(chk, P))
    stats = {"cases": 0, "nontrivial": 0, "either": 0}
    chk.attempt("O1", lambda: enumerate_selection(chk, P, kmax, perm_max, stats))
    chk.attempt("O3", lambda: value_and_derivs(chk, P))
    chk.attempt("O4", lambda: potable_default(chk, P))
    chk.attempt("O5", lambda: factory_class(chk, P))
    chk.states = stats["cases"]
    chk.exhaustive = True
    chk.info["order_type_cases_evaluated"] = stats["cases"]
    chk.info["cases_with_a_selected_range"] = stats["nontrivial"]
    chk.info["cases_where_statement_leaves_winner_open"] = stats["either"]
    chk.info["bounds"] = "k <= %d ranges; listing permutations for k <= %d (larger k: sorted listing and its reverse)" % (kmax, perm_max)
    chk.assume("more than %d ranges are not enumerated" % kmax)
    chk.assume("floating-point comparison of r with a start is exact comparison of the two floats")


_WORKER = {}


def _cases_for(args):
    """evaluate all marker assignments / r positions / listings for one weak ordering of k starts"""
    k, ranks, perm_max = args
    if "P" not in _WORKER:
        _WORKER["P"] = F.load_program()
    P = _WORKER["P"]
    I = F.make_interp(P)
    bad, order_bad = [], []
    ncase = nontrivial = either = 0
    m = max(ranks) + 1
    starts = [2 * x for x in ranks]                 # even integers; odd ones lie strictly between
    rpos = list(range(-1, 2 * m))                  # below, on, between, ..., above
    for markers in itertools.product((">", ">="), repeat=k):
        ranges = [("f%d" % i, markers[i], starts[i]) for i in range(k)]
        if k <= perm_max:
            listings = list(itertools.permutations(range(k)))
        else:
            listings = [tuple(range(k)), tuple(reversed(range(k)))]
        results = {}
        for listing in listings:
            obj = build(I, P, ranges, listing)
            for r in rpos:
                # through the public call: range i is the opaque function f_i, so the value names the selected range
                val = I.num(I.call(obj, [Num(ep.const(r))], {}))
                if val.is_zero():
                    lab = None
                else:
                    hits = [nm for nm, _, _ in ranges if ep.equal(val, ep.app(("f", nm), [ep.const(r)]))[0]]
                    if len(hits) != 1:
                        raise AnalysisError("potential(%s) = %r names no single range" % (r, val))
                    lab = hits[0]
                ok_labels = oracle(ranges, r)
                ncase += 1
                if lab is not None:
                    nontrivial += 1
                if len(ok_labels) > 1:
                    either += 1
                if lab not in ok_labels:
                    bad.append((ranges, listing, r, lab, sorted(ok_labels, key=str)))
                desc = None if lab is None else (ranges[int(lab[1:])][1], ranges[int(lab[1:])][2])
                prev = results.setdefault(r, desc)
                if prev != desc:
                    order_bad.append((ranges, listing, r, desc, prev))
    return k, ncase, nontrivial, either, bad[:3], len(bad), order_bad[:3], len(order_bad)


def enumerate_selection(chk, P, kmax, perm_max, stats):
    cls = P.cls(MOD, "Multi_Range_Potential_Form")
    site = cls.site_of("_range_search")
    jobs = [(k, ranks, perm_max) for k in range(1, kmax + 1) for ranks in weak_orderings(k)]
    _WORKER["P"] = P
    if chk.tier == "thorough":
        import multiprocessing
        with multiprocessing.Pool(min(16, os.cpu_count() or 1)) as pool:
            results = pool.map(_cases_for, jobs, chunksize=4)
    else:
        results = [_cases_for(j) for j in jobs]
    for k in range(1, kmax + 1):
        rs = [r for r in results if r[0] == k]
        ncase = sum(r[1] for r in rs)
        stats["cases"] += ncase
        stats["nontrivial"] += sum(r[2] for r in rs)
        stats["either"] += sum(r[3] for r in rs)
        bad = [b for r in rs for b in r[4]]
        nbad = sum(r[5] for r in rs)
        order_bad = [b for r in rs for b in r[6]]
        nob = sum(r[7] for r in rs)
        chk.ob("C08.O1", "k=%d: all %d (ordering, markers, r, listing) cases select the stated range" % (k, ncase), not nbad, site=site,
               found=("%d mismatches, first: ranges=%s listed %s r=%s selected %s acceptable %s" % ((nbad,) + bad[0])) if bad else None,
               expect="greatest start containing r", key="C08.O1|k=%d" % k)
        if 2 <= k <= max(perm_max, 2):
            chk.ob("C08.O2", "k=%d: every listing permutation selects a range with the same (marker, start)" % k, not nob,
                   site=cls.setters["range_defns"].site() if "range_defns" in cls.setters else site,
                   found=("%d differences, first: ranges=%s listing %s r=%s -> %s vs %s" % ((nob,) + order_bad[0])) if order_bad else None,
                   expect="listing order irrelevant", key="C08.O2|k=%d" % k)
        chk.samples_extra.append({"k": k, "weak_orderings": len(rs), "cases": ncase,
                                  "example": "starts by rank (even integers), all marker assignments, r in {-1..2m-1}, listing permutations"})


def value_and_derivs(chk, P):
    I = F.make_interp(P)
    ranges = [("f0", ">", 0), ("f1", ">=", 2)]
    obj = build(I, P, ranges, (1, 0))
    cls = P.cls(MOD, "Multi_Range_Potential_Form_Deriv2")
    for r, lab in ((3, "f1"), (2, "f1"), (1, "f0")):
        for meth, order in (("__call__", 0), ("deriv", 1), ("deriv2", 2)):
            v = I.num(I.call(I.getattr(obj, meth), [Num(ep.const(r))], {}))
            want = ep.app(("f", lab), [ep.const(r)], dorder=order)
            chk.ob("C08.O3", "r=%d: %s evaluates %s of the selected range %s" % (r, meth, ["value", "deriv", "deriv2"][order], lab),
                   ep.equal(v, want)[0], site=cls.lookup(meth).site(), found=v, expect=want, key="C08.O3|selected|%s|r%d" % (meth, r))
    for meth, want in (("__call__", 0), ("deriv", 0), ("deriv2", 0)):
        v = I.num(I.call(I.getattr(obj, meth), [Num(ep.const(-1))], {}))
        chk.ob("C08.O3", "below the first range %s returns 0" % meth, v.as_const() == 0, site=cls.lookup(meth).site(), found=v, expect=0,
               key="C08.O3|none|%s" % meth)


def potable_default(chk, P):
    """whole definitions, from the text of a [Pair] entry to the callable the builder returns, evaluated at probe separations:
    ConfigParser(text).pair -> Potential_Form_Builder(forms, modifiers).create_potential_function(definition)"""
    from .c14 import parse
    b_cls = P.cls("atsim.potentials.config._potential_form_builder", "Potential_Form_Builder")
    site = b_cls.site_of("create_potential_function")

    class ModFactory(object):
        """a modifier: called with (argument definitions, builder)"""
        def m___call__(self, J, args, kwargs):
            _ = (args, kwargs)
            return W.param("M")

    class FormFactory(object):
        """a potential form: called with its parameters"""
        def m___call__(self, J, args, kwargs):
            _ = (args, kwargs)
            return W.param("F")

    def potential(defn):
        out = parse(P, "[Pair]\nA-B : %s\n" % defn)
        if out[0] != "ok":
            return None, "the definition is refused: %r" % (out[1],)
        J, cp = out[3], out[4]
        J.assumption_fns.append(F.hasattr_true({"deriv": False, "deriv2": False}))
        try:
            rows = J.as_iterable(J.getattr(cp, "pair"))
            pfi = J.getattr(rows.items[0], "potential_form_instance")
            pfr, mreg = DictV(), DictV()
            pfr.items[Const("as.x").key()] = (Const("as.x"), PyObjV(FormFactory()))
            mreg.items[Const("sum").key()] = (Const("sum"), PyObjV(ModFactory()))
            pb = J.instantiate(b_cls, [pfr, mreg], {}, None)
            pot = W.run_method(J, pb, "create_potential_function", [pfi])
        except RaiseSignal as e:
            return None, "raises %r" % (e.exc,)
        return J, pot

    def at(J, pot, r):
        v = J.num(J.call(pot, [Num(ep.const(r))], {}))
        if v.is_zero():
            return "0"
        for nm in ("F", "M"):
            if ep.equal(v, ep.app(("param", nm), [ep.const(r)]))[0]:
                return "%s(%s)" % (nm, r)
        return repr(v)
    cases = [
        # definition, probes, expected, what
        ("as.x", (-1, 0, 1), ["0", "0", "F(1)"], "a definition without a range marker acts for r > 0 (default range ('>', 0.0))", "default"),
        (">=5 as.x", (4, 5, 6), ["0", "F(5)", "F(6)"], "a leading '>=5' binds (range_type, start) = ('>=', 5): 0 below 5, the form from 5 on", "marker-ge"),
        (">5 as.x", (4, 5, 6), ["0", "0", "F(6)"], "a leading '>5' excludes 5 itself", "marker-gt"),
        (">= 2 sum(as.x)", (1, 2, 3), ["0", "M(2)", "M(3)"], "a lone modifier '>=2 sum(...)': 0 below its start, its own value from the start on", "lone|modifier"),
        (">=2 as.x", (1, 2, 3), ["0", "F(2)", "F(3)"], "a lone form '>=2 as.x': 0 below its start, its own value from the start on", "lone|form"),
        ("as.x >=2 sum(as.x)", (-1, 1, 2, 3), ["0", "F(1)", "M(2)", "M(3)"], "a second range '>=2 sum(...)' takes over at 2", "two-ranges"),
    ]
    # one builder used for several definitions of one model file: each keeps its own marker
    for order in ((0, 1), (1, 0)):
        defs = (">=3 as.x", ">3 as.x")
        out = parse(P, "[Pair]\nA-B : %s\nA-C : %s\n" % (defs[order[0]], defs[order[1]]))
        got = None
        if out[0] == "ok":
            J, cp = out[3], out[4]
            J.assumption_fns.append(F.hasattr_true({"deriv": False, "deriv2": False}))
            try:
                rows = J.as_iterable(J.getattr(cp, "pair")).items
                pfr, mreg = DictV(), DictV()
                pfr.items[Const("as.x").key()] = (Const("as.x"), PyObjV(FormFactory()))
                pb = J.instantiate(b_cls, [pfr, mreg], {}, None)
                pots = [W.run_method(J, pb, "create_potential_function", [J.getattr(r_, "potential_form_instance")]) for r_ in rows]
                got = [at(J, p_, 3) for p_ in pots]
            except RaiseSignal as e:
                got = "raises %r" % (e.exc,)
        want2 = [("F(3)" if defs[i] == ">=3 as.x" else "0") for i in order]
        chk.ob("C08.O4", "one builder, '%s' then '%s' (same form, parameters and start, different marker): each definition keeps its own marker at r = 3"
               % (defs[order[0]], defs[order[1]]), got == want2, site=site, found=got if got is not None else out[1], expect=want2,
               key="C08.O4|shared-builder|%d%d" % order)
    for defn, probes, want, what, key in cases:
        J, pot = potential(defn)
        if J is None:
            got = pot
        else:
            try:
                got = [at(J, pot, r) for r in probes]
            except RaiseSignal as e:
                got = "raises %r" % (e.exc,)
        chk.ob("C08.O4", "%r: %s" % (defn, what), got == want, site=site, found=got, expect="values %s at r = %s" % (want, list(probes)),
               key="C08.O4|%s" % key)


def factory_class(chk, P):
    fi = P.func(MOD, "create_Multi_Range_Potential_Form")
    defn = P.cls(MOD, "Multi_Range_Defn")
    bad = []
    n = 0
    for k in (1, 2, 3):
        for flags in itertools.product(((False, False), (True, False), (True, True)), repeat=k):
            I = F.make_interp(P)

            def fn(cond, flags=flags):
                if isinstance(cond, Cond) and cond.kind == "hasattr" and isinstance(cond.args[0], Opaque) and cond.args[0].path[0] == "g":
                    i = cond.args[0].path[1]
                    return flags[i][0] if cond.args[1].v == "deriv" else flags[i][1]
                return None
            I.assumption_fns.append(fn)
            objs = [I.instantiate(defn, [Const(">"), Num(ep.const(i)), Opaque(("g", i))], {}, None) for i in range(k)]
            obj = I.run(fi, objs)
            want = "Multi_Range_Potential_Form_Deriv2" if any(f[1] for f in flags) else \
                ("Multi_Range_Potential_Form_Deriv" if any(f[0] for f in flags) else "Multi_Range_Potential_Form")
            n += 1
            if not (isinstance(obj, InstV) and obj.ci.name == want):
                bad.append((flags, obj.ci.name if isinstance(obj, InstV) else obj, want))
    chk.ob("C08.O5", "all %d (deriv, deriv2) availability patterns over 1..3 ranges pick the right class" % n, not bad, site=fi.site(),
           found=("%d wrong, first: flags=%s got %s want %s" % ((len(bad),) + bad[0])) if bad else None,
           expect="Deriv2 if any range has deriv2, else Deriv if any has deriv, else plain", key="C08.O5|class-selection")
    chk.ob("C08.O5", "class hierarchy: Deriv2 extends Deriv extends the plain form (deriv available whenever deriv2 is)",
           P.cls(MOD, "Multi_Range_Potential_Form_Deriv2").is_subclass_of(P.cls(MOD, "Multi_Range_Potential_Form_Deriv")),
           site=fi.site(), key="C08.O5|hierarchy")

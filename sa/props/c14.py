"""C14 - override / add / remove equal editing the file (DESIGN.md section 4, C14)."""
import ast
import itertools

from .. import ep
from ..model import AnalysisError
from ..values import *     # noqa
from ..strtree import *    # noqa
from ..symeval import RaiseSignal
from ..symeval_ops import ExcV, NTV, PyObjV
from .. import formrules as F
from .. import writerules as W
from .. import cfgmodel as M

CP = "atsim.potentials.config._config_parser"
POTABLE = "atsim.potentials.tools.potable"
QA = "atsim.potentials.tools.potable._query_actions"

EXPLANATION = (
    "The override/addition loop of ConfigParser._init_config_parser is a finite decision over (item present?, value is "
    "None?, section empty afterwards?, section present?): every combination is evaluated by the abstract evaluator against "
    "a call-level model of the configparser API and the recorded parser operations / raised exception are compared with "
    "'edit the file by hand'. Key matching irrespective of embedded whitespace is decided symbolically: the optionxform hook "
    "and the section dictionary's key transform are translated to transformation chains over an arbitrary string and must "
    "be identical, and the dictionary's accessors must all apply it. The command-line splitter touches its argument only "
    "through ':' and '=' so it is evaluated on every delimiter pattern; the option tables of _make_config_parser and the "
    "section coverage of --list-items are evaluated on models containing every kind of section.")


def run(chk):
    P = F.load_program()
    chk.explanation = EXPLANATION
    chk.info.update(P.stats())
    chk.rule("C14.O1", "override / remove / add: resulting file state equals the hand edit, for every spelling of the key and every presence scenario", 28)
    chk.rule("C14.O2", "one key normaliser: optionxform == dictionary key transform for every key; all dictionary accessors apply it", 5)
    chk.rule("C14.O3", "command line: SECTION:KEY=VALUE split on every delimiter pattern; later override of the same item wins; removals via the same table; additions in order", 7)
    chk.rule("C14.O4", "--list-items / --item-value cover every section of the (edited) file exactly once", 12)
    chk.attempt("O1", lambda: override_loop(chk, P))
    chk.attempt("O2", lambda: normaliser(chk, P, "C14.O2"))
    chk.attempt("O3", lambda: cli(chk, P))
    chk.attempt("O4", lambda: listing(chk, P))
    chk.assume("configparser contract: option keys pass through optionxform before storage, lookup and the strict duplicate check; "
               "SectionProxy item assignment is parser.set(); sections() omits the default section")
    chk.assume("byte equality of the final table with that of the hand-edited file additionally needs the writers (C01-C05, C19)")


def _tuple(I, P, section, key, value):
    mod = P.module(CP)
    t = I.module_global(mod, "ConfigParserOverrideTuple")
    return I.call(t, [Const(section), Const(key), NONE if value is None else Const(value)], {})


def parse(P, text, overrides=(), additional=()):
    """ConfigParser(fp, overrides, additional) evaluated abstractly on the configparser base model
    -> ('ok', {section: {key: value}}, defaults) | ('raise', exception)"""
    I = F.make_interp(P)
    M.install_rawconfigparser(I)
    cls = P.cls(CP, "ConfigParser")
    ov = ListV([_tuple(I, P, *o) for o in overrides], "list")
    ad = ListV([_tuple(I, P, *a) for a in additional], "list")
    try:
        cp = I.instantiate(cls, [PyObjV(M.TextFile(text))], {"overrides": ov, "additional": ad}, None)
    except RaiseSignal as e:
        return ("raise", e.exc)
    raw = I.getattr(cp, "raw_config_parser")
    state = {}
    for k, d in raw.attrs["_sections"].items.values():
        state[k.v] = dict((kk.v, vv.v) for kk, vv in d.items.values())
    defaults = dict((kk.v, vv.v) for kk, vv in raw.attrs["_defaults"].items.values())
    return ("ok", state, defaults, I, cp)


def _is(P, exc, clsname, mod=CP):
    want = P.cls(mod, clsname)
    return isinstance(exc, ExcV) and isinstance(exc.cls, ClassV) and exc.cls.ci.is_subclass_of(want)


BASE = "[Tabulation]\ntarget : GULP\n[Pair]\nA-B : v1\nC-D : v3\n[Potential-Form]\nf(r, A) : v2\ng(r) : v4\n[Solo]\nonly : x\n[Variables]\nq : 1\n"
SPELLINGS = {("Pair", "A-B"): ["A-B", "A - B", " A\t-B "], ("Potential-Form", "f(r,A)"): ["f(r,A)", "f(r, A)", "f( r ,\tA )"]}


def override_loop(chk, P):
    cls = P.cls(CP, "ConfigParser")
    site = cls.lookup("_init_config_parser").site()
    cfgx = ("atsim.potentials.config._common", "ConfigurationException")
    base = parse(P, BASE)
    if base[0] != "ok":
        raise AnalysisError("base file did not parse on the model: %r" % (base,))
    # overrides and removals, every spelling of an existing key
    for (sec, norm), spellings in SPELLINGS.items():
        for sp in spellings:
            out = parse(P, BASE, overrides=[(sec, sp, "NEW")])
            want = dict(base[1][sec])
            want[norm] = "NEW"
            ok = out[0] == "ok" and out[1][sec] == want and set(out[1]) == set(base[1])
            chk.ob("C14.O1", "override of %s:%r replaces the value of the item (hand edit of %r)" % (sec, sp, norm), ok, site=site,
                   found=out[1].get(sec) if out[0] == "ok" else out[1], expect=want, key="C14.O1|override|%s|%r" % (norm, sp))
            out = parse(P, BASE, overrides=[(sec, sp, None)])
            want = dict(base[1][sec])
            del want[norm]
            ok = out[0] == "ok" and out[1][sec] == want
            chk.ob("C14.O1", "removal of %s:%r deletes exactly that item" % (sec, sp), ok, site=site,
                   found=out[1].get(sec) if out[0] == "ok" else out[1], expect=want, key="C14.O1|remove|%s|%r" % (norm, sp))
            out = parse(P, BASE, additional=[(sec, sp, "DUP")])
            ok = out[0] == "raise" and _is(P, out[1], "ConfigOverrideDuplicateException") and _is(P, out[1], cfgx[1], cfgx[0])
            chk.ob("C14.O1", "addition of %s:%r, which exists as %r, is rejected" % (sec, sp, norm), ok, site=site,
                   found=out[1] if out[0] == "raise" else out[1].get(sec), expect="ConfigOverrideDuplicateException",
                   key="C14.O1|add-existing|%s|%r" % (norm, sp))
    out = parse(P, BASE, overrides=[("Solo", "only", None)])
    ok = out[0] == "ok" and "Solo" not in out[1] and out[1]["Pair"] == base[1]["Pair"]
    chk.ob("C14.O1", "removing the last item of a section drops the section", ok, site=site, found=sorted(out[1]) if out[0] == "ok" else out[1],
           expect="no [Solo]", key="C14.O1|remove-last")
    for sec, key in (("Pair", "X-Y"), ("Nope", "k")):
        for val in ("v", None):
            out = parse(P, BASE, overrides=[(sec, key, val)])
            ok = out[0] == "raise" and _is(P, out[1], "ConfigOverrideException") and _is(P, out[1], cfgx[1], cfgx[0])
            chk.ob("C14.O1", "%s of the missing item %s:%s is a configuration error" % ("override" if val else "removal", sec, key), ok, site=site,
                   found=out[1], expect="ConfigOverrideException", key="C14.O1|missing|%s|%s" % (sec, "override" if val else "remove"))
    out = parse(P, BASE, additional=[("Pair", "X - Y", "a1")])
    ok = out[0] == "ok" and out[1]["Pair"].get("X-Y") == "a1" and len(out[1]["Pair"]) == len(base[1]["Pair"]) + 1
    chk.ob("C14.O1", "addition of a new item to an existing section", ok, site=site, found=out[1].get("Pair") if out[0] == "ok" else out[1],
           expect="Pair:X-Y = a1", key="C14.O1|add-new")
    out = parse(P, BASE, additional=[("EAM-Embed", "A", "as.zero")])
    ok = out[0] == "ok" and out[1].get("EAM-Embed") == {"A": "as.zero"}
    chk.ob("C14.O1", "addition to a section that does not exist creates it", ok, site=site, found=out[1] if out[0] != "ok" else out[1].get("EAM-Embed"),
           expect="[EAM-Embed] A = as.zero", key="C14.O1|add-section")
    out = parse(P, BASE, additional=[("Variables", "z", "2")])
    ok = out[0] == "ok" and out[2].get("z") == "2" and out[2].get("q") == "1" and "Variables" not in out[1]
    chk.ob("C14.O1", "addition to [Variables] sets the variable (the default section cannot be created)", ok, site=site,
           found=out[2] if out[0] == "ok" else out[1], expect="q, z", key="C14.O1|add|variables")
    out = parse(P, BASE, overrides=[("Variables", "q", "5")])
    ok = out[0] == "ok" and out[2].get("q") == "5"
    chk.ob("C14.O1", "override of a [Variables] item", ok, site=site, found=out[2] if out[0] == "ok" else out[1], expect="q = 5",
           key="C14.O1|override|variables")
    out = parse(P, BASE, overrides=[("Pair", "A-B", "o1"), ("Tabulation", "target", "LAMMPS")], additional=[("Pair", "E-F", "a")])
    ok = out[0] == "ok" and out[1]["Pair"].get("A-B") == "o1" and out[1]["Tabulation"]["target"] == "LAMMPS" and out[1]["Pair"].get("E-F") == "a"
    chk.ob("C14.O1", "several overrides and an addition are all applied", ok, site=site, found=out[1] if out[0] == "ok" else out[1],
           expect="all three edits", key="C14.O1|several")
    out = parse(P, BASE, overrides=[("Pair", "A-B", None)], additional=[("Pair", "A - B", "again")])
    ok = out[0] == "ok" and out[1]["Pair"].get("A-B") == "again"
    chk.ob("C14.O1", "an item removed by an override can be added again (additions are applied after overrides)", ok, site=site,
           found=out[1].get("Pair") if out[0] == "ok" else out[1], expect="Pair:A-B = again", key="C14.O1|remove-then-add")


def normaliser(chk, P, rule):
    """optionxform(k) and _ConfigParserDict._key_transform(k) as symbolic transformation chains"""
    I = F.make_interp(P)
    raw = InstV(P.cls(CP, "_RawConfigParser"))
    dct = InstV(P.cls(CP, "_ConfigParserDict"))
    k = Opaque(("param", "key"))
    kstr = StrV(SFmt("s", k))
    a = W.run_method(I, raw, "optionxform", [kstr])
    b = W.run_method(I, dct, "_key_transform", [kstr])
    site = raw.ci.lookup("optionxform").site()
    same = a.key() == b.key()
    chk.ob(rule, "optionxform(k) and the section dictionary's key transform are the same chain of string operations for every k",
           same, site=site, found=a, expect=b, key=rule + "|same-transform")
    # the chain removes blanks and tabs everywhere (strip + replace ' ' + replace '\\t')
    txt = repr(a)
    ok = "strip" in txt and "replace" in txt and "' '" in txt and "'\\\\t'" in txt or ("strip" in txt and txt.count("replace") >= 2)
    chk.ob(rule, "the transform strips the ends and removes embedded blanks and tabs", ok, site=site, found=a,
           expect="strip(), replace(' ', ''), replace('\\t', '')", key=rule + "|removes-whitespace")
    # dictionary accessors normalise
    calls = []

    def base(name):
        def f(I_, inst, args, kwargs):
            calls.append((name, args[0]))
            return NONE
        return f
    for nm in ("__setitem__", "__getitem__", "__delitem__", "__contains__", "get"):
        I.ext_methods[("OrderedDict", nm)] = base(nm)
    for nm, args in (("__setitem__", [kstr, Const("v")]), ("__getitem__", [kstr]), ("__delitem__", [kstr])):
        calls[:] = []
        fi = dct.ci.lookup(nm)
        if fi is None:
            chk.ob(rule, "dictionary %s normalises its key" % nm, False, site=dct.ci.module.relpath, found="not overridden", expect="override",
                   key=rule + "|dict|" + nm)
            continue
        W.run_method(I, dct, nm, args)
        ok = len(calls) == 1 and calls[0][0] == nm and calls[0][1].key() == b.key()
        chk.ob(rule, "dictionary %s looks the key up after the transform" % nm, ok, site=fi.site(), found=calls, expect=b,
               key=rule + "|dict|" + nm)


def delimiter_patterns():
    """argument strings by their pattern of ':' and '=' (up to three delimiters)"""
    out = []
    segs = ["s0", "k1", "v2", "w3"]
    for n in range(0, 4):
        for delims in itertools.product(":=", repeat=n):
            s = segs[0]
            for i, d in enumerate(delims):
                s += d + segs[i + 1]
            out.append(s)
    return out


def split_oracle(s, has_value):
    """first '=' separates the value; the last ':' of what precedes separates section and key"""
    value = None
    left = s
    if has_value:
        if "=" not in s:
            return "error"
        left, value = s.split("=", 1)
    if ":" not in left:
        return "error"
    section, key = left.rsplit(":", 1)
    return (section, key, value)


def cli(chk, P):
    fi = P.func(POTABLE, "_create_override_tuple")
    cfg = P.cls("atsim.potentials.config._common", "ConfigurationException")
    for has_value in (True, False):
        bad = []
        n = 0
        for s in delimiter_patterns():
            I = F.make_interp(P)
            try:
                r = I.run(fi, [Const(s), Const(has_value)])
                got = (r.values[0].v, r.values[1].v, r.values[2].v) if isinstance(r, NTV) else repr(r)
            except RaiseSignal as e:
                got = "error" if (isinstance(e.exc, ExcV) and isinstance(e.exc.cls, ClassV) and e.exc.cls.ci.is_subclass_of(cfg)) else "internal %r" % (e.exc,)
            want = split_oracle(s, has_value)
            n += 1
            if got != want:
                bad.append("%r -> %r (expected %r)" % (s, got, want))
        chk.ob("C14.O3", "_create_override_tuple(%s): all %d delimiter patterns split at the first '=' and the last ':' before it, "
                         "malformed ones are configuration errors" % ("KEY=VALUE" if has_value else "KEY only", n), not bad, site=fi.site(),
               found="; ".join(bad[:4]) if bad else None, expect="(section, key, value) / configuration error",
               key="C14.O3|split|%s" % has_value)
    # _make_config_parser: tables
    mk = P.func(POTABLE, "_make_config_parser")
    I = F.make_interp(P)
    seen = {}

    def cp_init(i, fv, a, k, n):
        seen["overrides"] = k.get("overrides")
        seen["additional"] = k.get("additional")
        return NONE
    I.hooks[CP + ":ConfigParser.__init__"] = cp_init

    def lol(*groups):
        return ListV([ListV([Const(x) for x in g], "list") for g in groups], "list")
    I.run(mk, [W.param("cfg"), lol(["Pair:A-B=v1", "Pair:C-D=v2"], ["Pair:A-B=v3"]), lol(["Pair:X-Y=a1"], ["Pair:Z-Z=a2"]),
               lol(["Pair:C-D"], ["Tabulation:nr"]), NONE, FALSE])

    def tup(t):
        return (t.values[0].v, t.values[1].v, t.values[2].v)
    ov = [tup(t) for t in seen["overrides"].items] if isinstance(seen.get("overrides"), ListV) else None
    ad = [tup(t) for t in seen["additional"].items] if isinstance(seen.get("additional"), ListV) else None
    site = mk.site()
    chk.ob("C14.O3", "a later --override-item of the same SECTION:KEY replaces the earlier one", ov is not None and ("Pair", "A-B", "v3") in ov
           and ("Pair", "A-B", "v1") not in ov, site=site, found=ov, expect="Pair:A-B=v3 only", key="C14.O3|later-wins")
    chk.ob("C14.O3", "--remove-item goes through the same table with value None (a removal after an override of the same item wins)",
           ov is not None and ("Pair", "C-D", None) in ov and ("Pair", "C-D", "v2") not in ov and ("Tabulation", "nr", None) in ov, site=site,
           found=ov, expect="Pair:C-D -> None, Tabulation:nr -> None", key="C14.O3|removals")
    chk.ob("C14.O3", "each (section, key) appears once in the override table", ov is not None and len(set(o[:2] for o in ov)) == len(ov), site=site,
           found=ov, expect="unique keys", key="C14.O3|unique")
    chk.ob("C14.O3", "--add-item entries are passed on in the given order", ad == [("Pair", "X-Y", "a1"), ("Pair", "Z-Z", "a2")], site=site, found=ad,
           expect="X-Y then Z-Z", key="C14.O3|additions")
    # the command line entry point: --override-item / --add-item / --remove-item reach the parser in those roles
    do = P.func(POTABLE, "_do_tabulation")
    J = F.make_interp(P)
    got = {}

    def cp_init2(i, fv, a, k, n):
        got["overrides"] = k.get("overrides")
        got["additional"] = k.get("additional")
        got["file"] = a[0] if a else k.get("fp")
        return NONE
    J.hooks[CP + ":ConfigParser.__init__"] = cp_init2
    J.hooks["atsim.potentials.tools.potable._actions:action_tabulate"] = lambda i, fv, a, k, n: NONE
    J.x_sys_exit = lambda args, kwargs, node, env: NONE
    given = {"config_file": W.param("config_file"), "out_filename": Const("out"),
             "override_item": lol(["Pair:A-B=ov"]), "add_item": lol(["Pair:X-Y=ad"]), "remove_item": lol(["Pair:C-D"])}

    class Parser(object):
        def m_error(self, J_, args, kwargs):
            raise AnalysisError("parser.error called: %r" % (args,))
    raised = None
    try:
        J.run(do, [PyObjV(Parser()), PyObjV(W.ArgsModel(W.cli_defaults(P), given))])
    except RaiseSignal as e:
        raised = e.exc
    ov2 = sorted((tup(t) for t in got["overrides"].items), key=repr) if isinstance(got.get("overrides"), ListV) else None
    ad2 = [tup(t) for t in got["additional"].items] if isinstance(got.get("additional"), ListV) else None
    okw = ov2 == [("Pair", "A-B", "ov"), ("Pair", "C-D", None)] and ad2 == [("Pair", "X-Y", "ad")] \
        and got.get("file") is not None and got["file"].key() == W.param("config_file").key()
    chk.ob("C14.O3", "potable -e Pair:A-B=ov -a Pair:X-Y=ad -r Pair:C-D: override, addition and removal reach ConfigParser in those roles, "
                     "with the given model file", okw and raised is None, site=do.site(), found=(ov2, ad2) if raised is None else "raises %r" % (raised,), expect="overrides [A-B=ov, C-D removed], additional [X-Y=ad]",
           key="C14.O3|entry-point-wiring")
    # premise for the splitter: its argument is touched only through 'in', split and rsplit on ':' / '='
    used = set()
    for node in ast.walk(fi.node):
        if isinstance(node, ast.Call) and isinstance(node.func, ast.Attribute):
            used.add(node.func.attr)
    chk.ob("C14.O3", "premise: the splitter inspects its argument only through ':' / '=' tests and (r)split", used <= {"split", "rsplit", "format"},
           site=fi.site(), found=sorted(used), expect="split/rsplit/format", key="C14.O3|premise")


class RawModel(object):
    """raw parser with one section of every kind"""
    def __init__(self, sections, defaults):
        self.secs = sections
        self.defs = defaults

    def m_sections(self, I, args, kwargs):
        return ListV([Const(s) for s in self.secs], "list")

    def m_has_section(self, I, args, kwargs):
        return Const(args[0].v in self.secs)

    def m_has_option(self, I, args, kwargs):
        s, k = args[0].v, args[1].v
        if s == "Variables":
            return Const(k in self.defs)
        return Const(s in self.secs and k in self.secs[s])

    def m_defaults(self, I, args, kwargs):
        d = DictV()
        for k, v in self.defs.items():
            d.items[Const(k).key()] = (Const(k), Const(v))
        return d

    def get_default_section(self, I):
        return Const("Variables")

    def getitem(self, I, idx):
        name = idx.v
        if name == "Variables":
            return PyObjV(SecModel(self.defs))
        if name not in self.secs:
            raise RaiseSignal(ExcV(ExtV("builtins.KeyError"), [idx]), None)
        return PyObjV(SecModel(self.secs[name]))


class SecModel(object):
    def __init__(self, d):
        self.d = d

    def iter_items(self, I):
        return [Const(k) for k in self.d]

    def getitem(self, I, idx):
        if idx.v not in self.d:
            raise RaiseSignal(ExcV(ExtV("builtins.KeyError"), [idx]), None)
        return Const(self.d[idx.v])

    def contains(self, I, item):
        return item.v in self.d


def listing(chk, P):
    sections = {
        "Tabulation": {"target": "GULP", "nr": "5"},
        "Pair": {"A-B": "as.zero"},
        "Potential-Form": {"f(r)": "r"},
        "EAM-Embed": {"A": "as.zero"},
        "EAM-Density": {"A->B": "as.zero"},
        "Table-Form:t": {"x": "1 2", "y": "1 2"},
        "Table-Form: u": {"xy": "1 2"},
        "Species": {"A.atomic_mass": "1"},
        "EAM-ADP-Dipole": {"A-B": "as.zero"},
        "Something-Else": {"k": "v"},
    }
    defaults = {"q": "1.0"}
    I = F.make_interp(P)
    raw = PyObjV(RawModel(sections, defaults))
    cp = InstV(P.cls(CP, "ConfigParser"))
    cp.attrs["_config_parser"] = raw
    fi = P.func(QA, "_list_items")
    items = I.run(fi, [cp])
    site = fi.site()
    if not isinstance(items, ListV):
        raise AnalysisError("_list_items did not return a concrete list")
    listed = {}
    for it in items.items:
        k, v = it.items[0], it.items[1]
        listed.setdefault(k.v, []).append(v.v if isinstance(v, Const) else repr(v))
    allsecs = dict(sections)
    allsecs["Variables"] = defaults
    for sec, opts in allsecs.items():
        for key, val in opts.items():
            label = "%s:%s" % (sec, key)
            got = listed.get(label, [])
            chk.ob("C14.O4", "item %s is listed exactly once with its value" % label, got == [val], site=site, found=got, expect=[val],
                   key="C14.O4|listed|%s" % sec)
    extra = [k for k in listed if k not in ["%s:%s" % (s, key) for s, o in allsecs.items() for key in o]]
    chk.ob("C14.O4", "nothing is listed that is not an item of the file", not extra, site=site, found=extra or None, expect="no extra items",
           key="C14.O4|no-extra")
    # --list-items as printed: one line 'SECTION:KEY=VALUE' per item, in listing order
    ali = P.func(QA, "action_list_items")
    J = F.make_interp(P)
    cpj = InstV(P.cls(CP, "ConfigParser"))
    cpj.attrs["_config_parser"] = PyObjV(RawModel(sections, defaults))
    J.run(ali, [cpj])
    out = W.out_tree(J.stdout())
    text = out.text if isinstance(out, SLit) else None
    want_text = "".join("%s=%s\n" % (it.items[0].v, it.items[1].v) for it in items.items
                        if isinstance(it.items[0], Const) and isinstance(it.items[1], Const))
    chk.ob("C14.O4", "--list-items prints 'SECTION:KEY=VALUE' lines, one per item", text is not None and text == want_text, site=ali.site(),
           found=(text or repr(out))[:200], expect=want_text[:200], key="C14.O4|printed-format")
    # --item-value
    iv = P.func(QA, "_item_value")
    cfg = P.cls("atsim.potentials.config._common", "ConfigurationException")
    for label, want in (("Pair:A-B", "as.zero"), ("Table-Form:t:x", "1 2"), ("Variables:q", "1.0")):
        try:
            r = I.run(iv, [cp, Const(label)])
            got = r.v if isinstance(r, Const) else repr(r)
        except RaiseSignal as e:
            got = "raise %r" % (e.exc,)
        chk.ob("C14.O4", "--item-value %s returns %r" % (label, want), got == want, site=iv.site(), found=got, expect=want,
               key="C14.O4|item-value|%s" % label)
    for label in ("Pair:nope", "Nope:k", "nocolon"):
        try:
            r = I.run(iv, [cp, Const(label)])
            got = repr(r)
            ok = False
        except RaiseSignal as e:
            ok = isinstance(e.exc, ExcV) and isinstance(e.exc.cls, ClassV) and e.exc.cls.ci.is_subclass_of(cfg)
            got = e.exc
        chk.ob("C14.O4", "--item-value %s (no such item) is a configuration error" % label, ok, site=iv.site(), found=got,
               expect="ConfigurationException", key="C14.O4|item-value-missing|%s" % label)

"""C14 - override / add / remove equal editing the file (DESIGN.md section 4, C14)."""
import ast
import itertools

from .. import ep
from ..model import AnalysisError
from ..values import *     # noqa
from ..strtree import *    # noqa
from ..symeval import RaiseSignal
from ..symeval_ops import ExcV, NTV, PyObjV
from .. import formrules as F
from .. import writerules as W
from .. import cfgmodel as M

CP = "atsim.potentials.config._config_parser"
POTABLE = "atsim.potentials.tools.potable"
QA = "atsim.potentials.tools.potable._query_actions"

EXPLANATION = (
    "The override/addition loop of ConfigParser._init_config_parser is a finite decision over (item present?, value is "
    "None?, section empty afterwards?, section present?): every combination is evaluated by the abstract evaluator against "
    "a call-level model of the configparser API and the recorded parser operations / raised exception are compared with "
    "'edit the file by hand'. Key matching irrespective of embedded whitespace is decided symbolically: the optionxform hook "
    "and the section dictionary's key transform are translated to transformation chains over an arbitrary string and must "
    "be identical, and the dictionary's accessors must all apply it. The command-line splitter touches its argument only "
    "through ':' and '=' so it is evaluated on every delimiter pattern; the option tables of _make_config_parser and the "
    "section coverage of --list-items are evaluated on models containing every kind of section.")


def run(chk):
    P = F.load_program()
    chk.explanation = EXPLANATION
    chk.info.update(P.stats())
    chk.rule("C14.O1", "override / remove / add: resulting file state equals the hand edit, for every spelling of the key and every presence scenario", 28)
    chk.rule("C14.O2", "one key normaliser: optionxform == dictionary key transform for every key; all dictionary accessors apply it", 4)
    chk.rule("C14.O3", "command line: SECTION:KEY=VALUE split on every delimiter pattern; later override of the same item wins; removals via the same table; additions in order", 9)
    chk.rule("C14.O4", "--list-items / --item-value cover every section of the (edited) file exactly once", 12)
    chk.attempt("O1", lambda: override_loop(chk, P))
    chk.attempt("O1s", lambda: sequences(chk, P))
    chk.attempt("O2", lambda: normaliser(chk, P, "C14.O2"))
    chk.attempt("O3", lambda: cli(chk, P))
    chk.attempt("O4", lambda: listing(chk, P))
    chk.assume("configparser contract: option keys pass through optionxform before storage, lookup and the strict duplicate check; "
               "SectionProxy item assignment is parser.set(); sections() omits the default section")
    chk.assume("byte equality of the final table with that of the hand-edited file additionally needs the writers (C01-C05, C19)")


def _tuple(I, P, section, key, value):
    mod = P.module(CP)
    t = I.module_global(mod, "ConfigParserOverrideTuple")
    return I.call(t, [Const(section), Const(key), NONE if value is None else Const(value)], {})


def parse(P, text, overrides=(), additional=()):
    """ConfigParser(fp, overrides, additional) evaluated abstractly on the configparser base model
    -> ('ok', {section: {key: value}}, defaults) | ('raise', exception)"""
    I = F.make_interp(P)
    M.install_rawconfigparser(I)
    cls = P.cls(CP, "ConfigParser")
    ov = ListV([_tuple(I, P, *o) for o in overrides], "list")
    ad = ListV([_tuple(I, P, *a) for a in additional], "list")
    try:
        cp = I.instantiate(cls, [PyObjV(M.TextFile(text))], {"overrides": ov, "additional": ad}, None)
    except RaiseSignal as e:
        return ("raise", e.exc)
    raw = I.getattr(cp, "raw_config_parser")
    state = {}
    for k, d in raw.attrs["_sections"].items.values():
        state[k.v] = dict((kk.v, vv.v) for kk, vv in d.items.values())
    defaults = dict((kk.v, vv.v) for kk, vv in raw.attrs["_defaults"].items.values())
    return ("ok", state, defaults, I, cp)


def _is(P, exc, clsname, mod=CP):
    want = P.cls(mod, clsname)
    return isinstance(exc, ExcV) and isinstance(exc.cls, ClassV) and exc.cls.ci.is_subclass_of(want)


BASE = "[Tabulation]\ntarget : GULP\n[Pair]\nA-B : v1\nC-D : v3\n[Potential-Form]\nf(r, A) : v2\ng(r) : v4\n[Solo]\nonly : x\n[Variables]\nq : 1\n"
SPELLINGS = {("Pair", "A-B"): ["A-B", "A - B", " A\t-B "], ("Potential-Form", "f(r,A)"): ["f(r,A)", "f(r, A)", "f( r ,\tA )"]}


def override_loop(chk, P):
    cls = P.cls(CP, "ConfigParser")
    site = cls.site_of("_init_config_parser")
    cfgx = ("atsim.potentials.config._common", "ConfigurationException")
    base = parse(P, BASE)
    if base[0] != "ok":
        raise AnalysisError("base file did not parse on the model: %r" % (base,))
    # overrides and removals, every spelling of an existing key
    for (sec, norm), spellings in SPELLINGS.items():
        for sp in spellings:
            out = parse(P, BASE, overrides=[(sec, sp, "NEW")])
            want = dict(base[1][sec])
            want[norm] = "NEW"
            ok = out[0] == "ok" and list(out[1][sec].items()) == list(want.items()) and list(out[1]) == list(base[1])
            chk.ob("C14.O1", "override of %s:%r replaces the value of the item in place (hand edit of %r: same position in its section)" % (sec, sp, norm), ok, site=site,
                   found=out[1].get(sec) if out[0] == "ok" else out[1], expect=want, key="C14.O1|override|%s|%r" % (norm, sp))
            out = parse(P, BASE, overrides=[(sec, sp, None)])
            want = dict(base[1][sec])
            del want[norm]
            ok = out[0] == "ok" and list(out[1][sec].items()) == list(want.items())
            chk.ob("C14.O1", "removal of %s:%r deletes exactly that item (the others keep their order)" % (sec, sp), ok, site=site,
                   found=out[1].get(sec) if out[0] == "ok" else out[1], expect=want, key="C14.O1|remove|%s|%r" % (norm, sp))
            out = parse(P, BASE, additional=[(sec, sp, "DUP")])
            ok = out[0] == "raise" and _is(P, out[1], "ConfigOverrideDuplicateException") and _is(P, out[1], cfgx[1], cfgx[0])
            chk.ob("C14.O1", "addition of %s:%r, which exists as %r, is rejected" % (sec, sp, norm), ok, site=site,
                   found=out[1] if out[0] == "raise" else out[1].get(sec), expect="ConfigOverrideDuplicateException",
                   key="C14.O1|add-existing|%s|%r" % (norm, sp))
    out = parse(P, BASE, overrides=[("Solo", "only", None)])
    ok = out[0] == "ok" and "Solo" not in out[1] and out[1]["Pair"] == base[1]["Pair"]
    chk.ob("C14.O1", "removing the last item of a section drops the section", ok, site=site, found=sorted(out[1]) if out[0] == "ok" else out[1],
           expect="no [Solo]", key="C14.O1|remove-last")
    for sec, key in (("Pair", "X-Y"), ("Nope", "k")):
        for val in ("v", None):
            out = parse(P, BASE, overrides=[(sec, key, val)])
            ok = out[0] == "raise" and _is(P, out[1], "ConfigOverrideException") and _is(P, out[1], cfgx[1], cfgx[0])
            chk.ob("C14.O1", "%s of the missing item %s:%s is a configuration error" % ("override" if val else "removal", sec, key), ok, site=site,
                   found=out[1], expect="ConfigOverrideException", key="C14.O1|missing|%s|%s" % (sec, "override" if val else "remove"))
    out = parse(P, BASE, additional=[("Pair", "X - Y", "a1")])
    ok = out[0] == "ok" and list(out[1]["Pair"].items()) == list(base[1]["Pair"].items()) + [("X-Y", "a1")]
    chk.ob("C14.O1", "addition of a new item to an existing section (appended after the existing items)", ok, site=site, found=out[1].get("Pair") if out[0] == "ok" else out[1],
           expect="Pair:X-Y = a1", key="C14.O1|add-new")
    out = parse(P, BASE, additional=[("EAM-Embed", "A", "as.zero")])
    ok = out[0] == "ok" and out[1].get("EAM-Embed") == {"A": "as.zero"}
    chk.ob("C14.O1", "addition to a section that does not exist creates it", ok, site=site, found=out[1] if out[0] != "ok" else out[1].get("EAM-Embed"),
           expect="[EAM-Embed] A = as.zero", key="C14.O1|add-section")
    out = parse(P, BASE, additional=[("Variables", "z", "2")])
    ok = out[0] == "ok" and out[2].get("z") == "2" and out[2].get("q") == "1" and "Variables" not in out[1]
    chk.ob("C14.O1", "addition to [Variables] sets the variable (the default section cannot be created)", ok, site=site,
           found=out[2] if out[0] == "ok" else out[1], expect="q, z", key="C14.O1|add|variables")
    out = parse(P, BASE, overrides=[("Variables", "q", "5")])
    ok = out[0] == "ok" and out[2].get("q") == "5"
    chk.ob("C14.O1", "override of a [Variables] item", ok, site=site, found=out[2] if out[0] == "ok" else out[1], expect="q = 5",
           key="C14.O1|override|variables")
    out = parse(P, BASE, overrides=[("Pair", "A-B", "o1"), ("Tabulation", "target", "LAMMPS")], additional=[("Pair", "E-F", "a")])
    ok = out[0] == "ok" and out[1]["Pair"].get("A-B") == "o1" and out[1]["Tabulation"]["target"] == "LAMMPS" and out[1]["Pair"].get("E-F") == "a"
    chk.ob("C14.O1", "several overrides and an addition are all applied", ok, site=site, found=out[1] if out[0] == "ok" else out[1],
           expect="all three edits", key="C14.O1|several")
    out = parse(P, BASE, overrides=[("Pair", "A-B", None)], additional=[("Pair", "A - B", "again")])
    ok = out[0] == "ok" and out[1]["Pair"].get("A-B") == "again"
    chk.ob("C14.O1", "an item removed by an override can be added again (additions are applied after overrides)", ok, site=site,
           found=out[1].get("Pair") if out[0] == "ok" else out[1], expect="Pair:A-B = again", key="C14.O1|remove-then-add")


def sequences(chk, P):
    """several edits of one item in one run behave like the same edits made to the file one after the other"""
    cls = P.cls(CP, "ConfigParser")
    site = cls.site_of("_init_config_parser")
    cfgx = ("atsim.potentials.config._common", "ConfigurationException")
    base = parse(P, BASE)

    def state(out):
        return list(out[1]["Pair"].items()) if out[0] == "ok" else out[1]
    pair0 = list(base[1]["Pair"].items())
    for a, b in (("A-B", "A-B"), ("A-B", "A - B")):
        tag = "same spelling" if a == b else "two spellings"
        out = parse(P, BASE, overrides=[("Pair", a, None), ("Pair", b, "NEW")])
        ok = out[0] == "raise" and _is(P, out[1], "ConfigOverrideException") and _is(P, out[1], cfgx[1], cfgx[0])
        chk.ob("C14.O1", "remove Pair:%s then override Pair:%s (%s): the item no longer exists, the override is rejected" % (a, b, tag), ok,
               site=site, found=state(out), expect="ConfigOverrideException", key="C14.O1|seq|remove-override|%s" % tag)
        out = parse(P, BASE, overrides=[("Pair", a, None), ("Pair", b, None)])
        ok = out[0] == "raise" and _is(P, out[1], "ConfigOverrideException")
        chk.ob("C14.O1", "remove Pair:%s twice (%s): the second removal is rejected" % (a, tag), ok, site=site, found=state(out),
               expect="ConfigOverrideException", key="C14.O1|seq|remove-remove|%s" % tag)
        out = parse(P, BASE, overrides=[("Pair", a, "N1"), ("Pair", b, "N2")])
        ok = out[0] == "ok" and state(out) == [(k, "N2" if k == "A-B" else v) for k, v in pair0]
        chk.ob("C14.O1", "override Pair:%s twice (%s): the later value stands, in place" % (a, tag), ok, site=site, found=state(out),
               expect="A-B = N2", key="C14.O1|seq|override-override|%s" % tag)
        out = parse(P, BASE, overrides=[("Pair", a, "N1"), ("Pair", b, None)])
        ok = out[0] == "ok" and state(out) == [(k, v) for k, v in pair0 if k != "A-B"]
        chk.ob("C14.O1", "override then remove Pair:%s (%s): the item is gone" % (a, tag), ok, site=site, found=state(out),
               expect="no A-B", key="C14.O1|seq|override-remove|%s" % tag)
        out = parse(P, BASE, additional=[("Pair", "X-Y" if a == b else "X - Y", "a1"), ("Pair", "X-Y", "a2")])
        ok = out[0] == "raise" and _is(P, out[1], "ConfigOverrideDuplicateException")
        chk.ob("C14.O1", "the same new item added twice (%s) is rejected like any addition of an existing item" % tag, ok, site=site,
               found=state(out), expect="ConfigOverrideDuplicateException", key="C14.O1|seq|add-add|%s" % tag)


def normaliser(chk, P, rule):
    """the parser's optionxform(k) and the key its section dictionary hands to the underlying mapping, as symbolic chains of
    string operations; parser class and dictionary class are taken from a ConfigParser built on an empty file"""
    I = F.make_interp(P)
    M.install_rawconfigparser(I)
    cp = I.instantiate(P.cls(CP, "ConfigParser"), [PyObjV(M.TextFile("[Tabulation]\ntarget : GULP\n"))], {}, None)
    raw = I.getattr(cp, "raw_config_parser")
    dcls = raw.attrs.get("_dict") if isinstance(raw, InstV) else None
    if not isinstance(dcls, ClassV):
        raise AnalysisError("the raw parser of ConfigParser was not created with a dict_type of the package")
    dct = InstV(dcls.ci)
    k = Opaque(("param", "key"))
    kstr = StrV(SFmt("s", k))
    a = W.run_method(I, raw, "optionxform", [kstr])
    b = a
    site = raw.ci.site_of("optionxform")
    # the chain removes blanks and tabs everywhere (strip + replace ' ' + replace '\\t')
    txt = repr(a)
    ok = "strip" in txt and "replace" in txt and "' '" in txt and "'\\\\t'" in txt or ("strip" in txt and txt.count("replace") >= 2)
    chk.ob(rule, "the transform strips the ends and removes embedded blanks and tabs", ok, site=site, found=a,
           expect="strip(), replace(' ', ''), replace('\\t', '')", key=rule + "|removes-whitespace")
    # dictionary accessors normalise
    calls = []

    def base(name):
        def f(I_, inst, args, kwargs):
            calls.append((name, args[0]))
            return NONE
        return f
    for nm in ("__setitem__", "__getitem__", "__delitem__", "__contains__", "get"):
        I.ext_methods[("OrderedDict", nm)] = base(nm)
        I.ext_methods[("dict", nm)] = base(nm)
    for nm, args in (("__setitem__", [kstr, Const("v")]), ("__getitem__", [kstr]), ("__delitem__", [kstr])):
        calls[:] = []
        fi = dct.ci.lookup(nm)
        if fi is None:
            chk.ob(rule, "dictionary %s normalises its key" % nm, False, site=dct.ci.module.relpath, found="not overridden", expect="override",
                   key=rule + "|dict|" + nm)
            continue
        W.run_method(I, dct, nm, args)
        ok = len(calls) == 1 and calls[0][0] == nm and calls[0][1].key() == b.key()
        chk.ob(rule, "dictionary %s hands optionxform(key) - the same chain of string operations - to the underlying mapping" % nm, ok,
               site=fi.site(), found=calls, expect=b,
               key=rule + "|dict|" + nm)


def delimiter_patterns():
    """argument strings by their pattern of ':' and '=' (up to three delimiters)"""
    out = []
    segs = ["s0", "k1", "v2", "w3"]
    for n in range(0, 4):
        for delims in itertools.product(":=", repeat=n):
            s = segs[0]
            for i, d in enumerate(delims):
                s += d + segs[i + 1]
            out.append(s)
    return out


def split_oracle(s, has_value):
    """first '=' separates the value; the last ':' of what precedes separates section and key"""
    value = None
    left = s
    if has_value:
        if "=" not in s:
            return "error"
        left, value = s.split("=", 1)
    if ":" not in left:
        return "error"
    section, key = left.rsplit(":", 1)
    return (section, key, value)


def _lol(*groups):
    return ListV([ListV([Const(x) for x in g], "list") for g in groups], "list")


def _tup(t):
    return (t.values[0].v, t.values[1].v, t.values[2].v)


def potable_items(P, watch=None, **given):
    """run the registered console entry point with the given item options; returns (run, overrides, additional, file) as the
    ConfigParser constructor receives them"""
    got = {}

    def cp_init(i, fv, a, k, n):
        got["overrides"] = k.get("overrides", a[1] if len(a) > 1 else None)
        got["additional"] = k.get("additional", a[2] if len(a) > 2 else None)
        got["file"] = a[0] if a else k.get("fp")
        return NONE
    opts = {"config_file": W.param("config_file"), "out_filename": Const("out")}
    opts.update(given)
    r = W.run_potable(P, opts, hooks={CP + ":ConfigParser.__init__": cp_init,
                                      "atsim.potentials.tools.potable._actions:action_tabulate": lambda i, fv, a, k, n: NONE}, watch=watch)
    ov = [_tup(t) for t in got["overrides"].items] if isinstance(got.get("overrides"), ListV) else None
    ad = [_tup(t) for t in got["additional"].items] if isinstance(got.get("additional"), ListV) else None
    return r, ov, ad, got.get("file")


_PATTERN_ONLY = {"split", "rsplit", "partition", "rpartition", "find", "rfind", "index", "rindex", "count", "format"}


def cli(chk, P):
    entry = W.console_entry(P)
    receivers = []
    for opt, has_value, role in (("override_item", True, "override"), ("remove_item", False, "override"), ("add_item", True, "additional")):
        bad = []
        n = 0
        for s in delimiter_patterns():
            r, ov, ad, _ = potable_items(P, watch=Const(s), **{opt: _lol([s])})
            for f in r.receivers:
                if f not in receivers:
                    receivers.append(f)
            if r.raised is not None:
                got = "internal %r" % (r.raised,)
            elif r.parser.errors:
                got = "error" if "configuration error" in repr(r.parser.errors[0]) else "parser.error(%r)" % (r.parser.errors[0],)
            else:
                lst = ov if role == "override" else ad
                other = ad if role == "override" else ov
                got = lst[0] if lst is not None and len(lst) == 1 and other == [] else "tables %r / %r" % (ov, ad)
            want = split_oracle(s, has_value)
            n += 1
            if got != want:
                bad.append("%r -> %r (expected %r)" % (s, got, want))
        chk.ob("C14.O3", "potable --%s ITEM: all %d delimiter patterns split at the first '=' and the last ':' before it and reach the "
                         "parser as %s; malformed ones end in a configuration error" % (opt.replace("_", "-"), n, role), not bad,
               site=entry.site(), found="; ".join(bad[:4]) if bad else None, expect="(section, key, value) / configuration error",
               key="C14.O3|split|%s" % opt)
    # tables
    r, ov, ad, fil = potable_items(P, override_item=_lol(["Pair:A-B=v1", "Pair:C-D=v2"], ["Pair:A-B=v3"]),
                                   add_item=_lol(["Pair:X-Y=a1"], ["Pair:Z-Z=a2"]), remove_item=_lol(["Pair:C-D"], ["Tabulation:nr"]))
    site = entry.site()
    if r.raised is not None or r.parser.errors:
        ov = ad = None
    chk.ob("C14.O3", "a later --override-item of the same SECTION:KEY replaces the earlier one", ov is not None and ("Pair", "A-B", "v3") in ov
           and ("Pair", "A-B", "v1") not in ov, site=site, found=ov if ov is not None else (r.raised, r.parser.errors), expect="Pair:A-B=v3 only", key="C14.O3|later-wins")
    chk.ob("C14.O3", "--remove-item goes through the same table with value None (a removal after an override of the same item wins)",
           ov is not None and ("Pair", "C-D", None) in ov and ("Pair", "C-D", "v2") not in ov and ("Tabulation", "nr", None) in ov, site=site,
           found=ov, expect="Pair:C-D -> None, Tabulation:nr -> None", key="C14.O3|removals")
    chk.ob("C14.O3", "each (section, key) appears once in the override table", ov is not None and len(set(o[:2] for o in ov)) == len(ov), site=site,
           found=ov, expect="unique keys", key="C14.O3|unique")
    chk.ob("C14.O3", "--add-item entries are passed on in the given order", ad == [("Pair", "X-Y", "a1"), ("Pair", "Z-Z", "a2")], site=site, found=ad,
           expect="X-Y then Z-Z", key="C14.O3|additions")
    r, ov2, ad2, fil = potable_items(P, override_item=_lol(["Pair:A-B=ov"]), add_item=_lol(["Pair:X-Y=ad"]), remove_item=_lol(["Pair:C-D"]))
    okw = ov2 is not None and sorted(ov2, key=repr) == [("Pair", "A-B", "ov"), ("Pair", "C-D", None)] and ad2 == [("Pair", "X-Y", "ad")] \
        and fil is not None and fil.key() == W.param("config_file").key()
    chk.ob("C14.O3", "potable -e Pair:A-B=ov -a Pair:X-Y=ad -r Pair:C-D: override, addition and removal reach ConfigParser in those roles, "
                     "with the given model file", okw and r.raised is None, site=site, found=(ov2, ad2) if r.raised is None else "raises %r" % (r.raised,),
           expect="overrides [A-B=ov, C-D removed], additional [X-Y=ad]", key="C14.O3|entry-point-wiring")
    # premise of the enumeration over delimiter patterns: the functions that receive an item string look at it only through
    # operations whose outcome is fixed by the pattern of ':' and '=' (membership tests, (r)split / partition / find on those)
    if not receivers:
        raise AnalysisError("no function of the package receives the item string of --override-item")
    for fi in receivers:
        used = set()
        for node in ast.walk(fi.node):
            if isinstance(node, ast.Call) and isinstance(node.func, ast.Attribute) and isinstance(node.func.value, ast.Name):
                used.add(node.func.attr)
        if not used <= _PATTERN_ONLY:
            raise AnalysisError("premise of C14.O3 not established: %s applies %s to an item string" % (fi.fq, sorted(used - _PATTERN_ONLY)))
    chk.ob("C14.O3", "premise: %s inspect(s) an item string only through ':' / '=' tests and splitting" % ", ".join(f.name for f in receivers),
           True, site=receivers[0].site(), key="C14.O3|premise")


def _potable_query(P, text, **given):
    """the console entry point on a model file with the given text and a query option -> (run, printed text or None)"""
    def make(P_):
        I = F.make_interp(P_)
        M.install_rawconfigparser(I)
        return I
    opts = {"config_file": PyObjV(M.TextFile(text))}
    opts.update(given)
    r = W.run_potable(P, opts, make=make)
    out = W.out_tree(r.interp.stdout())
    return r, (out.text if isinstance(out, SLit) else None), out


def listing(chk, P):
    sections = {
        "Tabulation": {"target": "GULP", "nr": "5"},
        "Pair": {"A-B": "as.zero"},
        "Potential-Form": {"f(r)": "r"},
        "EAM-Embed": {"A": "as.zero"},
        "EAM-Density": {"A->B": "as.zero"},
        "Table-Form:t": {"x": "1 2", "y": "1 2"},
        "Table-Form: u": {"xy": "1 2"},
        "Table-Form : w": {"xw": "1 2"},     # whatever the parser makes of this header, its item is an item of the file
        "Species": {"A.atomic_mass": "1"},
        "EAM-ADP-Dipole": {"A-B": "as.zero"},
        "Something-Else": {"k": "v"},
    }
    defaults = {"q": "1.0"}
    text = "".join("[%s]\n%s" % (sec, "".join("%s : %s\n" % kv for kv in opts.items())) for sec, opts in sections.items())
    text += "[Variables]\n" + "".join("%s : %s\n" % kv for kv in defaults.items())
    entry = W.console_entry(P)
    site = entry.site()
    r, printed, out = _potable_query(P, text, list_items=TRUE)
    normal = r.raised is None and not r.parser.errors and isinstance(r.exit, Num) and r.exit.const() == 0
    chk.ob("C14.O4", "potable --list-items MODEL ends normally (exit status 0, no error reported)", normal, site=site,
           found=(r.raised, r.parser.errors, r.exit), expect="exit 0", key="C14.O4|list-items-exit")
    if printed is None:
        if not normal:
            return
        raise AnalysisError("potable --list-items on the all-sections model did not print a concrete listing: %r" % (out,))
    lines = printed.split("\n")
    chk.ob("C14.O4", "--list-items prints 'SECTION:KEY=VALUE' lines, one per item, each ended by a newline",
           lines[-1] == "" and all("=" in ln for ln in lines[:-1]), site=site, found=printed[:200], expect="LABEL=VALUE lines",
           key="C14.O4|printed-format")
    listed = {}
    for ln in lines[:-1]:
        k, _, v = ln.partition("=")
        listed.setdefault(k, []).append(v)
    allsecs = dict(sections)
    allsecs["Variables"] = defaults
    for sec, opts in allsecs.items():
        for key, val in opts.items():
            label = "%s:%s" % (sec, key)
            got = listed.get(label, [])
            chk.ob("C14.O4", "item %s is listed exactly once with its value" % label, got == [val], site=site, found=got, expect=[val],
                   key="C14.O4|listed|%s" % sec)
    extra = [k for k in listed if k not in ["%s:%s" % (s_, key) for s_, o in allsecs.items() for key in o]]
    chk.ob("C14.O4", "nothing is listed that is not an item of the file", not extra, site=site, found=extra or None, expect="no extra items",
           key="C14.O4|no-extra")
    # --list-item-labels: the same items, labels only
    r, printed2, out2 = _potable_query(P, text, list_item_labels=TRUE)
    normal2 = r.raised is None and not r.parser.errors and isinstance(r.exit, Num) and r.exit.const() == 0
    want_labels = "".join(ln.partition("=")[0] + "\n" for ln in lines[:-1])
    chk.ob("C14.O4", "--list-item-labels prints the label of every listed item, one per line, and ends normally", normal2 and printed2 == want_labels,
           site=site, found=(printed2 if printed2 is not None else out2, r.raised, r.parser.errors, r.exit), expect=want_labels[:120],
           key="C14.O4|list-item-labels")
    # --item-value
    for label, want in (("Pair:A-B", "as.zero"), ("Table-Form:t:x", "1 2"), ("Variables:q", "1.0")):
        r, printed, out = _potable_query(P, text, item_value=ListV([Const(label)], "list"))
        got = printed if (r.raised is None and not r.parser.errors) else "fails: %r %r" % (r.raised, r.parser.errors)
        chk.ob("C14.O4", "--item-value %s prints %r" % (label, want), got == want + "\n", site=site, found=got if got is not None else out,
               expect=want, key="C14.O4|item-value|%s" % label)
    for label in ("Pair:nope", "Nope:k", "nocolon"):
        r, printed, out = _potable_query(P, text, item_value=ListV([Const(label)], "list"))
        ok = r.raised is None and len(r.parser.errors) == 1 and "configuration error" in repr(r.parser.errors[0])
        chk.ob("C14.O4", "--item-value %s (no such item) ends in a configuration error" % label, ok, site=site,
               found=(r.raised, r.parser.errors, printed), expect="configuration error", key="C14.O4|item-value-missing|%s" % label)

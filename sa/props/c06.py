"""C06 - built-in forms evaluate their documented formula and argument order (DESIGN.md section 4, C06)."""
from .. import ep
from ..model import AnalysisError, REPO
from ..values import *     # noqa
from ..symeval import RaiseSignal
from ..symeval_ops import ExcV, NTV, NTClassV
from .. import formrules as F
from .. import writerules as W

EXPLANATION = (
    "Each built-in form's __call__ is translated to an exact exp-polynomial normal form over its symbolic parameters and "
    "proved equal (as terms, tolerance 1e-9 on machine-generated constants) to the manual's formula transcribed in "
    "sa/specs/forms.py and to the class's own _as_sympy sibling; the positional parameter order is compared with the "
    "':potable signature:' lines parsed from docs/reference/potential_forms.rst. The three other access routes "
    "(potentialforms factories, the 'as.' registry wrappers, calls from custom formulas) are evaluated abstractly through "
    "the real wrapper code and must produce the same normal form.")


def run(chk):
    P = F.load_program()
    chk.explanation = EXPLANATION
    chk.info.update(P.stats())
    chk.rule("C06.O1", "__call__ equals the manual's formula for all r and parameters (normal-form identity)", 12)
    chk.rule("C06.O2", "__call__ equals the class's own _as_sympy expression", 11)
    chk.rule("C06.O3", "positional parameters follow the manual's signature; deriv/deriv2 take the same list", 13)
    chk.rule("C06.O4", "factory route potentialforms.X(params)(r) gives the same value", 13)
    chk.rule("C06.O5", "registry route 'as.X' (Potential_Form / _Python_Potential_Function) binds arguments in order and checks arity", 40)
    chk.rule("C06.O6", "polynomial of order 0..8: sum of c_i r^i with c_0 first", 9)
    sigs = F.manual_signatures(P.repo)
    I = F.make_interp(P)
    r = Num(ep.sym("r"))
    normal = {}
    nterms = 0
    ref_forms, extra_forms = F.all_forms(I, P)
    chk.info["forms_with_reference_formula"] = ref_forms
    chk.info["further_registered_forms (no reference formula in sa/specs/forms.py: C06.O1 not decided for them)"] = extra_forms
    for name in ref_forms + extra_forms:
        def one(name=name):
            inst = F.form_instance(I, P, name)
            site = inst.ci.site_of("__call__")
            params = F.call_params(inst)
            if isinstance(params, tuple):
                return polynomial(chk, P, I, inst)
            args = F.sym_args(params)
            v = I.num(I.call(inst, args, {}))
            normal[name] = (inst, params, v)
            # O3
            if name not in sigs:
                if name in ref_forms:
                    chk.ob("C06.O3", "%s has a ':potable signature:' entry in the manual" % name, False, site=site, found=sorted(sigs),
                           expect=name, key="C06.O3|%s|manual-entry" % name)
            else:
                want = F.manual_params(name, sigs[name])
                chk.ob("C06.O3", "%s: parameters after r are %s" % (name, want), params[1:] == want, site=site, found=params[1:],
                       expect=want, key="C06.O3|%s|order" % name)
            for d in ("deriv", "deriv2"):
                dp = F.call_params(inst, d)
                if dp is not None and dp != params:
                    chk.ob("C06.O3", "%s.%s takes the same parameter list as __call__" % (name, d), False,
                           site=inst.ci.lookup(d).site(), found=dp, expect=params, key="C06.O3|%s|%s-params" % (name, d))
            # O1 documented formula
            specname = "sqrt_" if name == "sqrt" else name
            if name != "zbl" and name in ref_forms:
                sf = P.func("spec.forms", specname)
                sp = sf.params()
                if sorted(sp) != sorted(params):
                    chk.ob("C06.O1", "%s: documented formula uses the parameters %s" % (name, sp), False, site=site, found=params,
                           expect=sp, key="C06.O1|%s|params" % name)
                else:
                    doc = I.num(I.run(sf, [Num(ep.sym(p)) for p in sp]))
                    ok, why = ep.equal(v, doc)
                    chk.ob("C06.O1", "%s(r, ...) = manual formula (%d terms)" % (name, ep.nterms(doc)), ok, site=site,
                           found=why or v, expect=doc, key="C06.O1|%s|formula" % name)
            # O2 sibling
            if inst.ci.lookup("_as_sympy") is not None:
                s = I.num(I.call(I.getattr(inst, "_as_sympy"), [], {}))
                if name == "zbl":
                    s = ep.substitute(s, F.zbl_consts(I, inst))
                ok, why = ep.equal(v, s)
                chk.ob("C06.O2", "%s: __call__ = _as_sympy" % name, ok, site=site, found=why or v, expect=s, key="C06.O2|%s|sibling" % name)
            return ep.nterms(v)
        n = chk.attempt(name, one)
        nterms += n or 0
    chk.info["normal_form_terms"] = nterms
    chk.attempt("O4", lambda: factory_route(chk, P, normal, ref_forms, extra_forms))
    chk.attempt("O5", lambda: registry_route(chk, P, normal, ref_forms, extra_forms))
    chk.attempt("O5d", lambda: several_declarations(chk, P, normal))
    chk.assume("floating-point evaluation error and overflow of the formulas are not decided (exact real arithmetic)")
    chk.assume("math.exp/log/sqrt denote the real functions")
    chk.assume("ZBL is compared with its _as_sympy sibling only: the manual's entry is schematic (see sa/specs/forms.py)")


def polynomial(chk, P, I, inst):
    site = inst.ci.site_of("__call__")
    r = ep.sym("r")
    total = 0
    for order in range(0, 17 if chk.tier == "thorough" else 9):
        cs = [ep.sym("c%d" % i) for i in range(order + 1)]
        v = I.num(I.call(inst, [Num(r)] + [Num(c) for c in cs], {}))
        want = ep.const(0)
        for i, c in enumerate(cs):
            want = want + c * ep.pow_(r, ep.const(i))
        ok, why = ep.equal(v, want)
        chk.ob("C06.O6", "polynomial order %d = c0 + c1 r + ... (coefficients in ascending order)" % order, ok, site=site,
               found=why or v, expect=want, key="C06.O6|polynomial|order%d" % order)
        total += ep.nterms(v)
    return total


def factory_route(chk, P, normal, ref_forms, extra_forms):
    I = F.make_interp(P)
    m = P.module(F.PFORMS)
    n = 0
    for name in ref_forms + extra_forms:
        fac = I.module_global(m, name)
        site = "%s %s" % (m.relpath, name)
        if fac is None and name in extra_forms:
            continue        # a further form need not have a python-API factory
        if not (isinstance(fac, InstV) and fac.ci.name == "_FunctionFactory"):
            chk.ob("C06.O4", "potentialforms.%s is a function factory" % name, False, site=site, found=fac, expect="_FunctionFactory",
                   key="C06.O4|%s|factory" % name)
            continue
        if name == "polynomial":
            params = ["c0", "c1", "c2"]
            want = ep.sym("c0") + ep.sym("c1") * ep.sym("r") + ep.sym("c2") * ep.sym("r") ** 2
        elif name in normal:
            params = normal[name][1][1:]
            want = normal[name][2]
        else:
            continue
        f = I.call(fac, F.sym_args(params), {})
        v = I.num(I.call(f, [Num(ep.sym("r"))], {}))
        ok, why = ep.equal(v, want)
        chk.ob("C06.O4", "potentialforms.%s(%s)(r) = potentialfunctions.%s(r, %s)" % (name, ", ".join(params), name, ", ".join(params)),
               ok, site=site, found=why or v, expect=want, key="C06.O4|%s|value" % name)


def _form_tuple_hook(P):
    """make_potential_form_tuple_from_function uses inspect.signature; reproduce it from the source's own parameter lists"""
    def hook(i, fv, a, k, n):
        name, pyfunc = a[0], a[1]
        if isinstance(pyfunc, InstV):
            fi = pyfunc.ci.lookup("__call__")
            params = [x.arg for x in fi.node.args.args][1:]
            var = fi.node.args.vararg is not None
        elif isinstance(pyfunc, FuncV):
            params = [x.arg for x in pyfunc.fi.node.args.args]
            if pyfunc.selfv is not None:
                params = params[1:]
            var = pyfunc.fi.node.args.vararg is not None
        else:
            raise AnalysisError("cannot derive a signature for %r" % (pyfunc,))
        mod = P.module("atsim.potentials.config._common")
        pft = i.module_global(mod, "PotentialFormTuple")
        sig = i.module_global(mod, "PotentialFormSignatureTuple")
        only_var = var and not params
        s = i.call(sig, [name, ListV([Const(p) for p in ([] if only_var else params)], "list"), Const(bool(only_var))], {})
        return i.call(pft, [], {"signature": s, "expression": Const("")})
    return hook


def several_declarations(chk, P, normal):
    """one form object used for several declarations ('as.buck 1000 0.3 -1' ... 'as.buck 1000 0.3 -2'): each declaration gets
    the callable of its own parameters, in whatever order and however often they are asked for"""
    I = F.make_interp(P)
    I.hooks["atsim.potentials.config._common:make_potential_form_tuple_from_function"] = _form_tuple_hook(P)
    mod = P.module("atsim.potentials.config._common")
    ppf = P.cls("atsim.potentials.config._python_potential_function", "_Python_Potential_Function")
    pform = P.cls("atsim.potentials.config._potential_form", "Potential_Form")
    mk = I.module_global(mod, "make_potential_form_tuple_from_function")
    site = pform.site_of("__call__")
    if "buck" in normal:
        inst, params, want = normal["buck"]
        d = I.call(mk, [Const("as.buck"), inst], {})
        pf = I.instantiate(pform, [I.instantiate(ppf, [d, inst], {}, None)], {}, None)
        vectors = [(1000, 0.3, -1), (1000, 0.3, -2), (1000, 0.3, 32), (1000.0, 0.3, 32), (0, 1, 2305843009213693951), (0, 1, 0),
                   (1000, 0.3, -1)]
        bad = []
        rsym = ep.sym("r")
        for vec in vectors:
            f = I.call(pf, [Num(ep.const(ep.frac(repr(x)))) for x in vec], {})
            v = I.num(I.call(f, [Num(rsym)], {}))
            w = ep.substitute(want, dict((p_, ep.const(ep.frac(repr(x)))) for p_, x in zip(params[1:], vec)))
            if not ep.equal(v, w)[0]:
                bad.append("as.buck %s -> %r" % (" ".join(repr(x) for x in vec), v))
        chk.ob("C06.O5", "one 'as.buck' form asked for %d parameter vectors in turn (some differing in one value only, one repeated): "
                         "each callable is the form at its own parameters" % len(vectors), not bad, site=site, found=bad[:3] or None,
               expect="buck(r; A, rho, C) of each vector", key="C06.O5|buck|several-declarations")


def registry_route(chk, P, normal, ref_forms, extra_forms):
    I = F.make_interp(P)
    I.hooks["atsim.potentials.config._common:make_potential_form_tuple_from_function"] = _form_tuple_hook(P)
    mod = P.module("atsim.potentials.config._common")
    ppf = P.cls("atsim.potentials.config._python_potential_function", "_Python_Potential_Function")
    pform = P.cls("atsim.potentials.config._potential_form", "Potential_Form")
    pfe = P.cls("atsim.potentials.config._common", "Potential_Form_Exception")
    mk = I.module_global(mod, "make_potential_form_tuple_from_function")
    site = pform.site_of("__call__")
    for name in ref_forms + extra_forms:
        if name not in normal:
            continue
        inst, params, want = normal[name]
        label = Const("as." + name)
        d = I.call(mk, [label, inst], {})
        func = I.instantiate(ppf, [d, inst], {}, None)
        # function use: as.NAME(r, params...) inside a custom formula
        v = I.num(I.call(func, F.sym_args(params), {}))
        ok, why = ep.equal(v, want)
        chk.ob("C06.O5", "as.%s(r, %s) called from a formula evaluates the same function" % (name, ", ".join(params[1:])), ok,
               site=ppf.site_of("__call__"), found=why or v, expect=want, key="C06.O5|%s|function-use" % name)
        # form use: 'as.NAME params...' -> callable of r
        pf = I.instantiate(pform, [func], {}, None)
        f = I.call(pf, F.sym_args(params[1:]), {})
        v = I.num(I.call(f, [Num(ep.sym("r"))], {}))
        ok, why = ep.equal(v, want)
        chk.ob("C06.O5", "'as.%s %s' gives r -> %s(r, ...)" % (name, " ".join(params[1:]), name), ok, site=site, found=why or v,
               expect=want, key="C06.O5|%s|form-use" % name)
    # the registry's own registration loop: names 'as.'+attribute name, each wrapping that attribute
    reg = P.cls("atsim.potentials.config._potential_form_registry", "Potential_Form_Registry")
    RJ, robj, keys = F.standard_registry(P)
    rsite = reg.site_of("__init__")
    want_keys = sorted("as." + n for n in ref_forms)
    missing = [k for k in want_keys if k not in keys]
    odd = [k for k in keys if not k.startswith("as.")]
    chk.ob("C06.O5", "every documented form is registered as 'as.'+name, and nothing is registered under another prefix",
           not missing and not odd, site=rsite, found=keys, expect=want_keys, key="C06.O5|registry|names")
    for name in ref_forms + extra_forms:
        if "as." + name not in keys or name not in normal:
            continue
        inst, params, want = normal[name]
        ent = RJ.getitem(robj, Const("as." + name))
        f = RJ.call(ent, F.sym_args(params[1:]), {})
        v = RJ.num(RJ.call(f, [Num(ep.sym("r"))], {}))
        ok, why = ep.equal(v, want)
        chk.ob("C06.O5", "registry entry 'as.%s' wraps potentialfunctions.%s" % (name, name), ok, site=rsite, found=why or v, expect=want,
               key="C06.O5|registry|%s" % name)
    # a form object is used for many entries of one model: the second use, with one parameter changed, gives what a fresh
    # registry gives for those parameters (every parameter position in turn)
    for lab in keys:
        if not lab.startswith("as."):
            continue
        HJ, hreg, _ = F.standard_registry(P)
        ent = HJ.getitem(hreg, Const(lab))
        sig = HJ.getattr(ent, "signature")
        names = [x.v for x in HJ.as_iterable(HJ.getattr(sig, "parameter_names")).items][1:]
        if HJ.truth(HJ.getattr(sig, "is_varargs")) is True:
            names = ["c0", "c1", "c2"]
        if not names:
            continue
        base = [Num(ep.sym(n)) for n in names]
        try:
            HJ.call(ent, list(base), {})                    # first use
        except RaiseSignal:
            continue
        bad = []
        for i, n in enumerate(names):
            args2 = list(base)
            args2[i] = Num(ep.sym(n + "_2"))
            HJ.assumption_fns.append(F.distinct((n, n + "_2")))
            try:
                again = F.value_key(HJ, HJ.call(ent, list(args2), {}))
            finally:
                HJ.assumption_fns.pop()
            FJ, freg, _ = F.standard_registry(P)
            fresh = F.value_key(FJ, FJ.call(FJ.getitem(freg, Const(lab)), list(args2), {}))
            if again != fresh:
                bad.append(n)
        chk.ob("C06.O5", "'%s' used a second time in one model with a parameter changed gives the function of the new parameters" % lab,
               not bad, site=site, found=("still the function of the first use after changing %s" % bad) if bad else None,
               expect="as a fresh registry", key="C06.O5|second-use|%s" % lab)
    # arity checks on one representative (buck: 3 parameters)
    inst, params, want = normal["buck"]
    d = I.call(mk, [Const("as.buck"), inst], {})
    func = I.instantiate(ppf, [d, inst], {}, None)
    pf = I.instantiate(pform, [func], {}, None)
    for n, use, target in ((2, "form", pf), (4, "form", pf), (3, "function", func), (5, "function", func)):
        try:
            I.call(target, [Num(ep.sym("x%d" % i)) for i in range(n)], {})
            out = "accepted"
        except RaiseSignal as e:
            out = e.exc
        ok = isinstance(out, ExcV) and isinstance(out.cls, ClassV) and out.cls.ci.is_subclass_of(pfe)
        chk.ob("C06.O5", "as.buck used as %s with %d arguments is rejected with Potential_Form_Exception" % (use, n), ok,
               site=P.cls("atsim.potentials.config._potential_form", "_Check_Call").site_of("__call__"), found=out,
               expect="Potential_Form_Exception", key="C06.O5|arity|%s-%d" % (use, n))

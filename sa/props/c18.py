"""C18 - tabulated input, TableReader, plot (DESIGN.md section 4, C18)."""
import itertools

from .. import ep
from ..model import AnalysisError
from ..values import *     # noqa
from ..strtree import *    # noqa
from ..symeval import RaiseSignal
from ..symeval_ops import ExcV, NTV, PyObjV
from .. import formrules as F
from .. import writerules as W

EXPLANATION = (
    "Table forms: the interpolant is constructed as scipy's interpolating spline with ext=1 (zero outside the data) and no "
    "smoothing/degree overrides, from (x_data, y_data) in that order; xy data are de-interleaved starting with x (evaluated "
    "abstractly on every parity pattern) and both input styles produce the same (x, y). TableReader.getValue touches x and "
    "the tabulated abscissae only through comparisons, so it is evaluated on every position of x relative to tables of 1..4 "
    "points (symbolic ordinates): 0 outside, the tabulated y on a knot, the linear interpolant between. DatReader is "
    "evaluated on every class of input line (data/comment/blank, with or without a final newline, space/tab separators, "
    "unsorted rows). plotToFile and its wrappers are compared as output trees with the reference writer.")


class FileModel(object):
    def __init__(self, text):
        self.text = text

    def iter_items(self, I):
        return [Const(l) for l in self.text.splitlines(True)]

    def m_read(self, I, args, kwargs):
        return Const(self.text)

    def m_readlines(self, I, args, kwargs):
        return ListV([Const(l) for l in self.text.splitlines(True)], "list")


def run(chk):
    P = F.load_program()
    chk.explanation = EXPLANATION
    chk.info.update(P.stats())
    chk.rule("C18.O1", "Cubic_Spline_Table_Form: interpolating spline of (x, y) with ext=1 and nothing else; value/derivatives from its own objects", 5)
    chk.rule("C18.O2", "xy pairs are de-interleaved starting with x; x/y and xy styles give the same data; malformed data raise", 8)
    chk.rule("C18.O3", "TableReader.getValue: 0 outside, tabulated y on a knot, linear interpolant between (all positions, tables of 1..4 points)", 4)
    chk.rule("C18.O4", "DatReader keeps every character of every data row (no dependence on a trailing newline); comments/blank lines skipped; rows sorted", 8)
    chk.rule("C18.O5", "plotToFile writes 'steps' rows x_i = lowx + i*(highx-lowx)/steps, y_i = f(x_i); wrappers forward their arguments", 12)
    chk.attempt("O1", lambda: table_form(chk, P))
    chk.rule("C18.O1d", "the offered derivatives are the interpolant's own first derivative and that derivative's first derivative", 5)
    from .c07 import tableform_derivs
    chk.attempt("O1d", lambda: tableform_derivs(chk, P, "C18.O1d"))
    # interpolation classes that are not wrappers of a library interpolant: knots reproduced, zero outside (evaluated on knots)
    chk.attempt("O1k", lambda: tableform_derivs(chk, P, "C18.O1", clauses=("points",)))
    chk.attempt("O2", lambda: xy_parsing(chk, P))
    chk.attempt("O3", lambda: get_value(chk, P))
    chk.attempt("O4", lambda: dat_reader(chk, P))
    chk.attempt("O5", lambda: plots(chk, P))
    chk.assume("scipy.interpolate.InterpolatedUnivariateSpline passes through its data and returns 0 outside with ext=1 (library contract)")
    chk.assume("bisect_left and re.split behave as documented (modelled on concrete values)")


def table_form(chk, P):
    I = F.make_interp(P)
    tf = P.cls("atsim.potentials.tableforms", "Cubic_Spline_Table_Form")
    inst = I.instantiate(tf, [W.param("x_data"), W.param("y_data")], {}, None)
    site = tf.site_of("__init__")
    it = I.getattr(inst, "interpolant")     # documented property: the scipy object used internally
    ok = isinstance(it, Opaque) and it.path[0] == "extcall" and it.path[1].endswith("InterpolatedUnivariateSpline")
    chk.ob("C18.O1", "the interpolant is scipy's InterpolatedUnivariateSpline", ok, site=site, found=it, expect="InterpolatedUnivariateSpline(...)",
           key="C18.O1|class")
    if ok:
        args, kw = it.path[2], dict(it.path[3])
        chk.ob("C18.O1", "positional arguments are (x_data, y_data)", args == (W.param("x_data").key(), W.param("y_data").key()), site=site,
               found=args, expect="(x_data, y_data)", key="C18.O1|args")
        chk.ob("C18.O1", "ext=1 (zero outside the data range) and no smoothing / degree / weight overrides",
               kw == {"ext": Num(ep.const(1)).key()}, site=site, found=kw, expect="{ext: 1}", key="C18.O1|ext")
    lab = tf.class_attrs.get("config_label")
    chk.ob("C18.O1", "its configuration label is the documented 'cubic_spline'", lab is not None and getattr(lab, "value", None) == "cubic_spline",
           site=site, found=getattr(lab, "value", None), expect="cubic_spline", key="C18.O1|label")
    x = Num(ep.sym("x"))
    v = I.call(inst, [x], {})
    chk.ob("C18.O1", "__call__(x) evaluates the interpolant at x", isinstance(it, Opaque) and isinstance(v, Num)
           and ep.equal(v.rf, ep.app(it.path, [ep.sym("x")]))[0], site=tf.site_of("__call__"), found=v, expect="interpolant(x)",
           key="C18.O1|call")


class SectionModel(object):
    def __init__(self, d):
        self.d = d

    def getitem(self, I, idx):
        return Const(self.d[idx.v])

    def m_get(self, I, args, kwargs):
        return Const(self.d[args[0].v]) if args[0].v in self.d else (args[1] if len(args) > 1 else NONE)

    def contains(self, I, item):
        return item.v in self.d


def xy_parsing(chk, P):
    CPm = "atsim.potentials.config._config_parser"
    cls = P.cls(CPm, "_TableFormSection")
    cpe = P.cls("atsim.potentials.config._common", "ConfigParserException")
    I = F.make_interp(P)
    inst = InstV(cls)
    site = cls.site_of("_parse_xy")

    def run_(meth, d):
        try:
            return W.run_method(I, inst, meth, [Const("Table-Form:t"), PyObjV(SectionModel(d))])
        except RaiseSignal as e:
            return e.exc

    def nums(v):
        return [float(x.const()) for x in v.items]
    for n in (2, 4, 6, 8):
        vals = list(range(1, n + 1))
        r = run_("_parse_xy", {"xy": " ".join(str(v) for v in vals)})
        ok = isinstance(r, ListV) and len(r.items) == 2 and nums(r.items[0]) == vals[0::2] and nums(r.items[1]) == vals[1::2]
        chk.ob("C18.O2", "xy with %d numbers: x takes positions 1,3,.. and y positions 2,4,.." % n, ok, site=site, found=r,
               expect=(vals[0::2], vals[1::2]), key="C18.O2|xy|%d" % n)
    r = run_("_parse_xy", {"xy": "0 1\n  2 3\n\t4   5"})
    ok = isinstance(r, ListV) and nums(r.items[0]) == [0, 2, 4] and nums(r.items[1]) == [1, 3, 5]
    chk.ob("C18.O2", "xy pairs on several lines with tabs/spaces parse the same", ok, site=site, found=r, expect="([0,2,4],[1,3,5])",
           key="C18.O2|xy|multiline")
    r2 = run_("_parse_x_y", {"x": "0 2 4", "y": "1 3 5"})
    ok = isinstance(r2, ListV) and isinstance(r, ListV) and r2.key() == r.key()
    chk.ob("C18.O2", "x/y lists and xy pairs give the same (x, y)", ok, site=cls.site_of("_parse_x_y"), found=r2, expect=r,
           key="C18.O2|same")
    for meth, d, what in (("_parse_xy", {"xy": "1 2 3"}, "odd number of xy items"), ("_parse_x_y", {"x": "1 2", "y": "1 2 3"}, "x and y of different length"),
                          ("_parse_xy", {"xy": "1 b"}, "non-numeric xy item"), ("_parse_x_y", {"x": "1 b", "y": "1 2"}, "non-numeric x item")):
        r = run_(meth, d)
        ok = isinstance(r, ExcV) and isinstance(r.cls, ClassV) and r.cls.ci.is_subclass_of(cpe)
        chk.ob("C18.O2", "%s is a configuration error" % what, ok, site=cls.lookup(meth).site(), found=r, expect="ConfigParserException",
               key="C18.O2|raise|%s" % what)
    # factory binding
    tfb = P.cls("atsim.potentials.config._table_form_builder", "Table_Form_Factory")
    seen = {}

    class Cls(object):
        pass
    mod = P.module("atsim.potentials.config._common")
    tt = I.module_global(mod, "TableFormTuple")
    tup = I.call(tt, [], {"name": Const("t"), "interpolation": Const("cubic_spline"), "x": W.param("XS"), "y": W.param("YS")})
    rec = P.cls("atsim.potentials.tableforms", "Cubic_Spline_Table_Form")
    fac = I.instantiate(tfb, [tup, ClassV(rec)], {}, None)
    obj = I.getattr(fac, "potential_function")
    it = I.getattr(obj, "interpolant") if isinstance(obj, InstV) else None
    ok = isinstance(it, Opaque) and it.path[2] == (W.param("XS").key(), W.param("YS").key())
    chk.ob("C18.O2", "Table_Form_Factory passes (tuple.x, tuple.y) as (x_data, y_data)", ok, site=tfb.site_of("__init__"), found=it,
           expect="(XS, YS)", key="C18.O2|factory")


def get_value(chk, P):
    mod = "atsim.potentials._tablereaders"
    cls = P.cls(mod, "TableReaderBase")
    site = cls.site_of("getValue")
    total = 0
    reader = P.cls("atsim.potentials", "TableReader")
    for n in (range(1, 8) if chk.tier == "thorough" else (1, 2, 3, 4)):
        I = F.make_interp(P)
        xs = [2 * i for i in range(n)]
        # the public reader on a data file whose ordinates are arbitrary numbers ('@name': analysis convention for a symbol)
        text = "".join("%d @y%d\n" % (x, i) for i, x in enumerate(xs))
        inst = I.instantiate(reader, [PyObjV(FileModel(text))], {}, None)
        bad = []
        queries = list(range(-1, 2 * n))
        # one reader object answers every query whatever was asked before: ascending, descending, and a shuffled repeat
        order = queries + queries[::-1] + queries[::2] + queries[1::2]
        for q in order:
            total += 1
            v = I.num(I.call(inst, [Num(ep.const(q))], {}))
            if q < xs[0] or q > xs[-1]:
                want = ep.const(0)
            elif q % 2 == 0:
                want = ep.sym("y%d" % (q // 2))
            else:
                i = q // 2
                lx, hx = xs[i], xs[i + 1]
                want = ep.sym("y%d" % i) + (ep.const(q) - lx) * (ep.sym("y%d" % (i + 1)) - ep.sym("y%d" % i)) / (hx - lx)
            if not ep.equal(v, want)[0]:
                bad.append("x=%s: got %r want %r" % (q, v, want))
        chk.ob("C18.O3", "table of %d point(s): every position of x (below, on each knot, between, above), asked in ascending, "
                         "descending and interleaved order on one reader" % n, not bad, site=site,
               found="; ".join(bad[:3]) if bad else None, expect="0 outside / y on a knot / linear interpolant", key="C18.O3|n=%d" % n)
    chk.states = total


def dat_reader(chk, P):
    mod = "atsim.potentials._tablereaders"
    cls = P.cls(mod, "DatReader")
    site = cls.site_of("_populate")
    cases = [
        ("last row without final newline", "0 1\n1 22\n2 33", [(0, 1), (1, 22), (2, 33)]),
        ("last row with final newline", "0 1\n1 22\n2 33\n", [(0, 1), (1, 22), (2, 33)]),
        ("comment and blank lines", "# head\n0 1\n\n   \n#x\n1 2\n", [(0, 1), (1, 2)]),
        ("tab and multiple-space separators, leading blanks", "  0\t1\n1    2\n", [(0, 1), (1, 2)]),
        ("unsorted rows are sorted", "2 3\n0 1\n1 2", [(0, 1), (1, 2), (2, 3)]),
        ("windows line ends", "0 1\r\n1 25\r\n", [(0, 1), (1, 25)]),
        ("single row, no newline", "5 77", [(5, 77)]),
        ("extra columns ignored", "0 1 9\n1 2 9\n", [(0, 1), (1, 2)]),
    ]
    for what, text, want in cases:
        I = F.make_interp(P)
        rd = I.instantiate(cls, [PyObjV(FileModel(text))], {}, None)
        items = I.hidden_list(rd).items
        got = [(float(t.items[0].const()), float(t.items[1].const())) for t in items]
        chk.ob("C18.O4", "DatReader: %s" % what, got == [(float(a), float(b)) for a, b in want], site=site, found=got, expect=want,
               key="C18.O4|%s" % what)
    # TableReader wraps DatReader and evaluates getValue
    I = F.make_interp(P)
    tr = I.instantiate(P.cls("atsim.potentials", "TableReader"), [PyObjV(FileModel("0 1\n2 5"))], {}, None)
    v = I.num(I.call(tr, [Num(ep.const(1))], {}))
    chk.ob("C18.O4", "TableReader(file)(x) is DatReader.getValue(x)", v.as_const() == 3, site=P.cls("atsim.potentials", "TableReader").site_of("__call__"),
           found=v, expect=3, key="C18.O4|TableReader")


def plots(chk, P):
    args = [W.nsym("lowx"), W.nsym("highx"), W.param("func"), W.nsym("steps")]
    J = W.make_interp(P)
    fp2 = BufV("fileobj", is_file=True)
    J.run(P.func("spec.writers", "plot_to_file"), [fp2] + args)
    expect = W.out_tree(fp2)
    I = W.make_interp(P)
    fp = BufV("fileobj", is_file=True)
    I.run(P.func("atsim.potentials", "plotToFile"), [fp] + args)
    W.compare_trees(chk, "C18.O5", "plotToFile", I, W.out_tree(fp), expect)
    # plot(filename, ...) opens the file and forwards
    I2 = W.make_interp(P)
    opened = {}
    orig = I2.x_open

    def x_open(a, k, n, e):
        b = orig(a, k, n, e)
        opened["buf"] = b
        opened["mode"] = a[1] if len(a) > 1 else None
        return b
    I2.x_open = x_open
    I2.run(P.func("atsim.potentials", "plot"), [Const("out.dat")] + args)
    if "buf" not in opened:
        raise AnalysisError("plot() did not open a file")
    W.compare_trees(chk, "C18.O5", "plot", I2, W.out_tree(opened["buf"]), expect)
    # potential-object variants: f(r) = potentialObject.energy(r)
    J3 = W.make_interp(P)
    fp3 = BufV("fileobj", is_file=True)
    pot = J3.opaque_instance(P.cls(*W.POT), ("param", "pot"))
    J3.run(P.func("spec.writers", "plot_to_file"), [fp3, args[0], args[1], Opaque(("attr", ("param", "pot"), "potentialFunction")), args[3]])
    expect3 = W.out_tree(fp3)
    I3 = W.make_interp(P)
    fp4 = BufV("fileobj", is_file=True)
    pot3 = I3.opaque_instance(P.cls(*W.POT), ("param", "pot"))
    I3.run(P.func("atsim.potentials", "plotPotentialObjectToFile"), [fp4, args[0], args[1], pot3, args[3]])
    W.compare_trees(chk, "C18.O5", "plotPotentialObjectToFile", I3, W.out_tree(fp4), expect3)
    # plotPotentialObject(filename, ...) opens the file and forwards
    I4 = W.make_interp(P)
    opened4 = {}
    orig4 = I4.x_open

    def x_open4(a, k, n, e):
        b = orig4(a, k, n, e)
        opened4["buf"] = b
        return b
    I4.x_open = x_open4
    pot4 = I4.opaque_instance(P.cls(*W.POT), ("param", "pot"))
    I4.run(P.func("atsim.potentials", "plotPotentialObject"), [Const("out.dat"), args[0], args[1], pot4, args[3]])
    if "buf" not in opened4:
        raise AnalysisError("plotPotentialObject() did not open a file")
    b4 = opened4["buf"]
    ok = isinstance(getattr(b4, "filename", None), Const) and b4.filename.v == "out.dat" and isinstance(getattr(b4, "mode", None), Const) \
        and b4.mode.v in ("w", "wt")
    chk.ob("C18.O5", "plotPotentialObject(filename, ...) writes to the named file, opened for writing", ok,
           site=P.func("atsim.potentials", "plotPotentialObject").site(), found=(getattr(b4, "filename", None), getattr(b4, "mode", None)),
           expect="open(filename, 'w')", key="C18.O5|plotPotentialObject|file")
    W.compare_trees(chk, "C18.O5", "plotPotentialObject", I4, W.out_tree(b4), expect3)

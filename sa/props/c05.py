"""C05 - DL_POLY TABEAM (DESIGN.md section 4, C05)."""
from .. import ep
from ..model import AnalysisError
from ..values import *     # noqa
from ..strtree import *    # noqa
from .. import writerules as W

EXPLANATION = (
    "TABEAM_EAMTabulation / TABEAM_FinnisSinclair_EAMTabulation .write and the public writeTABEAM / "
    "writeTABEAMFinnisSinclair functions are translated into output-expression trees and compared with the reference "
    "writers spec.writers.tabeam(_fs)(_api). Independently, the number of 'pair'/'embe'/'dens' blocks in the "
    "implementation's own tree is counted symbolically in n = len(eampots) (the sorted set of unordered species pairs has "
    "n(n+1)/2 elements) and proved equal to the declared function count printed on line 2.")


def run(chk):
    P = W.load_program()
    chk.explanation = EXPLANATION
    chk.info.update(P.stats())
    chk.rule("C05.W1", "TABEAM_EAMTabulation.write(fp) emits exactly the reference TABEAM", 20)
    chk.rule("C05.W2", "TABEAM_FinnisSinclair_EAMTabulation.write(fp) emits exactly the reference EEAM TABEAM", 20)
    chk.rule("C05.W3", "writeTABEAM(nrho, drho, nr, dr, ...) emits the reference TABEAM", 20)
    chk.rule("C05.W4", "writeTABEAMFinnisSinclair(...) emits the reference EEAM TABEAM", 20)
    chk.rule("C05.N", "declared function count = number of function blocks that follow (symbolic in n)", 2)
    chk.rule("C05.F", "potable route: DL_POLY_EAM / DL_POLY_EAM_fs build the TABEAM classes with the parser's grids", 14)

    r1 = chk.attempt("W1", lambda: W.eam_class_vs_spec(chk, "C05.W1", P, "TABEAM_EAMTabulation", "tabeam"))
    r2 = chk.attempt("W2", lambda: W.eam_class_vs_spec(chk, "C05.W2", P, "TABEAM_FinnisSinclair_EAMTabulation", "tabeam_fs"))
    chk.attempt("W3", lambda: W.eam_api_vs_spec(chk, "C05.W3", P, "atsim.potentials._dlpoly_writeTABEAM", "writeTABEAM", "tabeam_api"))
    chk.attempt("W4", lambda: W.eam_api_vs_spec(chk, "C05.W4", P, "atsim.potentials._dlpoly_writeTABEAM", "writeTABEAMFinnisSinclair", "tabeam_fs_api"))

    def count(name, r, fname):
        I, tree, _ = r
        blocks = W.count_blocks(I, tree, ("pair ", "embe ", "dens "))
        declared = None
        parts = parts_of(tree)
        # the declared count is the first %d field of the file
        for p in parts:
            if isinstance(p, SFmt) and p.conv == "d":
                declared = p
                break
        if declared is None:
            raise AnalysisError("no declared function count field found in the %s TABEAM output" % name)
        dv = I.num(declared.value)
        ok = ep.equal(dv, blocks)[0]
        chk.ob("C05.N", "%s: declared count equals the number of pair+embe+dens blocks" % name, ok,
               site=getattr(declared, "site", None) or P.func("atsim.potentials._dlpoly_writeTABEAM", fname).site(),
               found="declared %r, blocks written %r" % (dv, blocks), expect="equal for every n", key="C05.N|%s|count" % name)

    for name, r, fname in (("EAM", r1, "writeTABEAM"), ("EEAM", r2, "writeTABEAMFinnisSinclair")):
        if r is not None:
            chk.attempt("N/" + name, lambda: count(name, r, fname))

    for target, cls in (("DL_POLY_EAM", "TABEAM_EAMTabulation"), ("DL_POLY_EAM_fs", "TABEAM_FinnisSinclair_EAMTabulation")):
        chk.attempt("F/" + target, lambda: W.factory_route(chk, P, "C05.F", W.resolve_target(P, target), cls, eam=True, label=target))
    W.path_state_rule(chk, P, "C05.S", "TABEAM write and build path")
    chk.assume("element species labels are distinct (one EAMPotential per species: builder obligation C03.B)")
    chk.assume("species labels are non-empty strings")
    chk.assume("floating-point rounding of i*step is not decided")

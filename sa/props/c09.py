"""C09 - potable model language: structural clauses (DESIGN.md section 4, C09)."""
import ast
import os
import re

from .. import ep
from ..model import AnalysisError
from ..values import *     # noqa
from ..symeval import RaiseSignal
from ..symeval_ops import ExcV, NTV, PyObjV
from .. import formrules as F
from .. import writerules as W
from .. import cfgmodel as M

CP = "atsim.potentials.config._config_parser"
MODS = "atsim.potentials._modifiers"

EXPLANATION = (
    "Decided structurally (the meaning of a cexprtk expression, pyparsing's matching and configparser's line handling are "
    "library semantics and are not decided): each documented modifier is bound to its combinator and reduces over all its "
    "arguments in order (abstract evaluation over opaque argument potentials: sum = a+b+c, product = a*b*c, pow = a**b, "
    "trans = f(r+X)); the parse-tree walker turns descriptions, ranges and nested modifiers into the tuples the builder "
    "consumes, and every results-name it reads is produced by the grammar; the builder instantiates forms/modifiers with "
    "their arguments in order and chains ranges in listing order; a custom formula binds every declared parameter "
    "positionally into its own symbol table before each evaluation, and every form is registered with every other form "
    "(both directions) and with the pymath functions under the documented names; signature parsing; key normalisation.")


class Builder(object):
    """Potential_Form_Builder stand-in: the i-th argument definition becomes the opaque potential f<i>"""
    def __init__(self):
        self.seen = []

    def m_create_potential_function(self, I, args, kwargs):
        self.seen.append(args[0])
        return Opaque(("f", len(self.seen) - 1))


def run(chk):
    P = F.load_program()
    chk.explanation = EXPLANATION
    chk.info.update(P.stats())
    chk.rule("C09.O1", "sum/product/pow reduce plus/product/pow over all argument potentials in order; the combinators are a+b, a*b, a**b", 9)
    chk.rule("C09.O2", "trans(f, as.constant X)(r) = f(r + X)", 2)
    chk.rule("C09.O3", "custom formula: parameters bound positionally before each evaluation; forms registered with each other (ordered pairs) and with pymath", 8)
    chk.rule("C09.O4", "NAME(r, p1..pn) signature parsing: label and parameter list in order", 4)
    chk.rule("C09.O5", "grammar and tree walker agree on every results name: each shape of definition the grammar accepts is walked into a definition tuple", 7)
    chk.rule("C09.O6", "tree walker: descriptions, range markers, nested modifiers -> tuples (nesting preserved, order preserved)", 6)
    chk.rule("C09.O7", "builder: forms/modifiers instantiated with their arguments in order; ranges chained in listing order", 5)
    chk.rule("C09.O8", "documented modifiers and pymath functions are exactly the registered ones", 2)
    chk.rule("C09.O9", "key normalisation: optionxform == dictionary transform; '=' and ':' both delimit (parser options untouched)", 5)
    chk.rule("C09.O10", "pymath.NAME forwards its arguments, in order, to the math function of the same name", 30)
    chk.rule("C09.O11", "whole definitions, text to callable through the package's registries and builder: modifiers with constant, ranged and "
             "nested arguments evaluate to the arithmetic their text states", 14)
    chk.attempt("O10", lambda: pymath_forwarding(chk, P))
    chk.attempt("O11", lambda: whole_definitions(chk, P))
    chk.attempt("O1", lambda: modifiers(chk, P))
    chk.attempt("O1r", lambda: modifiers_repeated(chk, P))
    chk.attempt("O2", lambda: trans_value(chk, P))
    chk.attempt("O3", lambda: custom_forms(chk, P))
    chk.attempt("O4", lambda: signatures(chk, P))
    chk.attempt("O5", lambda: grammar_names(chk, P))
    chk.attempt("O6", lambda: tree_walker(chk, P))
    chk.attempt("O7", lambda: builder(chk, P))
    chk.attempt("O8", lambda: documented(chk, P))
    from .c14 import normaliser
    chk.attempt("O9", lambda: normaliser(chk, P, "C09.O9"))
    chk.attempt("O9b", lambda: delimiters(chk, P))
    chk.assume("the meaning of a cexprtk expression, pyparsing's matching of arbitrary text and configparser's continuation-line "
               "handling are library semantics: only their configuration and the data passed to them are decided")
    chk.assume("this check decides the binding structure of the language, not the numerical equality of every generated model")


def _modifier(I, P, name):
    """the modifier the package registers under `name`, through the registry's public [] -> (callable value, report site)"""
    mr = I.instantiate(P.cls("atsim.potentials.config._modifier_registry", "Modifier_Registry"), [], {}, None)
    v = I.getitem(mr, Const(name))
    fi = getattr(v, "fi", None)
    if fi is not None:
        return v, fi.site()
    ci = getattr(v, "ci", None)
    if ci is not None:
        return v, ci.site_of("__call__")
    return v, P.module(MODS).relpath


def modifiers(chk, P):
    r = ep.sym("r")
    f = [ep.app(("f", i), [r]) for i in range(3)]
    want = {"sum": f[0] + f[1] + f[2], "product": f[0] * f[1] * f[2], "pow": ep.pow_(ep.pow_(f[0], f[1]), f[2])}
    want2 = {"sum": f[0] + f[1], "product": f[0] * f[1], "pow": ep.pow_(f[0], f[1])}
    for name in ("sum", "product", "pow"):
        for n, w in ((2, want2[name]), (3, want[name])):
            I = F.make_interp(P)
            mod, msite = _modifier(I, P, name)
            b = Builder()
            # the argument definitions as the parser delivers them: 'as.f<i> <i>' (one range, default marker)
            from ..eamrules import defn_value
            defs = [defn_value(I, P, ("as.f%d" % i, [i], (">", 0), None)) for i in range(n)]
            res = I.call(mod, [ListV(list(defs), "list"), PyObjV(b)], {})
            v = I.num(I.call(res, [Num(r)], {}))
            ok = ep.equal(v, w)[0] and [x.key() for x in b.seen] == [d.key() for d in defs]
            chk.ob("C09.O1", "%s(%s)(r) = %s, every argument built once, in order" % (name, ", ".join("f%d" % i for i in range(n)),
                   {"sum": "+", "product": "*", "pow": "**"}[name].join("f%d(r)" % i for i in range(n))), ok, site=msite,
                   found=v, expect=w, key="C09.O1|%s|%d" % (name, n))
    # the Python API combinators themselves
    for name, w in (("plus", f[0] + f[1]), ("product", f[0] * f[1]), ("pow", ep.pow_(f[0], f[1]))):
        fi = P.func("atsim.potentials", name)
        I = F.make_interp(P)
        I.assumption_fns.append(F.hasattr_true({"deriv": True, "deriv2": True}))
        res = I.run(fi, [Opaque(("f", 0)), Opaque(("f", 1))])
        v = I.num(I.call(res, [Num(r)], {}))
        chk.ob("C09.O1", "atsim.potentials.%s(a, b)(r) is the pointwise %s" % (name, {"plus": "sum", "product": "product", "pow": "power a**b"}[name]),
               ep.equal(v, w)[0], site=fi.site(), found=v, expect=w, key="C09.O1|api|%s" % name)


WHOLE = [
    # text of the definition, its meaning as a function of r (exact arithmetic; as.polynomial 0 1 is r, as.constant c is c;
    # a part without marker acts for r > 0, '>=s' from s on, and contributes 0 (sum) below its start)
    ("sum(as.polynomial 0 1, as.constant 1, >=2 as.constant -1)", lambda r: r + 1 + (-1 if r >= 2 else 0)),
    ("sum(as.polynomial 0 1, >=2 as.constant -1, as.constant 1)", lambda r: r + (-1 if r >= 2 else 0) + 1),
    ("product(as.polynomial 0 1, as.constant 2, >=2 as.constant 3)", lambda r: r * 2 * (3 if r >= 2 else 0)),
    ("sum(as.constant 1, as.constant 2, as.polynomial 0 1)", lambda r: 3 + r),
    ("product(as.constant 2, as.constant 3, as.polynomial 0 1)", lambda r: 6 * r),
    ("sum(as.constant 1 >=2 as.constant 5, as.constant 10)", lambda r: (1 if r < 2 else 5) + 10),
    ("sum(as.constant 10, as.constant 1 >=2 as.constant 5)", lambda r: 10 + (1 if r < 2 else 5)),
    ("sum(as.constant 1, sum(as.polynomial 0 1, as.constant 2))", lambda r: 1 + (r + 2)),
    ("product(as.constant 2, product(as.polynomial 0 1, as.constant 3))", lambda r: 2 * (r * 3)),
    ("pow(as.constant 2, pow(as.polynomial 0 1, as.constant 2))", lambda r: 2 ** (r ** 2)),
    ("pow(pow(as.polynomial 0 1, as.constant 2), as.constant 3)", lambda r: (r ** 2) ** 3),
    ("pow(as.polynomial 0 1, as.constant 2, as.constant 3)", lambda r: (r ** 2) ** 3),
    ("pow(as.constant 2, as.constant 3, as.polynomial 0 1)", lambda r: (2 ** 3) ** r),
    ("sum(as.polynomial 0 1, >=2 sum(as.constant 1, as.constant 1))", lambda r: r + (2 if r >= 2 else 0)),
    ("product(sum(as.constant 1, as.polynomial 0 1), sum(as.constant 2, as.polynomial 0 1))", lambda r: (1 + r) * (2 + r)),
    ("sum(product(as.constant 2, as.polynomial 0 1), pow(as.polynomial 0 1, as.constant 2))", lambda r: 2 * r + r ** 2),
    ("as.polynomial 0 1 >=2 sum(as.constant 3, as.constant 4) >3 as.constant 1", lambda r: r if r < 2 else (7 if r <= 3 else 1)),
]


def whole_definitions(chk, P):
    site = P.module(MODS).relpath
    for text, meaning in WHOLE:
        J, pot = F.real_potential(P, text)
        probes = (1, 2, 3, 4)
        want = [meaning(r) for r in probes]
        if J is None:
            got = pot
        else:
            got = []
            for r in probes:
                try:
                    v = J.num(J.call(pot, [Num(ep.const(r))], {}))
                    c = v.as_const() if hasattr(v, "as_const") else None
                    got.append(c if c is not None else repr(v))
                except RaiseSignal as e:
                    got.append("raises %r" % (e.exc,))
        ok = isinstance(got, list) and all(isinstance(g, (int, float)) or hasattr(g, "numerator") for g in got) and \
            all(g == w for g, w in zip(got, want))
        chk.ob("C09.O11", "%r is %s at r = 1, 2, 3, 4" % (text, want), ok, site=site, found=got, expect=want, key="C09.O11|%s" % text)


def modifiers_repeated(chk, P):
    r = ep.sym("r")
    f = [ep.app(("f", i), [r]) for i in range(3)]
    # the same sub-definition given twice is two arguments (sum(f, f) = 2 f, product(f, f) = f^2), also when not adjacent
    mod = P.module("atsim.potentials.config._common")
    for name in ("sum", "product", "pow"):
        I = F.make_interp(P)
        modv, msite = _modifier(I, P, name)
        pfi = I.module_global(mod, "PotentialFormInstanceTuple")
        same = lambda: I.call(pfi, [Const("as.polynomial"), ListV([Num(ep.const(0)), Num(ep.const(1))], "list"), NONE, NONE], {})
        other = I.call(pfi, [Const("as.constant"), ListV([Num(ep.const(2))], "list"), NONE, NONE], {})
        b = Builder()
        try:
            res = I.call(modv, [ListV([same(), other, same()], "list"), PyObjV(b)], {})
            v = I.num(I.call(res, [Num(r)], {}))
            w = {"sum": f[0] + f[1] + f[2], "product": f[0] * f[1] * f[2], "pow": ep.pow_(ep.pow_(f[0], f[1]), f[2])}[name]
            ok = ep.equal(v, w)[0] and len(b.seen) == 3
            found = v
        except RaiseSignal as e:
            ok, found = False, e.exc
        chk.ob("C09.O1", "%s(g, h, g) with the definition g written twice keeps three arguments" % name, ok, site=msite, found=found,
               expect="three potentials reduced in order", key="C09.O1|%s|repeated-argument" % name)


def trans_value(chk, P):
    I = F.make_interp(P)
    mod = P.module("atsim.potentials.config._common")
    pfi = I.module_global(mod, "PotentialFormInstanceTuple")
    mrd = I.module_global(mod, "MultiRangeDefinitionTuple")
    later = I.call(pfi, [Const("as.zero"), ListV([], "list"), I.call(mrd, [Const(">="), Num(ep.const(2))], {}), NONE], {})
    fi = F.modifier_ref(P, "trans")
    for what, first in (("a single-range definition", I.call(pfi, [Const("as.buck"), ListV([], "list"), NONE, NONE], {})),
                        ("a definition with a further range ('as.buck >=2 as.zero')",
                         I.call(pfi, [Const("as.buck"), ListV([], "list"), I.call(mrd, [Const(">"), Num(ep.const(0))], {}), later], {}))):
        second = I.call(pfi, [Const("as.constant"), ListV([Num(ep.sym("X"))], "list"), NONE, NONE], {})
        b = Builder()
        t = fi.call(I, [ListV([first, second], "list"), PyObjV(b)])
        v = I.num(I.call(t, [Num(ep.sym("r"))], {}))
        w = ep.app(("f", 0), [ep.sym("r") + ep.sym("X")])
        ok = ep.equal(v, w)[0] and len(b.seen) == 1 and b.seen[0].key() == first.key()
        chk.ob("C09.O2", "trans(f, as.constant X)(r) = f(r + X) with f built from the whole first argument, unchanged (%s)" % what, ok,
               site=fi.site(), found=(v, b.seen), expect=(w, first), key="C09.O2|trans|%s" % what.split(" (")[0])


def _form_tuple(I, P, label, params, expr):
    mod = P.module("atsim.potentials.config._common")
    pft = I.module_global(mod, "PotentialFormTuple")
    sig = I.module_global(mod, "PotentialFormSignatureTuple")
    return I.call(pft, [I.call(sig, [Const(label), ListV([Const(p) for p in params], "list"), FALSE], {}), Const(expr)], {})


def custom_forms(chk, P):
    cx = P.cls("atsim.potentials.config._cexprtk_potential_function", "_Cexptrk_Potential_Function")
    I = F.make_interp(P)
    M.install_cexprtk(I)
    func = I.instantiate(cx, [_form_tuple(I, P, "f", ["r", "A", "B"], "A*r + B")], {}, None)
    table = M.symbol_table_of(func)
    site = cx.site_of("__call__")
    for trial, vals in enumerate((("r1", "a1", "b1"), ("r2", "a2", "b2"))):
        v = I.call(func, [Num(ep.sym(x)) for x in vals], {})
        expr = M.expression_of(func)
        evs = expr.evaluations if expr is not None else []
        last = evs[-1] if evs else {}
        ok = len(evs) == trial + 1 and all(k in last and ep.equal(I.num(last[k]), ep.sym(x))[0] for k, x in zip(("r", "A", "B"), vals))
        chk.ob("C09.O3", "call %d: at the moment the expression is evaluated r, A, B hold the arguments in positional order" % (trial + 1), ok,
               site=site, found=dict((k, repr(v)) for k, v in last.items()), expect=dict(zip(("r", "A", "B"), vals)),
               key="C09.O3|binding|call%d" % (trial + 1))
    expr = M.expression_of(func)
    chk.ob("C09.O3", "the expression text is the form's own formula and it is parsed against the form's own symbol table",
           expr is not None and expr.text == "A*r + B" and expr.table is table, site=site,
           found=getattr(expr, "text", None), expect="A*r + B", key="C09.O3|own-table")
    # arity is asserted
    try:
        I.call(func, [Num(ep.sym("r"))], {})
        out = "accepted"
    except RaiseSignal as e:
        out = e.exc
    chk.ob("C09.O3", "a call with the wrong number of arguments does not evaluate the expression", out != "accepted", site=site, found=out,
           expect="rejected", key="C09.O3|arity")
    # registry: forms registered with each other in both directions, plus as.* and pymath.*
    from .c20 import Cfg
    from .c06 import _form_tuple_hook
    reg = P.cls("atsim.potentials.config._potential_form_registry", "Potential_Form_Registry")
    J = F.make_interp(P)
    M.install_cexprtk(J)
    J.hooks["atsim.potentials.config._common:make_potential_form_tuple_from_function"] = _form_tuple_hook(P)
    forms = ListV([_form_tuple(J, P, n, ["r"], "r") for n in ("first", "second", "third")], "list")
    robj = J.instantiate(reg, [PyObjV(Cfg(ListV([], "list"), forms))], {"register_standard": TRUE, "register_pymath_functions": TRUE}, None)
    table_of = {}
    for lab in ("first", "second", "third"):
        pf = J.getitem(robj, Const(lab))
        fn = J.getattr(pf, "potential_function")
        table_of[lab] = set(M.symbol_table_of(fn).functions.d)
    rsite = reg.site_of("_register_with_each_other")
    for name in ("first", "second", "third"):
        others = {"first", "second", "third"} - {name}
        got = table_of.get(name, set())
        chk.ob("C09.O3", "form %r can call both other custom forms, whatever the declaration order" % name, others <= got, site=rsite,
               found=sorted(got & {"first", "second", "third"}), expect=sorted(others), key="C09.O3|each-other|%s" % name)
    got = table_of.get("first", set())
    chk.ob("C09.O3", "custom forms can call the built-in forms as as.NAME(...)", {"as.buck", "as.zbl", "as.polynomial"} <= got, site=rsite,
           found=sorted(x for x in got if x.startswith("as."))[:6], expect="as.* functions", key="C09.O3|as-functions")
    chk.ob("C09.O3", "custom forms can call pymath.NAME(...)", {"pymath.sqrt", "pymath.exp", "pymath.fsum"} <= got,
           site=reg.site_of("_register_pymath_functions"), found=sorted(x for x in got if x.startswith("pymath."))[:6],
           expect="pymath.* functions", key="C09.O3|pymath-functions")


def signatures(chk, P):
    """[Potential-Form] keys through ConfigParser(text).potential_form"""
    from .c14 import parse
    cls = P.cls(CP, "ConfigParser")
    cfg = P.cls("atsim.potentials.config._common", "ConfigurationException")
    site = cls.site_of("potential_form")

    def read(sig):
        out = parse(P, "[Pair]\nA-B : as.zero\n[Potential-Form]\n%s : r\n" % sig)
        if out[0] != "ok":
            return out[1]
        I, cp = out[3], out[4]
        try:
            rows = I.as_iterable(I.getattr(cp, "potential_form"))
        except RaiseSignal as e:
            return e.exc
        if not (isinstance(rows, ListV) and len(rows.items) == 1):
            raise AnalysisError("potential_form of a one-entry section is %r" % (rows,))
        return I.getattr(rows.items[0], "signature")
    for text, want in (("f(r,A,B)", ("f", ["r", "A", "B"])), ("  my_form2( r , rho )  ", ("my_form2", ["r", "rho"])), ("g(r)", ("g", ["r"]))):
        r = read(text)
        ok = isinstance(r, NTV) and r.cls.fields[:2] == ["label", "parameter_names"] and r.values[0].v == want[0] \
            and [x.v for x in r.values[1].items] == want[1]
        chk.ob("C09.O4", "signature %r -> label %r, parameters %r" % (text, want[0], want[1]), ok, site=site, found=r, expect=want,
               key="C09.O4|%s" % text.strip())
    for text in ("f", "1f(r)", "(r)"):
        out = read(text)
        ok = isinstance(out, ExcV) and isinstance(out.cls, ClassV) and out.cls.ci.is_subclass_of(cfg)
        chk.ob("C09.O4", "malformed signature %r is a configuration error" % text, ok, site=site, found=out, expect="ConfigParserException",
               key="C09.O4|bad|%s" % text)


def _definition(P, defn):
    """ConfigParser('[Pair] A-B : <defn>').pair[0].potential_form_instance -> (I, tuple) | (None, exception value)"""
    from .c14 import parse
    out = parse(P, "[Pair]\nA-B : %s\n" % defn)
    if out[0] != "ok":
        return None, out[1]
    I, cp = out[3], out[4]
    try:
        rows = I.as_iterable(I.getattr(cp, "pair"))
        return I, I.getattr(rows.items[0], "potential_form_instance")
    except RaiseSignal as e:
        return None, e.exc


def grammar_names(chk, P):
    """the grammar and the tree walker agree on every results name: each shape of definition the grammar accepts is walked
    without a Python error (a name the walker reads and the grammar does not set is a KeyError here)"""
    gm = P.module("atsim.potentials.config._multi_range_parser")
    shapes = [("a form without parameters", "as.zero"), ("a form with parameters", "as.buck 1000.0 0.3 32"),
              ("a leading range marker", ">=1.5 as.zero"), ("several ranges", "as.a 1 >2 as.b >=3.5 as.c 4"),
              ("a modifier", "sum(as.a 1, as.b 2)"), ("a nested modifier with ranges", "sum(product(as.a >1 as.b, as.c), >2 as.d) >=5 as.e"),
              ("a dotted label and signed / exponent numbers", "my.own.form -1 +2.5 1e-3 .5")]
    for what, defn in shapes:
        I, t = _definition(P, defn)
        chk.ob("C09.O5", "%s (%r) is accepted by the grammar and walked into a definition tuple" % (what, defn),
               I is not None and isinstance(t, NTV), site=gm.relpath, found=t, expect="a definition tuple", key="C09.O5|%s" % what)


def tree_walker(chk, P):
    cls = P.cls(CP, "ConfigParser")
    site = cls.site_of("pair")

    def field(t, name):
        return t.values[t.cls.fields.index(name)]

    def num(x):
        c = x.const()
        return int(c) if c.denominator == 1 else float(c)
    I, t = _definition(P, "as.buck 1 2 3 >=2 as.zero >4 as.constant 5")
    chain = []
    cur = t
    while isinstance(cur, NTV):
        chain.append((field(cur, "potential_form").v, [num(x) for x in field(cur, "parameters").items],
                      field(cur, "start").values[0].v, num(field(cur, "start").values[1])))
        cur = field(cur, "next")
    want = [("as.buck", [1, 2, 3], ">", 0), ("as.zero", [], ">=", 2), ("as.constant", [5], ">", 4)]
    chk.ob("C09.O6", "a three-range definition becomes a chain of three instances in listing order with their markers and parameters",
           chain == want, site=site, found=chain if chain else t, expect=want, key="C09.O6|chain")
    I, t = _definition(P, "sum(as.a 1, product(as.b 2 >3 as.c, as.d)) >5 as.e")
    ok = isinstance(t, NTV) and t.cls.name == "PotentialModifierTuple" and field(t, "modifier").v == "sum"
    chk.ob("C09.O6", "a modifier becomes a PotentialModifierTuple carrying its label", ok, site=site, found=t, expect="sum(...)", key="C09.O6|modifier")
    if ok:
        args = field(t, "potential_forms").items
        ok1 = len(args) == 2 and args[0].cls.name == "PotentialFormInstanceTuple" and field(args[0], "potential_form").v == "as.a" \
            and [num(x) for x in field(args[0], "parameters").items] == [1]
        chk.ob("C09.O6", "its arguments are kept in order, each parsed as a full multi-range definition", ok1, site=site, found=args,
               expect="[as.a 1, product(...)]", key="C09.O6|arguments")
        ok2 = len(args) == 2 and args[1].cls.name == "PotentialModifierTuple" and field(args[1], "modifier").v == "product"
        chk.ob("C09.O6", "a modifier nested inside a modifier is preserved", ok2, site=site, found=args[1] if len(args) > 1 else None,
               expect="product(...)", key="C09.O6|nesting")
        if ok2:
            a0 = field(args[1], "potential_forms").items[0]
            nxt = field(a0, "next")
            ok3 = field(a0, "potential_form").v == "as.b" and isinstance(nxt, NTV) and field(nxt, "potential_form").v == "as.c" \
                and field(nxt, "start").values[0].v == ">" and num(field(nxt, "start").values[1]) == 3
            chk.ob("C09.O6", "ranges inside a nested argument are kept", ok3, site=site, found=a0, expect="as.b 2 >3 as.c", key="C09.O6|nested-ranges")
        nx = field(t, "next")
        ok4 = isinstance(nx, NTV) and field(nx, "potential_form").v == "as.e" and num(field(nx, "start").values[1]) == 5
        chk.ob("C09.O6", "a modifier can be followed by further ranges", ok4, site=site, found=nx, expect=">5 as.e", key="C09.O6|modifier-next")


def builder(chk, P):
    I = F.make_interp(P)
    I.assumption_fns.append(F.hasattr_true({"deriv": False, "deriv2": False}))
    bcls = P.cls("atsim.potentials.config._potential_form_builder", "Potential_Form_Builder")
    mod = P.module("atsim.potentials.config._common")
    pfi = I.module_global(mod, "PotentialFormInstanceTuple")
    pmt = I.module_global(mod, "PotentialModifierTuple")
    mrd = I.module_global(mod, "MultiRangeDefinitionTuple")
    calls = []

    class Factory(object):
        def __init__(self, name):
            self.name = name

        def m___call__(self, J, args, kwargs):
            calls.append((self.name, list(args)))
            return Opaque(("made", self.name, tuple(a.key() for a in args)))
    forms = DictV()
    for n in ("as.a", "as.b", "as.c"):
        forms.items[Const(n).key()] = (Const(n), PyObjV(Factory(n)))
    mods = DictV()
    mods.items[Const("sum").key()] = (Const("sum"), PyObjV(Factory("sum")))
    b = I.instantiate(bcls, [forms, mods], {}, None)
    site = bcls.site_of("create_potential_function")
    third = I.call(pfi, [Const("as.c"), ListV([], "list"), I.call(mrd, [Const(">"), Num(ep.const(4))], {}), NONE], {})
    second = I.call(pfi, [Const("as.b"), ListV([Num(ep.const(7))], "list"), I.call(mrd, [Const(">="), Num(ep.const(2))], {}), third], {})
    first = I.call(pfi, [Const("as.a"), ListV([Num(ep.const(1)), Num(ep.const(2))], "list"), I.call(mrd, [Const(">"), Num(ep.const(0))], {}), second], {})
    pot = W.run_method(I, b, "create_potential_function", [first])
    ok = isinstance(pot, InstV) and pot.ci.name.startswith("Multi_Range_Potential_Form")
    chk.ob("C09.O7", "a definition becomes a multi-range potential", ok, site=site, found=pot, expect="Multi_Range_Potential_Form",
           key="C09.O7|multirange")
    if ok:
        rng = [(I.getattr(d, "range_type").v, int(I.getattr(d, "start").const()), I.getattr(d, "potential_form").path[1])
               for d in I.as_iterable(I.getattr(pot, "range_defns")).items]
        chk.ob("C09.O7", "its ranges are the listed forms with their markers and starts", rng == [(">", 0, "as.a"), (">=", 2, "as.b"), (">", 4, "as.c")],
               site=site, found=rng, expect="as.a >0, as.b >=2, as.c >4", key="C09.O7|ranges")
    chk.ob("C09.O7", "each form factory receives its parameters positionally, in order",
           [(n, [int(a.const()) for a in args]) for n, args in calls] == [("as.a", [1, 2]), ("as.b", [7]), ("as.c", [])], site=site,
           found=calls, expect="as.a(1,2), as.b(7), as.c()", key="C09.O7|form-args")
    calls[:] = []
    m = I.call(pmt, [Const("sum"), ListV([first, third], "list"), I.call(mrd, [Const(">"), Num(ep.const(0))], {}), NONE], {})
    W.run_method(I, b, "create_potential_function", [m])
    ok = len(calls) == 1 and calls[0][0] == "sum" and len(calls[0][1]) == 2 and isinstance(calls[0][1][0], ListV) \
        and [x.key() for x in calls[0][1][0].items] == [first.key(), third.key()] and calls[0][1][1] is b
    chk.ob("C09.O7", "a modifier factory receives (its argument definitions in order, the builder)", ok, site=site, found=calls,
           expect="sum([first, third], builder)", key="C09.O7|modifier-args")
    # pair builder: Potential(species_a, species_b, function)
    pb = P.cls("atsim.potentials.config._pair_potential_builder", "Pair_Potentials_From_Tuples_Builder")
    sp = I.module_global(mod, "SpeciesTuple")
    ppt = I.module_global(mod, "PairPotentialTuple")
    row = I.call(ppt, [I.call(sp, [Const("O"), Const("U")], {}), W.param("defn")], {})

    class PFB(object):
        def m_create_potential_function(self, J, args, kwargs):
            return Opaque(("built", args[0].key()))
    st = I.__dict__.setdefault("class_standins", {})
    st[bcls.fq] = lambda J, ci, args, kwargs: PyObjV(PFB())
    pbi = I.instantiate(pb, [ListV([row], "list"), Opaque(("collaborator", "forms")), Opaque(("collaborator", "modifiers"))], {}, None)
    pots = I.as_iterable(I.getattr(pbi, "potentials"))
    potobj = pots.items[0] if isinstance(pots, ListV) and len(pots.items) == 1 else pots
    ok = isinstance(potobj, InstV) and I.getattr(potobj, "speciesA").v == "O" and I.getattr(potobj, "speciesB").v == "U" \
        and I.getattr(potobj, "potentialFunction").key() == Opaque(("built", W.param("defn").key())).key()
    chk.ob("C09.O7", "a [Pair] row 'O-U : DEFN' becomes Potential('O', 'U', function of DEFN)", ok, site=pb.site_of("potentials"),
           found=potobj.attrs if isinstance(potobj, InstV) else potobj, expect="Potential(O, U, built(defn))", key="C09.O7|pair-row")


def documented(chk, P):
    repo = P.repo
    txt = F.read_rst(os.path.join(repo, "docs", "reference", "potential_modifiers.rst"))
    doc_mods = set(re.findall(r"^\.\. _modifier-(\w+):", txt, re.M))
    if len(doc_mods) < 5:
        raise AnalysisError("the layout of docs/reference/potential_modifiers.rst is not recognised (%d '.. _modifier-NAME:' labels found)" % len(doc_mods))
    I = F.make_interp(P)
    mr = I.instantiate(P.cls("atsim.potentials.config._modifier_registry", "Modifier_Registry"), [], {}, None)
    reg = F.registered_modifiers(I, mr, doc_mods)
    site = P.cls("atsim.potentials.config._modifier_registry", "Modifier_Registry").site_of("_register_standard")
    chk.ob("C09.O8", "the registered modifiers are exactly the documented ones", reg == doc_mods, site=site, found=sorted(reg),
           expect=sorted(doc_mods), key="C09.O8|modifiers")
    for name, comb in (("sum", "plus"), ("product", "product"), ("pow", "pow")):
        pass
    txt2 = F.read_rst(os.path.join(repo, "docs", "reference", "potable_input.rst"))
    if "ref-potable-input-pymath" not in txt2 or "ref-potable-input-tabulation:" not in txt2:
        raise AnalysisError("the layout of docs/reference/potable_input.rst is not recognised (pymath section labels)")
    sect = txt2[txt2.index("ref-potable-input-pymath"):txt2.index("ref-potable-input-tabulation:")]
    doc_fn = set(re.findall(r"^\s+\* `(\w+)\(", sect, re.M))
    if len(doc_fn) < 25:
        raise AnalysisError("the list of pymath functions in docs/reference/potable_input.rst is not recognised (%d entries found)" % len(doc_fn))
    pm = P.module("atsim.potentials.config._pymath")
    have = set(pymath_functions(F.make_interp(P), P))
    chk.ob("C09.O8", "every documented pymath function exists in the _pymath module (%d documented)" % len(doc_fn), doc_fn <= have,
           site=pm.relpath, found=sorted(doc_fn - have) or None, expect="documented subset of defined", key="C09.O8|pymath")


def pymath_functions(I, P):
    """{name: function value} of the public functions the _pymath module offers (what inspect.getmembers(module, isfunction)
    sees): definitions, conditional definitions and names bound while the module is imported"""
    pm = P.module("atsim.potentials.config._pymath")
    out = {}
    for n in I.module_names(pm):
        if n.startswith("_"):
            continue
        v = I.module_global(pm, n)
        if isinstance(v, FuncV):
            out[n] = v
    return out


def delimiters(chk, P):
    I = F.make_interp(P)
    M.install_rawconfigparser(I)
    out = None
    from .c14 import parse
    a = parse(P, "[Pair]\nA-B : as.zero\n[Potential-Form]\nf(r) = r\n")
    b = parse(P, "[Pair]\nA-B = as.zero\n[Potential-Form]\nf(r) : r\n")
    ok = a[0] == "ok" and b[0] == "ok" and a[1] == b[1]
    chk.ob("C09.O9", "'=' and ':' are interchangeable delimiters (parser options untouched; same parsed state)", ok,
           site=P.cls(CP, "_RawConfigParser").site_of("__init__"), found=(a[1], b[1]) if ok is False else None, expect="same state",
           key="C09.O9|delimiters")


def pymath_forwarding(chk, P):
    """each public pymath function, called with one symbolic number per parameter, returns what math.NAME returns for the same
    numbers in the same order (the listed conversions are the documented ones: whole-number arguments go through int())"""
    I = F.make_interp(P)
    pm = P.module("atsim.potentials.config._pymath")
    funcs = pymath_functions(I, P)
    M_ = lambda name: ExtV("math." + name)

    def int_(v):
        return I.x_int([v], {}, None, None)
    reference = {
        "factorial": lambda a: [I.call(M_("factorial"), [int_(a[0])], {})],
        "gcd": lambda a: [I.call(M_("gcd"), [int_(a[0]), int_(a[1])], {})],
        "ldexp": lambda a: [I.call(M_("ldexp"), [a[0], int_(a[1])], {})],
        "fsum": lambda a: [I.call(M_("fsum"), [ListV(list(a), "tuple")], {})],
        # math.log2 where the interpreter has it, math.log(x, 2) otherwise
        "log2": lambda a: [I.call(M_("log2"), list(a), {}), I.call(M_("log"), [a[0], Num(ep.const(2))], {})],
    }
    arities = {"log": (1, 2), "fsum": (3,)}
    for name in sorted(funcs):
        f = funcs[name]
        a = f.fi.node.args
        fixed = [x.arg for x in a.posonlyargs + a.args]
        counts = [len(fixed)] if a.vararg is None else [len(fixed) + c for c in arities.get(name, (1, 2))]
        site = f.fi.site()
        ok, found, expect = True, None, None
        for c in counts:
            args = [Num(ep.sym("x%d" % i_), True) for i_ in range(c)]
            try:
                got = I.call(f, list(args), {})
            except RaiseSignal as e:
                ok, found, expect = False, "raises %r" % (e.exc,), "math.%s(...)" % name
                break
            want = reference.get(name, lambda a_: [I.call(M_(name), list(a_), {})])(args)
            if not any(isinstance(got, Num) and isinstance(w, Num) and got.key() == w.key() for w in want):
                ok, found, expect = False, got, want[0]
                break
        chk.ob("C09.O10", "pymath.%s(%s) = math.%s of the same arguments in the same order" % (name, ", ".join(fixed + (["*" + a.vararg.arg] if a.vararg else [])), name),
               ok, site=site, found=found, expect=expect, key="C09.O10|%s" % name)



"""C19 - GULP, ADP, funcfl and Excel targets (DESIGN.md section 4, C19)."""
from .. import ep
from ..model import AnalysisError
from ..values import *     # noqa
from ..strtree import *    # noqa
from ..symeval_ops import PyObjV
from .. import writerules as W
from .. import excelmodel

EXPLANATION = (
    "The GULP, ADP and funcfl writers are translated into output-expression trees and compared with reference writers "
    "transcribed from the statement (GULP: 'spline cubic' blocks with nr 'energy separation' rows at i*cutoff/(nr-1); ADP: "
    "the setfl tree followed by unscaled dipole and quadrupole lower-triangular blocks with zero filling; funcfl: header "
    "with cutoff = dr*(nr-1) and effective charges sqrt(phi(r) r / 27.2 / 0.529), line wrapping left open). The Excel "
    "workbooks are evaluated on a recording model of openpyxl with a symbolic number of rows: the first column of row i "
    "must be the grid value and the labelled column that label's own function at that value.")


def run(chk):
    P = W.load_program()
    chk.explanation = EXPLANATION
    chk.info.update(P.stats())
    chk.rule("C19.G1", "GULP_PairTabulation.write emits the reference spline library", 8)
    chk.rule("C19.G2", "writePotentials('GULP', ...) emits the same", 8)
    chk.rule("C19.A1", "ADP_EAMTabulation.write = setfl file + unscaled dipole + quadrupole blocks", 30)
    chk.rule("C19.A2", "ADP factory reads [EAM-ADP-Dipole]/[EAM-ADP-Quadrupole] into the dipole/quadrupole constructor slots", 9)
    chk.rule("C19.F1", "writeFuncFL emits the reference funcfl file (header grid, effective charge conversion)", 15)
    chk.rule("C19.X1", "Excel pair sheet: r in the first column, every labelled column that pair's function at the row's r", 5)
    chk.rule("C19.X2", "Excel EAM sheets: density columns on the r grid, embedding columns on the rho grid", 8)
    chk.rule("C19.F", "potable routes GULP / excel / excel_eam / eam_adp build the right classes with the parser's grids", 12)
    elem = {("param", "potentials"): W.POT}

    def gulp():
        _, expect = W.spec_output(P, "gulp_table", [W.param("potentials"), W.nsym("cutoff"), W.nsym("nr")])
        I, found = W.tabulation_output(P, "GULP_PairTabulation", elem)
        W.compare_trees(chk, "C19.G1", "GULP_PairTabulation.write", I, found, expect)
        W.second_write(chk, "C19.G1", "GULP_PairTabulation.write", I, expect)
        I2 = W.make_interp(P, elem=elem)
        fp = BufV("fp", is_file=True)
        I2.run(P.func("atsim.potentials", "writePotentials"), [Const("GULP"), W.param("potentials"), W.nsym("cutoff"), W.nsym("nr"), fp])
        W.compare_trees(chk, "C19.G2", "writePotentials('GULP')", I2, W.out_tree(fp), expect)
    chk.attempt("GULP", gulp)

    def adp():
        el = dict(W.EAM_ELEM)
        el[("param", "dipole_potentials")] = W.POT
        el[("param", "quadrupole_potentials")] = W.POT
        ctor = [W.param("potentials"), W.param("eam_potentials"), W.param("dipole_potentials"), W.param("quadrupole_potentials"),
                W.nsym("cutoff"), W.nsym("nr"), W.nsym("cutoff_rho"), W.nsym("nrho")]
        W.eam_class_vs_spec(chk, "C19.A1", P, "ADP_EAMTabulation", "adp", ctor=ctor, elem=el)
    chk.attempt("ADP", adp)
    chk.attempt("ADP-factory", lambda: adp_factory(chk, P))
    chk.attempt("funcfl", lambda: W.eam_api_vs_spec(chk, "C19.F1", P, "atsim.potentials._lammpsWriteEAM", "writeFuncFL", "funcfl"))
    chk.attempt("excel-pair", lambda: excel_pair(chk, P))
    chk.attempt("excel-eam", lambda: excel_eam(chk, P))
    # the spreadsheet classes build their workbook once and keep it: a build that failed must not be kept (a second write on the
    # same object would emit the half-filled sheets) - the retry experiment of C17 on the three Excel classes, evaluated here
    from ..report import RuleView
    from . import c17
    chk.rule("C19.X3", "Excel classes: a write that failed leaves no half-built workbook behind for a second write", 6)
    view_x3 = RuleView(chk, "C19.X3")
    J0 = W.make_interp(P)
    for fq, (ci, how) in sorted(c17.registered_classes(P, J0).items()):
        if "Excel" in ci.name:
            chk.attempt("X3/" + ci.name, lambda ci=ci, how=how: c17.retry(view_x3, P, ci, how))
    for target, cls, eam in (("GULP", "GULP_PairTabulation", False), ("excel", "Excel_PairTabulation", False),
                             ("excel_eam", "Excel_EAMTabulation", True)):
        chk.attempt("F/" + target, lambda: W.factory_route(chk, P, "C19.F", W.resolve_target(P, target), cls, eam=eam, label=target))
    W.path_state_rule(chk, P, "C19.S", "GULP/ADP/funcfl/Excel write and build path")
    chk.assume("floating-point rounding is not decided; bytes produced inside openpyxl are not decided")
    chk.assume("Excel workbooks are evaluated on two-potential / two-element models (column loops need a concrete column count); "
               "rows are symbolic")
    chk.assume("funcfl line wrapping (5 values per line) is not constrained by the property and is left open")


def adp_factory(chk, P):
    I = W.make_interp(P)
    mod = P.module("atsim.potentials.config._tabulation_factories")
    table = I.module_global(mod, "TABULATION_FACTORIES")
    fac = table.items.get(Const(W.resolve_target(P, "eam_adp")).key())
    site = "%s TABULATION_FACTORIES['eam_adp']" % mod.relpath
    if fac is None:
        chk.ob("C19.A2", "target eam_adp registered", False, site=site, key="C19.A2|registered")
        return
    fac = fac[1]
    tc = I.getattr(fac, "tabulation_class")
    chk.ob("C19.A2", "eam_adp tabulates with ADP_EAMTabulation", isinstance(tc, ClassV) and tc.ci.name == "ADP_EAMTabulation", site=site,
           found=tc, expect="ADP_EAMTabulation", key="C19.A2|class")
    seen = []

    def ppl(i, fv, a, k, n):
        seen.append(a[0].v if isinstance(a[0], Const) else repr(a[0]))
        return Opaque(("tuples", a[0].key()))
    I.hooks["atsim.potentials.config._tabulation_factories:EAMTabulationFactory.extract_tabulation_args"] = \
        lambda i, fv, a, k, n: ListV([W.param("potentials"), W.param("eam_potentials"), W.nsym("cutoff"), W.nsym("nr"),
                                      W.nsym("cutoff_rho"), W.nsym("nrho")], "list")

    class Builder(object):
        """stands for Pair_Potentials_From_Tuples_Builder: its potentials are 'the potentials of section S' only when it
        was given S's tuples, the form registry and the modifier registry in the slots of those names"""
        def __init__(self, named):
            self.named = named

        def get_potentials(self, J):
            sec = self.named.get("log_section_name")
            sec = sec.v if isinstance(sec, Const) else repr(sec)
            tup = self.named.get("potential_tuples")
            wired = (tup is not None and tup.key() == Opaque(("tuples", sec)).key()
                     and self.named.get("potential_form_registry") is not None
                     and self.named["potential_form_registry"].key() == W.param("pfr").key()
                     and self.named.get("modifier_registry") is not None
                     and self.named["modifier_registry"].key() == W.param("mr").key())
            if not wired:
                return Opaque(("pots-from-miswired-builder", sec, tuple(sorted((k, repr(v)) for k, v in self.named.items()))))
            return Opaque(("pots-from", sec))

    def builder_new(i, fv, a, k, n):
        return NONE
    # Pair_Potentials_From_Tuples_Builder(tuples, pfr, mr, section_name).potentials
    pb = P.cls("atsim.potentials.config._pair_potential_builder", "Pair_Potentials_From_Tuples_Builder")
    orig_inst = I.instantiate

    def inst(ci, args, kwargs, node):
        if ci is pb:
            names = pb.lookup("__init__").params()[1:]
            named = dict(zip(names, args))
            named.update(kwargs)
            return PyObjV(Builder(named))
        return orig_inst(ci, args, kwargs, node)
    I.instantiate = inst

    class CP(object):
        def m_parse_pair_like(self, J, args, kwargs):
            seen.append(args[0].v)
            return Opaque(("tuples", args[0].v))
    r_cut = W.param("r_cutoff")
    args = W.run_method(I, fac, "extract_tabulation_args", [PyObjV(CP()), r_cut, W.param("potentials"), W.param("pfr"), W.param("mr")])
    ctor = tc.ci.lookup("__init__").params()[1:] if isinstance(tc, ClassV) else []
    want = {"potentials": W.param("potentials").key(), "eam_potentials": W.param("eam_potentials").key(),
            "dipole_potentials": Opaque(("pots-from", "EAM-ADP-Dipole")).key(),
            "quadrupole_potentials": Opaque(("pots-from", "EAM-ADP-Quadrupole")).key(),
            "cutoff": W.nsym("cutoff").key(), "nr": W.nsym("nr").key(), "cutoff_rho": W.nsym("cutoff_rho").key(), "nrho": W.nsym("nrho").key()}
    fsite = fac.ci.site_of("extract_tabulation_args")
    if not isinstance(args, ListV) or len(args.items) != len(ctor):
        chk.ob("C19.A2", "argument list matches the constructor's arity", False, site=fsite, found=args, expect=ctor, key="C19.A2|arity")
        return
    for pname, a in zip(ctor, args.items):
        chk.ob("C19.A2", "constructor slot %r receives %s" % (pname, "the [EAM-ADP-%s] potentials" % ("Dipole" if "dip" in pname else "Quadrupole")
                                                               if "pole" in pname else "its namesake"),
               pname in want and a.key() == want[pname], site=fsite, found=a, expect=pname, key="C19.A2|slot|%s" % pname)


def two_pots(I, P):
    pot = P.cls(*W.POT)
    return ListV([I.instantiate(pot, [Const(a), Const(b), W.param("phi_%s_%s" % (a, b))], {}, None)
                  for a, b in (("O", "U"), ("B", "A"))], "list")


def sheet_rows(ws):
    heads = {}
    rows = set()
    for (row, col), v in ws.cells.items():
        if row.as_const() == 1:
            heads[col] = v
        else:
            rows.add(row)
    if len(rows) != 1:
        raise AnalysisError("expected one symbolic data row family in sheet %s, found %r" % (ws.title, rows))
    return heads, list(rows)[0]


def rows_ok(ws, row, n):
    """the data rows are filled by one loop of n iterations whose first iteration writes row 2"""
    rng = ws.row_ranges.get(row)
    if rng is None:
        return False, "the data rows are not filled by a loop"
    var, lo, hi = rng
    first = ep.substitute(row, {var: lo})
    count = hi - lo
    ok = ep.equal(count, ep.sym(n))[0] and first.as_const() == 2
    return ok, "%r rows starting at row %r" % (count, first)


def grid_ok(row, value, cutoff, n):
    """row = i + 2 and value = i*cutoff/(n-1) for the symbolic loop index i"""
    i = row - ep.const(2)
    return ep.equal(value, i * ep.sym(cutoff) / (ep.sym(n) - 1))[0]


def excel_pair(chk, P):
    I = W.make_interp(P)
    excelmodel.install(I)
    cls = P.cls("atsim.potentials.pair_tabulation", "Excel_PairTabulation")
    tab = I.instantiate(cls, [two_pots(I, P), W.nsym("cutoff"), W.nsym("nr")], {}, None)
    wb = I.getattr(tab, "workbook")
    ws = wb.obj.sheet("Pair")
    site = cls.site_of("_populate_worksheet")
    if ws is None:
        raise AnalysisError("no 'Pair' sheet")
    heads, row = sheet_rows(ws)
    rv = I.num(ws.cells[(row, 1)])
    okr, foundr = rows_ok(ws, row, "nr")
    chk.ob("C19.X1", "nr data rows, the first in row 2", okr, site=site, found=foundr, expect="nr rows from row 2", key="C19.X1|rows")
    chk.ob("C19.X1", "first column header is 'r' and row i holds i*cutoff/(nr-1)", isinstance(heads.get(1), Const) and heads[1].v == "r"
           and grid_ok(row, rv, "cutoff", "nr"), site=site, found=(heads.get(1), rv), expect="r, i*cutoff/(nr-1)", key="C19.X1|grid")
    for label, fn in (("A-B", "phi_B_A"), ("O-U", "phi_O_U")):
        cols = [c for c, v in heads.items() if isinstance(v, Const) and v.v == label]
        ok = len(cols) == 1
        got = ws.cells.get((row, cols[0])) if ok else None
        ok = ok and isinstance(got, Num) and ep.equal(got.rf, ep.app(("param", fn), [rv]))[0]
        chk.ob("C19.X1", "column %r holds that pair's potential function at the row's r" % label, ok, site=site, found=got,
               expect="%s(r_i)" % fn, key="C19.X1|col|%s" % label)
    ncols = len(heads)
    chk.ob("C19.X1", "exactly one column per potential plus the r column", ncols == 3, site=site, found=sorted(str(v) for v in heads.values()),
           expect="r, A-B, O-U", key="C19.X1|columns")
    # write(): the workbook bytes are copied to fp after everything was evaluated (C17) - here: it writes something
    fp = BufV("fp", is_file=True)
    W.run_method(I, tab, "write", [fp])
    chk.ob("C19.X1", "write(fp) copies the saved workbook to fp", len(fp.pieces) == 1, site=cls.site_of("write"), found=fp.pieces,
           expect="one write of the saved bytes", key="C19.X1|write")


def excel_eam(chk, P, rule="C19.X2"):
    from .c17 import concrete_eam
    I = W.make_interp(P)
    excelmodel.install(I)
    cls = P.cls("atsim.potentials.eam_tabulation", "Excel_EAMTabulation")
    tab = I.instantiate(cls, [two_pots(I, P), concrete_eam(I, P, False), W.nsym("cutoff"), W.nsym("nr"), W.nsym("cutoff_rho"), W.nsym("nrho")], {}, None)
    wb = I.getattr(tab, "workbook")
    site = cls.site_of("_add_eam_density")
    for title, first, cut, n, fnpre in (("EAM-Density", "r", "cutoff", "nr", "rho_"), ("EAM-Embed", "rho", "cutoff_rho", "nrho", "F_")):
        ws = wb.obj.sheet(title)
        if ws is None:
            chk.ob(rule, "sheet %s exists" % title, False, site=site, key=rule + "|%s|exists" % title)
            continue
        heads, row = sheet_rows(ws)
        rv = I.num(ws.cells[(row, 1)])
        chk.ob(rule, "%s: first column %r on the grid i*%s/(%s-1)" % (title, first, cut, n),
               isinstance(heads.get(1), Const) and heads[1].v == first and grid_ok(row, rv, cut, n), site=site, found=(heads.get(1), rv),
               expect="%s, i*%s/(%s-1)" % (first, cut, n), key=rule + "|%s|grid" % title)
        okr, foundr = rows_ok(ws, row, n)
        chk.ob(rule, "%s: %s data rows, the first in row 2" % (title, n), okr, site=site, found=foundr, expect="%s rows from row 2" % n,
               key=rule + "|%s|rows" % title)
        for sp in ("Al", "Cu"):
            cols = [c for c, v in heads.items() if isinstance(v, Const) and v.v == sp]
            ok = len(cols) == 1
            got = ws.cells.get((row, cols[0])) if ok else None
            ok = ok and isinstance(got, Num) and ep.equal(got.rf, ep.app(("param", fnpre + sp), [rv]))[0]
            chk.ob(rule, "%s: column %r holds %s%s at the row's grid value" % (title, sp, fnpre, sp), ok, site=site, found=got,
                   expect="%s%s(x_i)" % (fnpre, sp), key=rule + "|%s|col|%s" % (title, sp))
    ws = wb.obj.sheet("Pair")
    chk.ob(rule, "the EAM workbook also carries the Pair sheet", ws is not None and len(ws.cells) > 3, site=site,
           found=None if ws is None else len(ws.cells), expect="Pair sheet", key=rule + "|pair-sheet")
    chk.ob(rule, "sheets: Pair, EAM-Density, EAM-Embed", sorted(s.title for s in wb.obj.sheets) == ["EAM-Density", "EAM-Embed", "Pair"],
           site=site, found=sorted(s.title for s in wb.obj.sheets), expect=["EAM-Density", "EAM-Embed", "Pair"], key=rule + "|sheets")

"""C02 - DL_POLY TABLE (DESIGN.md section 4, C02)."""
from .. import ep
from ..model import AnalysisError
from ..values import *     # noqa
from ..strtree import *    # noqa
from ..treecmp import Opts
from .. import writerules as W

EXPLANATION = (
    "DLPoly_PairTabulation.write and writePotentials('DL_POLY') are translated into output-expression trees and compared "
    "with the reference writer spec.writers.dlpoly_table (header, 8-character species fields, ngrid energies at k*delpot "
    "then ngrid values -r dV/dr, four ' % 14.7e' fields per record; exact field formats are compared). The accumulated "
    "separation r += delpot is solved as the recurrence k*delpot. The divisible-by-four rejection is checked as a raise "
    "under the condition nr mod 4 != 0 that precedes every emission, on the Python API and on the potable factory route.")


def mod4_cond(c):
    """is c (a Cond) equivalent to 'x mod 4 != 0' -> x (RF) or None"""
    if isinstance(c, Cond) and c.kind == "cmp" and c.args[0] in ("!=",):
        lhs, rhs = c.args[1], c.args[2]
        if isinstance(rhs, Num) and rhs.const() == 0 and isinstance(lhs, Num):
            st = lhs.rf.n.single_term() if not lhs.rf.df else None
            if st is not None:
                m, k = st
                if k == 1 and len(m.f) == 1:
                    (a, e), = m.f
                    if isinstance(a, ep.AppA) and a.fn == "mod" and a.args[1].as_const() == 4:
                        return a.args[0]
    return None


def run(chk):
    P = W.load_program()
    chk.explanation = EXPLANATION
    chk.info.update(P.stats())
    chk.rule("C02.W1", "DLPoly_PairTabulation.write(fp) emits exactly the reference TABLE", 12)
    chk.rule("C02.W2", "writePotentials('DL_POLY', ...) emits the same TABLE", 12)
    chk.rule("C02.R1", "Python API: a row count not divisible by four raises before anything is emitted", 2)
    chk.rule("C02.R2", "potable: DLPOLY factory raises a ConfigurationException when nr mod 4 != 0", 2)
    chk.rule("C02.F", "potable route: 'DLPOLY' (and synonym 'DL_POLY') build DLPoly_PairTabulation(potentials, cutoff, nr)", 8)

    elem = {("param", "potentials"): W.POT}
    opts = Opts(ignore_precision=False)
    _, expect = W.spec_output(P, "dlpoly_table", [W.param("potentials"), W.nsym("cutoff"), W.nsym("nr")])
    I, found = W.tabulation_output(P, "DLPoly_PairTabulation", elem)
    W.compare_trees(chk, "C02.W1", "DLPoly_PairTabulation.write", I, found, expect, opts)
    W.second_write(chk, "C02.W1", "DLPoly_PairTabulation.write", I, expect, opts)

    I2 = W.make_interp(P, elem=elem)
    fp = BufV("fp", is_file=True)
    I2.run(P.func("atsim.potentials", "writePotentials"), [Const("DL_POLY"), W.param("potentials"), W.nsym("cutoff"), W.nsym("nr"), fp])
    W.compare_trees(chk, "C02.W2", "writePotentials('DL_POLY')", I2, W.out_tree(fp), expect, opts)

    # R1: the raise
    site = P.func("atsim.potentials._dlpoly_writeTABLE", "writePotentials").site()
    hits = []
    wrote_before = []
    meta = getattr(I, "raise_meta", [])
    for idx, (conds, exc, node) in enumerate(I.raises):
        if len(conds) >= 1:
            x = mod4_cond(conds[-1][0]) if conds[-1][1] else None
            if x is not None and ep.equal(x, ep.sym("nr"))[0]:
                hits.append((conds, exc, node))
                wrote_before.append(meta[idx]["file_writes"] if idx < len(meta) else None)
    chk.ob("C02.R1", "write() raises when nr mod 4 != 0", bool(hits), site=site, found=[(c, e) for c, e, n in I.raises],
           expect="raise under (nr mod 4 != 0)", key="C02.R1|raise-mod4")
    chk.ob("C02.R1", "nothing has been written to the output stream when the row count is refused", bool(hits) and all(w == 0 for w in wrote_before),
           site=site, found="%s write(s) to the stream before the raise" % wrote_before, expect="0 writes before the raise",
           key="C02.R1|nothing-written-before")
    # the raise must precede emission: the guard is a standing assumption of every write in the block
    ok = any(mod4_cond(c) is not None and v is False for c, v in I.sticky_conds)
    chk.ob("C02.R1", "the modulus guard dominates every record emission (standing assumption of the remaining block)", ok, site=site,
           found=I.sticky_conds, expect="(nr mod 4 != 0) assumed false for all following statements", key="C02.R1|dominates")

    # factory route, for both documented spellings of the target
    for spelling in ("DLPOLY", "DL_POLY"):
        resolved = W.resolve_target(P, spelling)
        r = W.factory_route(chk, P, "C02.F", resolved, "DLPoly_PairTabulation", label=spelling)
        if r is None:
            continue
        If, tab = r
        cfgexc = P.cls("atsim.potentials.config._common", "ConfigurationException")
        hit = False
        for conds, exc, node in If.raises:
            x = mod4_cond(conds[-1][0]) if (conds and conds[-1][1]) else None
            if x is not None and isinstance(exc.cls, ClassV) and exc.cls.ci.is_subclass_of(cfgexc):
                hit = True
        chk.ob("C02.R2", "target %r: factory raises ConfigurationException under nr mod 4 != 0" % spelling, hit,
               site="%s TABULATION_FACTORIES[%r]" % (P.module("atsim.potentials.config._tabulation_factories").relpath, resolved),
               found=[(c, e) for c, e, n in If.raises], expect="raise ConfigurationException under (nr mod 4 != 0)",
               key="C02.R2|factory-mod4|%s" % spelling)
    # D: the force records are -r dV/dr "of the same function": analytic derivatives offered by package-built functions are
    # the derivatives of their values (the rule groups of C07, evaluated here on this tree)
    from ..report import RuleView
    from . import c07
    from .. import formrules as F7
    chk.rule("C02.D", "analytic derivatives offered by package-built potential functions are d/dr of their value", 60)
    view = RuleView(chk, "C02.D")
    for label, fn in (("D/forms", c07.builtin_forms), ("D/combinators", c07.combinators), ("D/combinators-all", c07.combinators_all_presences),
                      ("D/trans", c07.trans), ("D/multirange", c07.multirange), ("D/splines", lambda c, p: c07.splines(c, p, "C07.O6"))):
        chk.attempt(label, lambda fn=fn: fn(view, P))
    W.path_state_rule(chk, P, "C02.S", "DL_POLY TABLE write and build path")
    chk.assume("floating-point rounding of k*delpot versus the accumulated sum is not decided")
    chk.assume("an empty potential list skips the Python-API modulus check (no block is written)")


def synonym_obligation(chk, P, rule, given, canonical):
    """the configuration layer maps the synonym to the canonical target (read through ConfigParser.tabulation.target)"""
    try:
        got = W.resolve_target(P, given)
    except AnalysisError as e:
        got = str(e)
    site = P.module("atsim.potentials.config._config_parser").relpath + " _TabulationSection"
    chk.ob(rule, "target %r is accepted as a synonym of %r" % (given, canonical), got == canonical, site=site,
           found=got, expect=canonical, key="%s|synonym|%s" % (rule, given))

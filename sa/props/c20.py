"""C20 - each interaction/form is defined at most once (DESIGN.md section 4, C20)."""
import ast
from .. import ep
from ..model import AnalysisError
from ..values import *     # noqa
from ..symeval import RaiseSignal
from ..symeval_ops import ExcV, NTV, PyObjV
from .. import formrules as F
from .. import writerules as W
from .. import cfgmodel as M
from .c14 import parse, normaliser, CP

EXPLANATION = (
    "Duplicate detection is decided on every kind of duplication named in the property. INI-level duplicates (same key, "
    "whitespace variants of 'A-B', 'A->B', 'f(r,A)', repeated section headers) are evaluated on the repository's real "
    "_RawConfigParser overrides over a model of configparser's strict base class, whose duplicate check sees keys through the "
    "optionxform hook; that hook is additionally proved equal to the section dictionary's transform for every key. Reversed "
    "pairs and table-form header variants go through the constructor's own checks; name clashes between table forms, custom "
    "formulas and built-in forms are decided by abstract evaluation of Potential_Form_Registry's construction on each clash "
    "pattern (in either declaration role); repeated A->B densities by the Finnis-Sinclair builder.")


def run(chk):
    P = F.load_program()
    chk.explanation = EXPLANATION
    chk.info.update(P.stats())
    chk.rule("C20.O1", "INI-level duplicates, including whitespace variants of the key, are configuration errors", 10)
    chk.rule("C20.O1n", "the strict duplicate check sees normalised keys: optionxform == dictionary key transform", 4)
    chk.rule("C20.O2", "a pair given in both species orders and table forms whose names differ only in blanks are rejected; distinct ones accepted", 6)
    chk.rule("C20.O3", "a form label that is already registered (table form vs formula vs built-in form, any role) is rejected", 6)
    chk.rule("C20.O4", "a repeated A->B density is rejected", 1)
    chk.attempt("O1", lambda: ini_duplicates(chk, P))
    chk.attempt("O1n", lambda: normaliser(chk, P, "C20.O1n"))
    chk.attempt("O2", lambda: constructor_checks(chk, P))
    chk.attempt("O3", lambda: registry(chk, P))
    chk.attempt("O4", lambda: fs_duplicates(chk, P))
    chk.rule("C20.O5", "no accepted file gives one species (pair) two entries in a parsed view, for keys put together with the separators "
                       "the parser itself splits on", 6)
    chk.attempt("O5", lambda: view_uniqueness(chk, P))
    chk.assume("configparser contract: in strict mode a repeated section header raises DuplicateSectionError and an option whose "
               "optionxform()-ed key was already seen in that section raises DuplicateOptionError")


def _dup(P, exc):
    want = P.cls("atsim.potentials.config._common", "ConfigParserDuplicateEntryException")
    cfg = P.cls("atsim.potentials.config._common", "ConfigurationException")
    return isinstance(exc, ExcV) and isinstance(exc.cls, ClassV) and exc.cls.ci.is_subclass_of(want) and exc.cls.ci.is_subclass_of(cfg)


def ini_duplicates(chk, P):
    site = P.cls(CP, "ConfigParser").site_of("_init_config_parser")
    cases = [
        ("same pair key twice", "[Pair]\nA-B : as.zero\nA-B : as.constant 1\n"),
        ("'A-B' and 'A -B'", "[Pair]\nA-B : as.zero\nA -B : as.constant 1\n"),
        ("'A-B' and 'A\\t-\\tB'", "[Pair]\nA-B : as.zero\nA\t-\tB : as.constant 1\n"),
        ("'A->B' and 'A -> B'", "[EAM-Density]\nA->B : as.zero\nA -> B : as.constant 1\n"),
        ("'f(r,A)' and 'f(r, A)'", "[Potential-Form]\nf(r,A) = r\nf(r, A) = 2*r\n"),
        ("'f(r,A)' and 'f( r ,\\tA )'", "[Potential-Form]\nf(r,A) = r\nf( r ,\tA ) = 2*r\n"),
        ("embedding function given twice", "[EAM-Embed]\nAl : as.zero\nAl : as.constant 1\n"),
        ("[Pair] section given twice", "[Pair]\nA-B : as.zero\n[Pair]\nC-D : as.zero\n"),
        ("[Table-Form:t] given twice", "[Table-Form:t]\nx : 1 2\ny : 1 2\n[Table-Form:t]\nx : 1 2\ny : 1 2\n"),
        ("variable given twice", "[Variables]\nq : 1\nq : 2\n[Pair]\nA-B : as.zero\n"),
    ]
    for what, text in cases:
        out = parse(P, text)
        ok = out[0] == "raise" and _dup(P, out[1])
        chk.ob("C20.O1", "%s is rejected as a duplicate entry" % what, ok, site=site, found=out[1] if out[0] == "raise" else "accepted: %s" % (out[1],),
               expect="ConfigParserDuplicateEntryException", key="C20.O1|%s" % what)
    # a second definition supplied as an added item (ConfigParser(additional=) / potable --add-item), spelt with other blanks
    base = "[Pair]\nO-U : as.constant 1\n[EAM-Density]\nAl->Cu : as.constant 1\n[Potential-Form]\nf(r,A) = r\n"
    for what, add in (("added item 'Pair:O - U' repeating 'O-U'", ("Pair", "O - U", "as.constant 2")),
                      ("added item 'EAM-Density:Al -> Cu' repeating 'Al->Cu'", ("EAM-Density", "Al -> Cu", "as.constant 2")),
                      ("added item 'Potential-Form:f(r, A)' repeating 'f(r,A)'", ("Potential-Form", "f(r, A)", "2*r")),
                      ("added item 'Pair:O-U' repeating it verbatim", ("Pair", "O-U", "as.constant 2"))):
        out = parse(P, base, additional=[add])
        ok = out[0] == "raise" and isinstance(out[1], ExcV) and isinstance(out[1].cls, ClassV) \
            and out[1].cls.ci.is_subclass_of(P.cls("atsim.potentials.config._common", "ConfigurationException"))
        chk.ob("C20.O1", "%s is rejected, not silently substituted" % what, ok, site=site,
               found=out[1] if out[0] == "raise" else "accepted: %s" % (out[1].get(add[0]),), expect="configuration error",
               key="C20.O1|%s" % what)
    # the same new item supplied twice among the added items
    for what, adds in (("Pair:Na-Cl added twice", [("Pair", "Na-Cl", "as.constant 1"), ("Pair", "Na-Cl", "as.constant 2")]),
                       ("Pair:Na-Cl and Pair:'Na - Cl' added", [("Pair", "Na-Cl", "as.constant 1"), ("Pair", "Na - Cl", "as.constant 2")]),
                       ("EAM-Density:Al->Fe and 'Al -> Fe' added", [("EAM-Density", "Al->Fe", "as.constant 1"), ("EAM-Density", "Al -> Fe", "as.constant 2")]),
                       ("Potential-Form:g(r,A) and 'g(r, A)' added", [("Potential-Form", "g(r,A)", "r"), ("Potential-Form", "g(r, A)", "2*r")])):
        out = parse(P, base, additional=adds)
        ok = out[0] == "raise" and isinstance(out[1], ExcV) and isinstance(out[1].cls, ClassV) \
            and out[1].cls.ci.is_subclass_of(P.cls("atsim.potentials.config._common", "ConfigurationException"))
        chk.ob("C20.O1", "%s: the repeat is rejected, the later value does not silently replace the earlier" % what, ok, site=site,
               found=out[1] if out[0] == "raise" else "accepted: %s" % (out[1].get(adds[0][0]),), expect="configuration error",
               key="C20.O1|%s" % what)
    out = parse(P, "[Pair]\nA-B : as.zero\nA-C : as.zero\n[EAM-Density]\nA->B : as.zero\nB->A : as.zero\n[Potential-Form]\nf(r,A) = r\ng(r,A) = r\n")
    chk.ob("C20.O1", "distinct keys are accepted", out[0] == "ok", site=site, found=out[1] if out[0] != "ok" else None, expect="accepted",
           key="C20.O1|distinct-accepted")


def constructor_checks(chk, P):
    cls = P.cls(CP, "ConfigParser")
    for what, text, dup in (
            ("pair in both species orders", "[Pair]\nA-B : as.zero\nB-A : as.zero\n", True),
            ("pair in both orders with blanks", "[Pair]\nA-B : as.zero\nB - A : as.zero\n", True),
            ("pair in both species orders, the unsorted spelling first", "[Pair]\nB-A : as.zero\nA-B : as.zero\n", True),
            ("pair in both species orders, among other pairs", "[Pair]\nC-D : as.zero\nU-O : as.zero\nA-B : as.zero\nO-U : as.zero\n", True),
            ("pair of multi-character species in both orders", "[Pair]\nNa-Cl : as.zero\nCl-Na : as.zero\n", True),
            ("pair of species of different lengths in both orders", "[Pair]\nO-Zr : as.zero\nAl-O : as.zero\nZr - O : as.zero\n", True),
            ("pair of species that differ by case only, in both orders", "[Pair]\nO-o : as.zero\nU-U : as.zero\no-O : as.zero\n", True),
            ("pair of species whose order changes under case folding, in both orders", "[Pair]\nb-C : as.zero\nC-b : as.zero\n", True),
            ("pairs that differ in the case of a species label only", "[Pair]\nO-U : as.zero\no-U : as.zero\n", False),
            ("pairs that are each other's mirror image as text only", "[Pair]\nNa-Cl : as.zero\nlC-aN : as.zero\n", False),
            ("three distinct pairs", "[Pair]\nB-A : as.zero\nC-A : as.zero\nC-B : as.zero\n", False),
            ("like-species pair once", "[Pair]\nA-A : as.zero\nA-B : as.zero\n", False),
            ("'Table-Form:t ' and 'Table-Form: t'", "[Table-Form:t ]\nx : 1 2\ny : 1 2\n[Table-Form: t]\nx : 1 2\ny : 1 2\n", True),
            ("'Table-Form:t' and 'Table-Form:u'", "[Table-Form:t]\nx : 1 2\ny : 1 2\n[Table-Form:u]\nx : 1 2\ny : 1 2\n", False),
            ("'Table-Form:t', 'Table-Form:u', then 'Table-Form: t ' (another table form between the two spellings)",
             "[Table-Form:t]\nx : 1 2\ny : 1 2\n[Table-Form:u]\nx : 1 2\ny : 1 2\n[Table-Form: t ]\nx : 1 2\ny : 1 2\n", True),
            ("three table forms, the first and the last differing only in blanks, given in the order u, ' t', t",
             "[Table-Form:u]\nx : 1 2\ny : 1 2\n[Table-Form: t]\nx : 1 2\ny : 1 2\n[Pair]\nA-B : as.zero\n[Table-Form:t]\nx : 1 2\ny : 1 2\n", True),
            ("no [Pair] section at all", "[Tabulation]\ntarget : GULP\n", False)):
        out = parse(P, text)
        ok = (out[0] == "raise" and _dup(P, out[1])) if dup else out[0] == "ok"
        chk.ob("C20.O2", "%s is %s" % (what, "rejected as a duplicate" if dup else "accepted"), ok,
               site=cls.site_of("_check_for_duplicates"), found=out[1] if out[0] == "raise" else "accepted",
               expect="ConfigParserDuplicateEntryException" if dup else "accepted", key="C20.O2|%s" % what)


class Cfg(object):
    """the two properties of ConfigParser the registry reads"""
    def __init__(self, tables, forms, missing=False):
        self.tables = tables
        self.forms = forms
        self.missing = missing

    def get_table_form(self, I):
        return self.tables

    def get_potential_form(self, I):
        if self.missing:
            ci = I.p.cls("atsim.potentials.config._common", "ConfigParserMissingSectionException")
            raise RaiseSignal(ExcV(ClassV(ci), []), None)
        return self.forms


def registry(chk, P):
    from .c06 import _form_tuple_hook
    reg = P.cls("atsim.potentials.config._potential_form_registry", "Potential_Form_Registry")
    rexc = P.cls("atsim.potentials.config._common", "Potential_Form_Registry_Exception")
    cfg = P.cls("atsim.potentials.config._common", "ConfigurationException")
    site = reg.site_of("__init__")

    def attempt(tables, forms):
        I = F.make_interp(P)
        M.install_cexprtk(I)
        I.hooks["atsim.potentials.config._common:make_potential_form_tuple_from_function"] = _form_tuple_hook(P)
        mod = P.module("atsim.potentials.config._common")
        tt = I.module_global(mod, "TableFormTuple")
        pft = I.module_global(mod, "PotentialFormTuple")
        sig = I.module_global(mod, "PotentialFormSignatureTuple")
        tl = ListV([I.call(tt, [Const(n), Const("cubic_spline"), ListV([Num(ep.const(i + 1)) for i in range(6)], "list"), ListV([Num(ep.sym("y_%s_%d" % (n, i))) for i in range(6)], "list")], {}) for n in tables], "list")
        fl = ListV([I.call(pft, [I.call(sig, [Const(n), ListV([Const("r")], "list"), FALSE], {}), Const("r")], {}) for n in forms], "list")
        try:
            I.instantiate(reg, [PyObjV(Cfg(tl, fl))], {"register_standard": TRUE, "register_pymath_functions": TRUE}, None)
            return "accepted"
        except RaiseSignal as e:
            return e.exc
    cases = [
        ("table form named like a built-in form (as.buck)", ["as.buck"], [], True),
        ("table form named like a form that exists only as a factory (as.buck4)", ["as.buck4"], [], True),
        ("table form and formula with the same name", ["foo"], ["foo"], True),
        ("two formulas with the same label", [], ["foo", "foo"], True),
        ("distinct table form and formula", ["tab"], ["foo"], False),
        ("no user forms at all", [], [], False),
    ]
    for what, tables, forms, clash in cases:
        out = attempt(tables, forms)
        if clash:
            ok = isinstance(out, ExcV) and isinstance(out.cls, ClassV) and out.cls.ci.is_subclass_of(cfg)
            exp = "configuration error naming the label"
        else:
            ok = out == "accepted"
            exp = "accepted"
        chk.ob("C20.O3", "%s is %s" % (what, "rejected" if clash else "accepted"), ok, site=site, found=out, expect=exp, key="C20.O3|%s" % what)


def _mined_separators(P):
    """the text constants the configuration parser splits keys or values on (str.split / re.split / partition with a literal)"""
    m = P.module("atsim.potentials.config._config_parser")
    seps = set()
    splitters = {}       # function name -> (index of the parameter that is used as a separator, its name)
    for fn in ast.walk(m.tree):
        if not isinstance(fn, ast.FunctionDef):
            continue
        params = [a.arg for a in fn.args.args]
        for n in ast.walk(fn):
            if isinstance(n, ast.Call) and isinstance(n.func, ast.Attribute) and n.func.attr in ("split", "rsplit", "partition", "rpartition") and n.args:
                a0 = n.args[0]
                if isinstance(a0, ast.Constant) and isinstance(a0.value, str) and a0.value.strip():
                    seps.add(a0.value)
                elif isinstance(a0, ast.Name) and a0.id in params:
                    splitters[fn.name] = (params.index(a0.id), a0.id)
    # a helper that splits on one of its parameters: the text constants its callers pass for that parameter
    for n in ast.walk(m.tree):
        if isinstance(n, ast.Call):
            nm = n.func.attr if isinstance(n.func, ast.Attribute) else (n.func.id if isinstance(n.func, ast.Name) else None)
            if nm in splitters:
                idx, pname = splitters[nm]
                for off in (0, 1):          # called as a function or as a method (self not among the call's arguments)
                    j = idx - off
                    arg = n.args[j] if 0 <= j < len(n.args) else None
                    if isinstance(arg, ast.Constant) and isinstance(arg.value, str) and arg.value.strip():
                        seps.add(arg.value)
                for k in n.keywords:
                    if k.arg == pname and isinstance(k.value, ast.Constant) and isinstance(k.value.value, str) and k.value.value.strip():
                        seps.add(k.value.value)
    return sorted(seps)


def view_uniqueness(chk, P):
    """the guarantee 'at most one definition per species' rests on one parsed entry per key of the section (the INI parser then
    refuses repeated keys).  Keys that the parser's own split constants would cut into several labels are the inputs on which
    that could fail: for each such separator a file with a key 'Al<sep>Cu' next to a key 'Cu' must be refused or give views
    without repeated species"""
    from .c14 import parse
    cls = P.cls("atsim.potentials.config._config_parser", "ConfigParser")
    seps = _mined_separators(P)
    if len(seps) < 3:
        raise AnalysisError("only %d split constants found in the configuration parser (4 confirmed by reading)" % len(seps))
    for sep in seps:
        for pad in ("", " "):
            j = pad + sep + pad if pad else sep
            texts = {
                "eam_embed": "[EAM-Embed]\nAl%sCu : as.zero\nCu : as.zero\n" % j,
                "eam_density": "[EAM-Density]\nAl%sCu : as.zero\nCu : as.zero\n" % j,
                "pair": "[Pair]\nAl-Al%sCu-Cu : as.zero\nCu-Cu : as.zero\n" % j,
            }
            for view, text in texts.items():
                out = parse(P, text)
                got = None
                if out[0] == "ok":
                    I, cp = out[3], out[4]
                    try:
                        rows = I.as_iterable(I.getattr(cp, view)).items
                        got = [repr(I.getattr(r_, "species").key()) for r_ in rows]
                    except RaiseSignal as e:
                        got = None
                ok = got is None or len(set(got)) == len(got)
                chk.ob("C20.O5", "%s with the keys %r and %r: refused, or no species defined twice" % (view, text.split("\n")[1].split(" : ")[0],
                       text.split("\n")[2].split(" : ")[0]), ok, site=cls.lookup(view).site(), found=got, expect="distinct species",
                       key="C20.O5|%s|%r" % (view, j))


def fs_duplicates(chk, P):
    from .. import eamrules as E
    ci = P.cls(E.BUILDER_MOD, "EAM_Potential_Builder_FS")
    o = E.build(P, W.make_interp, True, [("Fe", W.param("F_Fe")), ("Al", W.param("F_Al"))],
                [(("Fe", "Al"), W.param("d1")), (("Al", "Fe"), W.param("d2")), (("Fe", "Al"), W.param("d3"))])
    out = o[2] if o[1] == "raise" else "accepted"
    chk.ob("C20.O4", "a repeated Fe->Al density (after an Al->Fe one) is a configuration error", o[1] == "raise" and E.is_config_error(P, o[2]),
           site=ci.site_of("eam_potentials"), found=out, expect="ConfigurationException", key="C20.O4|fs-repeat")


"""C03 - setfl (eam/alloy) (DESIGN.md section 4, C03)."""
from .. import ep
from ..model import AnalysisError
from ..values import *     # noqa
from ..strtree import *    # noqa
from ..symeval import RaiseSignal
from ..symeval_ops import ExcV, NTV
from .. import writerules as W

EXPLANATION = (
    "SetFL_EAMTabulation.write and the public writeSetFL are translated into output-expression trees and compared with the "
    "reference writer spec.writers.setfl / setfl_api (header with every element once, per element metadata + Nrho values "
    "F(i*drho) + Nr values rho(i*dr), then for (i, j<=i) Nr values r*phi(r) with an order-insensitive lookup and zero when "
    "undeclared). The potable route is followed through TABULATION_FACTORIES and the target synonyms; the EAM builder's "
    "constructor binding, the metadata defaults (0.0, fcc) and the precedence of [Species] data over the built-in table are "
    "decided by abstract evaluation of the builder and of Reference_Data.get.")


def run(chk):
    P = W.load_program()
    chk.explanation = EXPLANATION
    chk.info.update(P.stats())
    chk.rule("C03.W1", "SetFL_EAMTabulation.write(fp) emits exactly the reference setfl file", 25)
    chk.rule("C03.W2", "writeSetFL(nrho, drho, nr, dr, eampots, pairpots, out) emits the reference setfl file", 25)
    chk.rule("C03.F", "potable route: setfl / lammps_eam_alloy / LAMMPS_eam_alloy build SetFL_EAMTabulation with the parser's grids", 21)
    chk.rule("C03.B", "EAM builder: EAMPotential(species, number, mass, embed, density, lattice constant, lattice type) bound by role; "
                       "missing mass/number is a configuration error; lattice defaults 0.0 / fcc", 9)
    chk.rule("C03.R", "Reference_Data.get: [Species] data override the built-in element table; unknown species/property raise", 5)

    chk.rule("C03.H", "lines 1-3 of the file are comment lines for any list of comment strings (shorter lists padded, longer ones cut)", 5)
    chk.attempt("H", lambda: W.setfl_comment_lines(chk, "C03.H", P, "writeSetFL"))
    chk.attempt("W1", lambda: W.eam_class_vs_spec(chk, "C03.W1", P, "SetFL_EAMTabulation", "setfl"))
    chk.attempt("W2", lambda: W.eam_api_vs_spec(chk, "C03.W2", P, "atsim.potentials._lammpsWriteEAM", "writeSetFL", "setfl_api"))
    for target in ("setfl", "lammps_eam_alloy", "LAMMPS_eam_alloy"):
        chk.attempt("F/" + target, lambda: W.factory_route(chk, P, "C03.F", W.resolve_target(P, target), "SetFL_EAMTabulation",
                                                           eam=True, label=target))
    chk.attempt("B", lambda: builder_obligations(chk, P, "C03.B"))
    chk.attempt("R", lambda: reference_data_obligations(chk, P, "C03.R"))
    W.path_state_rule(chk, P, "C03.S", "setfl write and build path")
    chk.assume("the header's cutoff field (line 5, last number) is not constrained by the property")
    chk.assume("floating-point rounding of i*drho, i*dr and r*phi(r) is not decided")
    chk.assume("species labels of the eam potential list are distinct (builder iterates dictionary keys: obligation B)")


def builder_obligations(chk, P, rule, fs=False):
    """EAM_Potential_Builder(cp, forms, modifiers, reference_data=rd).eam_potentials on a one-species model (sa/eamrules.py)"""
    from .. import eamrules as E
    ci = P.cls(E.BUILDER_MOD, "EAM_Potential_Builder_FS" if fs else "EAM_Potential_Builder")
    site = ci.site_of("eam_potentials")
    sp = Const("Xx")
    embed = [("Xx", W.param("F_Xx"))]
    dens = [("Xx", W.param("rho_Xx"))]
    out = E.build(P, W.make_interp, False, embed, dens)
    if out[1] != "ok" or "Xx" not in out[2]:
        chk.ob(rule, "a one-species EAM model builds one EAMPotential", False, site=site, found=out[2] if out[1] == "raise" else out[3],
               expect="EAMPotential(Xx)", key="%s|ctor|builds" % rule)
        return
    I, pot = out[0], out[2]["Xx"]
    want = {"species": sp, "atomicNumber": E.refvalue(sp, "atomic_number"), "mass": E.refvalue(sp, "atomic_mass"),
            "embeddingFunction": E.built(W.param("F_Xx")), "electronDensityFunction": E.built(W.param("rho_Xx")),
            "latticeConstant": E.refvalue(sp, "lattice_constant"), "latticeType": E.refvalue(sp, "lattice_type")}
    for attr, w in want.items():
        got = I.getattr(pot, attr)
        ok = got is not None and got.key() == w.key()
        chk.ob(rule, "EAMPotential.%s receives %s" % (attr, w), ok, site=site, found=got, expect=w, key="%s|ctor|%s" % (rule, attr))

    # the Python API's own defaults
    ecls = P.cls("atsim.potentials._eam_potential", "EAMPotential")
    I3 = W.make_interp(P)
    e = I3.instantiate(ecls, [Const("Xx"), W.nsym("Z"), W.nsym("m"), W.param("F_Xx"), W.param("rho_Xx")], {}, None)
    lc, lt = I3.getattr(e, "latticeConstant"), I3.getattr(e, "latticeType")
    chk.ob(rule, "EAMPotential(species, number, mass, embed, density) without lattice data has the documented defaults 0.0 / 'fcc'",
           isinstance(lc, Num) and lc.const() == 0 and isinstance(lt, Const) and lt.v == "fcc", site=ecls.site_of("__init__"),
           found=(lc, lt), expect="(0.0, 'fcc')", key="%s|api-defaults" % rule)

    # reference data without an entry
    for prop, attr, expect in (("atomic_mass", "mass", "config-error"), ("atomic_number", "atomicNumber", "config-error"),
                               ("lattice_constant", "latticeConstant", 0), ("lattice_type", "latticeType", "fcc")):
        o = E.build(P, W.make_interp, False, embed, dens, missing=(prop,))
        if expect == "config-error":
            ok = o[1] == "raise" and E.is_config_error(P, o[2])
            found = o[2] if o[1] == "raise" else "accepted"
            exp = "raise ConfigurationException"
        else:
            found = o[0].getattr(o[2]["Xx"], attr) if o[1] == "ok" and "Xx" in o[2] else o[2]
            if expect == 0:
                ok = isinstance(found, Num) and found.const() == 0
                exp = "0.0 (documented default)"
            else:
                ok = isinstance(found, Const) and found.v == "fcc"
                exp = "'fcc' (documented default)"
        chk.ob(rule, "EAMPotential.%s when the reference data has no %s for the species" % (attr, prop), ok, site=site, found=found,
               expect=exp, key="%s|missing|%s" % (rule, prop))


def reference_data_obligations(chk, P, rule):
    mod = "atsim.potentials.referencedata._reference_data"
    ci = P.cls(mod, "Reference_Data")
    site = ci.site_of("get")
    I = W.make_interp(P)
    extra = DictV()
    al = DictV()
    al.items[Const("atomic_mass").key()] = (Const("atomic_mass"), W.nsym("m_override"))
    al.items[Const("lattice_type").key()] = (Const("lattice_type"), Const("bcc"))
    extra.items[Const("Al").key()] = (Const("Al"), al)
    zz = DictV()
    zz.items[Const("atomic_mass").key()] = (Const("atomic_mass"), W.nsym("m_zz"))
    extra.items[Const("Zz").key()] = (Const("Zz"), zz)
    rd = I.instantiate(ci, [extra], {}, None)

    def get(species, prop):
        try:
            return W.run_method(I, rd, "get", [Const(species), Const(prop)])
        except RaiseSignal as e:
            return e.exc

    v = get("Al", "atomic_mass")
    chk.ob(rule, "[Species] value overrides the built-in table", isinstance(v, Num) and ep.equal(v.rf, ep.sym("m_override"))[0],
           site=site, found=v, expect="m_override", key=rule + "|override")
    v = get("Al", "atomic_number")
    chk.ob(rule, "properties not overridden come from the built-in table", isinstance(v, Num) and v.const() == 13, site=site, found=v,
           expect=13, key=rule + "|builtin")
    v = get("Al", "lattice_type")
    chk.ob(rule, "extra properties are available for built-in species", isinstance(v, Const) and v.v == "bcc", site=site, found=v,
           expect="bcc", key=rule + "|extra-prop")
    v = get("Zz", "atomic_mass")
    chk.ob(rule, "species only in [Species] are found", isinstance(v, Num) and ep.equal(v.rf, ep.sym("m_zz"))[0], site=site, found=v,
           expect="m_zz", key=rule + "|extra-species")
    rde = P.cls(mod, "Reference_Data_Exception")
    for sp, prop, what in (("Qq", "atomic_mass", "unknown species"), ("Al", "lattice_constant", "unknown property")):
        v = get(sp, prop)
        ok = isinstance(v, ExcV) and isinstance(v.cls, ClassV) and v.cls.ci.is_subclass_of(rde)
        chk.ob(rule, "%s raises a Reference_Data_Exception" % what, ok, site=site, found=v, expect="Reference_Data_Exception",
               key=rule + "|raise|" + what)

"""C01 - LAMMPS pair table faithful (DESIGN.md section 4, C01)."""
from .. import ep
from ..model import AnalysisError
from ..values import *     # noqa
from ..strtree import *    # noqa
from ..symeval_ops import NTV
from .. import writerules as W

EXPLANATION = (
    "The LAMMPS write path (tabulation class, writePotentials('LAMMPS'), TABULATION_FACTORIES['LAMMPS']) is translated "
    "by the symbolic evaluator into an output-expression tree (literals, formatted fields with normal-form values, "
    "repetitions with symbolic trip counts) and compared piece by piece with the tree of the reference writer "
    "spec.writers.lammps_pair_table, which transcribes the property statement. Equality of field values is algebraic "
    "(exact rational normal forms), so it holds for every cutoff, nr and potential list. The body of gradient()/num_deriv() "
    "is checked separately (analytic iff .deriv, else central difference).")


def run(chk):
    P = W.load_program()
    chk.explanation = EXPLANATION
    chk.info.update(P.stats())
    chk.rule("C01.W1", "LAMMPS_PairTabulation.write(fp) emits exactly the reference table (blocks, header, rows, E and -dE/dr)", 10)
    chk.rule("C01.W2", "writePotentials('LAMMPS', ...) emits the same table", 10)
    chk.rule("C01.F", "potable route: TABULATION_FACTORIES['LAMMPS'] builds LAMMPS_PairTabulation(potentials, cutoff, nr)", 4)
    chk.rule("C01.P", "Potential.energy/force are f(r) and -gradient(f)(r)", 2)
    for r in ("G1", "G2", "G3", "G4", "G5"):
        chk.rule("C01." + r, "gradient()/num_deriv() body", 1)
    chk.rule("C01.G6", "finite-difference step defaults", 4)

    elem = {("param", "potentials"): W.POT}
    _, expect = W.spec_output(P, "lammps_pair_table", [W.param("potentials"), W.nsym("cutoff"), W.nsym("nr")])

    # W1: tabulation class
    I, found = W.tabulation_output(P, "LAMMPS_PairTabulation", elem)
    W.compare_trees(chk, "C01.W1", "LAMMPS_PairTabulation.write", I, found, expect)
    W.second_write(chk, "C01.W1", "LAMMPS_PairTabulation.write", I, expect)
    calls = I.call_sites

    # W2: writePotentials('LAMMPS', potentialList, cutoff, gridPoints, out)
    I2 = W.make_interp(P, elem={("param", "potentials"): W.POT})
    fp = BufV("fp", is_file=True)
    I2.run(P.func("atsim.potentials", "writePotentials"),
           [Const("LAMMPS"), W.param("potentials"), W.nsym("cutoff"), W.nsym("nr"), fp])
    W.compare_trees(chk, "C01.W2", "writePotentials('LAMMPS')", I2, W.out_tree(fp), expect)

    # F: factory route
    W.factory_route(chk, P, "C01.F", "LAMMPS", "LAMMPS_PairTabulation", min_nr=3)

    # P: Potential.energy / force
    I3 = W.make_interp(P)
    pot = I3.opaque_instance(P.cls(*W.POT), ("param", "pot"))
    r = W.nsym("r")
    e = I3.num(W.run_method(I3, pot, "energy", [r]))
    f = I3.num(W.run_method(I3, pot, "force", [r]))
    pf = ("attr", ("param", "pot"), "potentialFunction")
    site = P.func("atsim.potentials._potential", "Potential.energy").site()
    chk.ob("C01.P", "Potential.energy(r) = potentialFunction(r)", ep.equal(e, ep.app(pf, [r.rf]))[0], site=site, found=e,
           expect=ep.app(pf, [r.rf]), key="C01.P|Potential.energy")
    site = P.func("atsim.potentials._potential", "Potential.force").site()
    want = -ep.app(pf, [r.rf], dorder=1)
    chk.ob("C01.P", "Potential.force(r) = -d/dr potentialFunction(r)", ep.equal(f, want)[0], site=site, found=f, expect=want,
           key="C01.P|Potential.force")

    W.gradient_obligations(chk, P, rule="C01.G")

    # D: "the force is minus the derivative of that same energy function": whenever a potential function the package itself
    # builds for a model (forms, sum/product/pow, trans, multi-range, splines) offers an analytic .deriv, gradient() uses it,
    # so it has to be the derivative of the value that lands in the energy column (the rule groups of C07, evaluated here)
    from ..report import RuleView
    from . import c07
    chk.rule("C01.D", "analytic derivatives offered by package-built potential functions are d/dr of their value", 60)
    view = RuleView(chk, "C01.D")
    for label, fn in (("D/forms", c07.builtin_forms), ("D/combinators", c07.combinators), ("D/combinators-all", c07.combinators_all_presences),
                      ("D/trans", c07.trans), ("D/multirange", c07.multirange), ("D/splines", lambda c, p: c07.splines(c, p, "C07.O6")),
                      ("D/tableforms", lambda c, p: c07.tableform_derivs(c, p, "C07.O7"))):
        chk.attempt(label, lambda fn=fn: fn(view, P))

    chk.info["call_sites_resolved"] = calls + I2.call_sites
    chk.info["functions_inlined"] = sorted(I.inlined | I2.inlined)
    W.path_state_rule(chk, P, "C01.S", "LAMMPS write and build path")
    chk.assume("floating-point rounding of r and of the printed %.8f fields is not decided")
    chk.assume("a user callable's own .deriv is the derivative of its value (decided for the repository's forms by C07)")
    chk.assume("accuracy of the central-difference fallback beyond the step-size bound G6 is not decided")



"""C01 - LAMMPS pair table faithful (DESIGN.md section 4, C01)."""
from .. import ep
from ..model import AnalysisError
from ..values import *     # noqa
from ..strtree import *    # noqa
from ..symeval_ops import NTV
from .. import writerules as W

EXPLANATION = (
    "The LAMMPS write path (tabulation class, writePotentials('LAMMPS'), TABULATION_FACTORIES['LAMMPS']) is translated "
    "by the symbolic evaluator into an output-expression tree (literals, formatted fields with normal-form values, "
    "repetitions with symbolic trip counts) and compared piece by piece with the tree of the reference writer "
    "spec.writers.lammps_pair_table, which transcribes the property statement. Equality of field values is algebraic "
    "(exact rational normal forms), so it holds for every cutoff, nr and potential list. The body of gradient()/num_deriv() "
    "is checked separately (analytic iff .deriv, else central difference).")


def tabulation_output(P, clsname, elem, extra=()):
    I = W.make_interp(P, elem=elem)
    cls = P.cls("atsim.potentials.pair_tabulation", clsname)
    inst = I.instantiate(cls, [W.param("potentials"), W.nsym("cutoff"), W.nsym("nr")], {}, None)
    fp = BufV("fp", is_file=True)
    W.run_method(I, inst, "write", [fp])
    return I, W.out_tree(fp)


def spec_output(P, name, args):
    J = W.make_interp(P)
    fp = BufV("fp", is_file=True)
    J.run(P.func("spec.writers", name), list(args) + [fp])
    return J, W.out_tree(fp)


def run(chk):
    P = W.load_program()
    chk.explanation = EXPLANATION
    chk.info.update(P.stats())
    chk.rule("C01.W1", "LAMMPS_PairTabulation.write(fp) emits exactly the reference table (blocks, header, rows, E and -dE/dr)", 10)
    chk.rule("C01.W2", "writePotentials('LAMMPS', ...) emits the same table", 10)
    chk.rule("C01.F", "potable route: TABULATION_FACTORIES['LAMMPS'] builds LAMMPS_PairTabulation(potentials, cutoff, nr)", 4)
    chk.rule("C01.P", "Potential.energy/force are f(r) and -gradient(f)(r)", 2)
    for r in ("G1", "G2", "G3", "G4", "G5"):
        chk.rule("C01." + r, "gradient()/num_deriv() body", 1)
    chk.rule("C01.G6", "finite-difference step defaults", 4)

    elem = {("param", "potentials"): W.POT}
    _, expect = spec_output(P, "lammps_pair_table", [W.param("potentials"), W.nsym("cutoff"), W.nsym("nr")])

    # W1: tabulation class
    I, found = tabulation_output(P, "LAMMPS_PairTabulation", elem)
    W.compare_trees(chk, "C01.W1", "LAMMPS_PairTabulation.write", I, found, expect)
    calls = I.call_sites

    # W2: writePotentials('LAMMPS', potentialList, cutoff, gridPoints, out)
    I2 = W.make_interp(P, elem={("param", "potentials"): W.POT})
    fp = BufV("fp", is_file=True)
    I2.run(P.func("atsim.potentials", "writePotentials"),
           [Const("LAMMPS"), W.param("potentials"), W.nsym("cutoff"), W.nsym("nr"), fp])
    W.compare_trees(chk, "C01.W2", "writePotentials('LAMMPS')", I2, W.out_tree(fp), expect)

    # F: factory route
    factory_route(chk, P, "C01.F", "LAMMPS", "LAMMPS_PairTabulation", min_nr=3)

    # P: Potential.energy / force
    I3 = W.make_interp(P)
    pot = I3.opaque_instance(P.cls(*W.POT), ("param", "pot"))
    r = W.nsym("r")
    e = I3.num(W.run_method(I3, pot, "energy", [r]))
    f = I3.num(W.run_method(I3, pot, "force", [r]))
    pf = ("attr", ("param", "pot"), "potentialFunction")
    site = P.func("atsim.potentials._potential", "Potential.energy").site()
    chk.ob("C01.P", "Potential.energy(r) = potentialFunction(r)", ep.equal(e, ep.app(pf, [r.rf]))[0], site=site, found=e,
           expect=ep.app(pf, [r.rf]), key="C01.P|Potential.energy")
    site = P.func("atsim.potentials._potential", "Potential.force").site()
    want = -ep.app(pf, [r.rf], dorder=1)
    chk.ob("C01.P", "Potential.force(r) = -d/dr potentialFunction(r)", ep.equal(f, want)[0], site=site, found=f, expect=want,
           key="C01.P|Potential.force")

    W.gradient_obligations(chk, P, rule="C01.G")

    chk.info["call_sites_resolved"] = calls + I2.call_sites
    chk.info["functions_inlined"] = sorted(I.inlined | I2.inlined)
    chk.assume("floating-point rounding of r and of the printed %.8f fields is not decided")
    chk.assume("a user callable's own .deriv is the derivative of its value (decided for the repository's forms by C07)")
    chk.assume("accuracy of the central-difference fallback beyond the step-size bound G6 is not decided")


def factory_route(chk, P, rule, target, clsname, min_nr=None, eam=False):
    """TABULATION_FACTORIES[target].create_tabulation(cp) -> instance of clsname with the parser's grid"""
    I = W.make_interp(P)
    mod = P.module("atsim.potentials.config._tabulation_factories")
    table = I.module_global(mod, "TABULATION_FACTORIES")
    if not isinstance(table, DictV):
        raise AnalysisError("TABULATION_FACTORIES is not a dict literal")
    k = Const(target).key()
    site = "%s TABULATION_FACTORIES" % mod.relpath
    if k not in table.items:
        chk.ob(rule, "target %r registered" % target, False, site=site, found=sorted(x.v for x, _ in table.items.values()),
               expect=target, key="%s|%s|registered" % (rule, target))
        return None
    fac = table.items[k][1]
    tc = I.getattr(fac, "tabulation_class")
    ok = isinstance(tc, ClassV) and tc.ci.name == clsname
    chk.ob(rule, "factory for %r instantiates %s" % (target, clsname), ok, site=site, found=tc, expect=clsname,
           key="%s|%s|class" % (rule, target))
    # run create_tabulation with an opaque parser; builders replaced by opaque results
    I.hooks["atsim.potentials.config._potential_form_registry:Potential_Form_Registry.__init__"] = lambda i, fv, a, k, n: NONE
    I.hooks["atsim.potentials.config._modifier_registry:Modifier_Registry.__init__"] = lambda i, fv, a, k, n: NONE
    I.hooks["atsim.potentials.config._tabulation_factories:_create_pair_objects"] = lambda i, fv, a, k, n: W.param("potentials")
    I.hooks["atsim.potentials.config._tabulation_factories:PairTabulationFactory._log_tabulation_details"] = lambda i, fv, a, k, n: NONE
    if eam:
        def eam_builder_init(i, fv, a, k, n):
            fv.selfv.attrs["_potlist"] = W.param("eam_potentials")
            return NONE
        I.hooks["atsim.potentials.config._eam_potential_builder:EAM_Potential_Builder.__init__"] = eam_builder_init
        I.hooks["atsim.potentials.config._tabulation_factories:EAMTabulationFactory._create_reference_data"] = \
            lambda i, fv, a, k, n: W.param("reference_data")
    cp = W.param("cp")
    tab = W.run_method(I, fac, "create_tabulation", [cp])
    if not isinstance(tab, InstV):
        raise AnalysisError("create_tabulation did not return an instance: %r" % (tab,))
    tabpath = ("attr", ("param", "cp"), "tabulation")

    def grid(attr, default):
        o = Opaque(("attr", tabpath, attr))
        return Phi(Cond("isnone", o), Num(ep.const(default)), o)

    checks = [("potentials", W.param("potentials")), ("cutoff", grid("cutoff", 10)), ("nr", grid("nr", 1001))]
    if eam:
        checks += [("eam_potentials", W.param("eam_potentials")), ("cutoff_rho", grid("cutoff_rho", 100)), ("nrho", grid("nrho", 1001))]
    from ..treecmp import Cmp
    c = Cmp(I)
    for attr, want in checks:
        got = I.getattr(tab, attr)
        ok = c.val_eq(got, want)
        chk.ob(rule, "%s tabulation.%s is the parser's value (documented default when absent)" % (target, attr), ok, site=site,
               found=got, expect=want, key="%s|%s|arg-%s" % (rule, target, attr))
    return I, tab

"""C10 - splined potentials (DESIGN.md section 4, C10)."""
from .. import ep
from ..model import AnalysisError
from ..values import *     # noqa
from ..symeval import RaiseSignal
from ..symeval_ops import ExcV, NTV, PyObjV, DerivV
from .. import formrules as F
from .. import writerules as W

EXPLANATION = (
    "The linear systems that define the splines are extracted by abstract evaluation of _init_spline_coefficients "
    "(numpy.array/reshape are the identity on the literal matrix, linalg.solve is captured): every row of the 6x6 Exp_Spline "
    "system must be a derivative row of the basis 1..x^5 at the detach/attach point with right-hand side ln W, W'/W, "
    "W''/W-(W'/W)^2 for W = V - C on both branches of the positivity shift, and the 10 rows of the Buck4 system must be "
    "exactly the stated C2 / stationary-point constraints (compared as a set of linear equations in a0..a5, b0..b3). The "
    "region map, the spline() modifier's extraction of detach/attach and end potentials, and the buck4 shorthand are "
    "evaluated abstractly and compared by role.")


class SolveCapture(object):
    def __init__(self):
        self.systems = []


class ArrayV(object):
    """result of numpy.linalg.solve: a vector of fresh unknown symbols"""
    def __init__(self, names):
        self.names = names

    def m_flatten(self, I, args, kwargs):
        return PyObjV(self)

    def m_tolist(self, I, args, kwargs):
        return ListV([Num(ep.sym(n)) for n in self.names], "list")

    def iter_items(self, I):
        return [Num(ep.sym(n)) for n in self.names]


def numpy_model(I, cap, prefix):
    def array(args, kwargs, node, env):
        return args[0]

    def reshape(args, kwargs, node, env):
        lst, shape = args[0], args[1]
        rows, cols = [int(x.const()) for x in shape.items]
        items = lst.items
        if len(items) != rows * cols:
            raise AnalysisError("reshape of %d entries to %dx%d" % (len(items), rows, cols))
        if cols == 1:
            return ListV(list(items), "list")
        return ListV([ListV(items[i * cols:(i + 1) * cols], "list") for i in range(rows)], "list")

    def solve(args, kwargs, node, env):
        A, B = args
        n = len(A.items)
        names = ["%s%d" % (prefix, i) for i in range(n)]
        cap.systems.append((A, B, names))
        arr = ArrayV(names)
        # iterating the result (list comprehension over it) yields the unknowns
        return ListV([Num(ep.sym(nm)) for nm in names], "list") if prefix == "B" else PyObjV(arr)
    class InvV(object):
        """numpy.linalg.inv(A): only ever multiplied onto a right-hand side"""
        def __init__(self, A):
            self.A = A

        def key(self):
            return ("inv", self.A.key())

    def inv(args, kwargs, node, env):
        if kwargs or len(args) != 1:
            raise AnalysisError("linalg.inv arguments")
        return PyObjV(InvV(args[0]))

    def dot(args, kwargs, node, env):
        if kwargs or len(args) != 2 or not (isinstance(args[0], PyObjV) and isinstance(args[0].obj, InvV)):
            raise AnalysisError("numpy.dot other than inverse times right-hand side")
        # inv(A) . B is the solution of A x = B
        r = solve([args[0].obj.A, args[1]], {}, node, env)
        return PyObjV(ArrayV([repr(x.rf) for x in r.items])) if isinstance(r, ListV) else r
    for mod in ("numpy", "np"):
        setattr(I, "x_%s_array" % mod, array)
        setattr(I, "x_%s_reshape" % mod, reshape)
        setattr(I, "x_%s_linalg_solve" % mod, solve)
        setattr(I, "x_%s_linalg_inv" % mod, inv)
        setattr(I, "x_%s_dot" % mod, dot)
        setattr(I, "x_%s_matmul" % mod, dot)


def point(I, P, name, rname):
    """a Spline_Point whose r, v, deriv, deriv2 are symbols"""
    sp = P.cls("atsim.potentials.spline", "Spline_Point")
    inst = I.instantiate(sp, [W.param(name), Num(ep.sym(rname))], {}, None)
    return inst


def run(chk):
    P = F.load_program()
    chk.explanation = EXPLANATION
    chk.info.update(P.stats())
    chk.rule("C10.O1", "region map of Custom_SplinePotential: start potential below detach, end potential above attach, spline between", 3)
    chk.rule("C10.O2", "Exp_Spline: matrix rows are derivative rows of the basis; right-hand sides are ln W, W'/W, W''/W-(W'/W)^2; C = -shift", 27)
    chk.rule("C10.O3", "Buck4_Spline: the 10 equations are the C2 / stationary constraints; coefficients feed quintic and cubic in order", 12)
    chk.rule("C10.O4", "spline() modifier: detach/attach and end potentials taken from the 2nd/3rd ranges; keyword -> spline class", 10)
    chk.rule("C10.O5", "buck4(A,rho,C,rd,rm,ra) = Buck4 spline of bornmayer(A,rho) and buck(0,1,C) with (rd, ra, rm)", 6)
    chk.rule("C10.O6", "value, deriv and deriv2 of the splined callable use the same region and are derivatives of that region's function", 12)
    from .c07 import splines as region_derivatives
    chk.attempt("O6", lambda: region_derivatives(chk, P, rule="C10.O6"))
    chk.attempt("O1", lambda: region_map(chk, P))
    chk.attempt("O2", lambda: exp_spline(chk, P))
    chk.attempt("O3", lambda: buck4_spline(chk, P))
    chk.attempt("O4", lambda: spline_modifier(chk, P))
    # the splined region is the exp_spline form (and the buck4 polynomials) evaluated with the solved coefficients: its own
    # deriv / deriv2 have to be the derivatives of its value for the join to be smooth (the form identities of C07, here)
    from ..report import RuleView
    from . import c07
    chk.rule("C10.O8", "deriv and deriv2 of the built-in forms (exp_spline, polynomial, ... as used inside the splined region) are d/dr of their value", 20)
    view8 = RuleView(chk, "C10.O8")
    chk.attempt("O8", lambda: c07.builtin_forms(view8, P))
    chk.rule("C10.O7", "a second spline made in the same process, with one radius changed, solves the system of its own radii", 5)
    chk.attempt("O7", lambda: second_spline(chk, P))
    chk.attempt("O5", lambda: buck4_shorthand(chk, P))
    chk.assume("solvability and conditioning of the linear systems (numpy.linalg.solve) are not decided; given exact solves the "
               "checked rows are the C2 continuity statement")
    chk.assume("the numerical size of the join mismatch in floating point is not decided")


def region_map(chk, P):
    from .c07 import phi_leaves
    mod = "atsim.potentials.spline"
    cls = P.cls(mod, "Custom_SplinePotential")
    I = F.make_interp(P)
    I.assumption_fns.append(F.hasattr_true({"deriv": True, "deriv2": True}))
    dp = point(I, P, "start", "detach")
    ap = point(I, P, "end", "attach")
    holder = InstV(P.cls(mod, "Exp_Spline"))
    holder.attrs.update({"_detach_point": dp, "_attach_point": ap, "_spline_callable": W.param("spline")})
    pot = I.instantiate(cls, [holder], {}, None)
    v = I.call(pot, [Num(ep.sym("r"))], {})
    site = cls.site_of("__call__")
    r, d, a = ep.sym("r"), ep.sym("detach"), ep.sym("attach")
    leaves = phi_leaves(v)
    got = {}
    for conds, leaf in leaves:
        got[tuple(conds)] = I.num(leaf)
    # classify the three leaves by the comparisons on their path
    want = {"start": ep.app(("param", "start"), [r]), "end": ep.app(("param", "end"), [r]), "spline": ep.app(("param", "spline"), [r])}
    found = {}
    for conds, leaf in leaves:
        text = " & ".join(("" if val else "not ") + c for c, val in conds)
        for nm, w in want.items():
            if ep.equal(I.num(leaf), w)[0]:
                found[nm] = text
    for nm, side in (("start", "detach"), ("end", "attach"), ("spline", None)):
        ok = nm in found
        if ok and side == "detach":
            ok = "detach" in found[nm] and not found[nm].startswith("not ")
        if ok and side == "attach":
            ok = "attach" in found[nm]
        chk.ob("C10.O1", "%s function is used %s" % (nm, {"start": "for r <= detach", "end": "for r >= attach",
                                                           "spline": "strictly between"}[nm]), ok, site=site,
               found=found.get(nm, v), expect=nm, key="C10.O1|%s" % nm)
    # orientation of the comparisons: first test is r <= detach (or <), second r >= attach (or >)
    c1 = v.cond if isinstance(v, Phi) else None
    okc = isinstance(c1, Cond) and c1.kind == "cmp" and c1.args[0] in ("<=", "<") and ep.equal(c1.args[1].rf, r)[0] and ep.equal(c1.args[2].rf, d)[0]
    if not okc and isinstance(c1, Cond) and c1.kind == "cmp" and c1.args[0] in (">=", ">"):
        okc = ep.equal(c1.args[1].rf, d)[0] and ep.equal(c1.args[2].rf, r)[0]
    if not okc:
        chk.ob("C10.O1", "start region is r below detach", False, site=site, found=c1, expect="r <= detach", key="C10.O1|orientation-start")
    inner = v.b if isinstance(v, Phi) else None
    c2 = inner.cond if isinstance(inner, Phi) else None
    okc2 = isinstance(c2, Cond) and c2.kind == "cmp" and ((c2.args[0] in (">=", ">") and ep.equal(c2.args[1].rf, r)[0] and ep.equal(c2.args[2].rf, a)[0])
                                                        or (c2.args[0] in ("<=", "<") and ep.equal(c2.args[1].rf, a)[0] and ep.equal(c2.args[2].rf, r)[0]))
    if not okc2:
        chk.ob("C10.O1", "end region is r above attach", False, site=site, found=c2, expect="r >= attach", key="C10.O1|orientation-end")


def _point_syms(I, P, pref, rname, value=None):
    """Spline_Point-like object with symbolic r, v, deriv, deriv2 properties (value: a concrete end value instead of the symbol)"""
    class Pt(object):
        def get_r(self, J):
            return Num(ep.sym(rname))

        def get_v(self, J):
            return Num(ep.sym(pref + "v")) if value is None else Num(ep.const(value))

        def get_deriv(self, J):
            return Num(ep.sym(pref + "d1"))

        def get_deriv2(self, J):
            return Num(ep.sym(pref + "d2"))

        def get_potential_function(self, J):
            return W.param(pref + "func")
    return PyObjV(Pt())


def exp_spline(chk, P):
    mod = "atsim.potentials.spline"
    cls = P.cls(mod, "Exp_Spline")
    site = cls.site_of("_init_spline_coefficients")
    for scenario, s_nonpos, e_nonpos in (("positive end values", False, False), ("shifted (both end values <= 0)", True, True),
                                         ("shifted (only the detach value <= 0)", True, False),
                                         ("shifted (only the attach value <= 0)", False, True)):
        I = F.make_interp(P)
        cap = SolveCapture()
        numpy_model(I, cap, "B")
        shift = s_nonpos or e_nonpos

        def assume(cond, s_nonpos=s_nonpos, e_nonpos=e_nonpos):
            if isinstance(cond, Cond) and cond.kind == "cmp" and cond.args[0] in ("<=", "<"):
                left = repr(cond.args[1])
                right_zero = isinstance(cond.args[2], Num) and cond.args[2].rf.is_zero()
                if left == "sv" and repr(cond.args[2]) == "ev":      # min(sy, ey): which one is smaller
                    return s_nonpos and not e_nonpos
                if left == "ev" and repr(cond.args[2]) == "sv":
                    return e_nonpos and not s_nonpos
                if left == "sv" and right_zero:
                    return s_nonpos
                if left == "ev" and right_zero:
                    return e_nonpos
                if left in ("sv - ev", "-ev + sv"):        # min(sy, ey): which one is smaller
                    return s_nonpos and not e_nonpos
                if left in ("ev - sv", "-sv + ev"):
                    return e_nonpos and not s_nonpos
            return None
        assume.text = "Exp_Spline scenario: " + scenario
        I.assumption_fns.append(assume)
        # through the public constructor and the documented spline_coefficients property
        inst = I.instantiate(cls, [_point_syms(I, P, "s", "sx"), _point_syms(I, P, "e", "ex")], {}, None)
        coefs = I.getattr(inst, "spline_coefficients")
        if len(cap.systems) != 1:
            raise AnalysisError("Exp_Spline solves %d linear systems (expected 1)" % len(cap.systems))
        A, B, names = cap.systems[0]
        tag = {"positive end values": "noshift", "shifted (both end values <= 0)": "shift"}.get(scenario, scenario)
        # the appended constant C and the shifted end values
        if not (isinstance(coefs, ListV) and len(coefs.items) == 7):
            chk.ob("C10.O2", "[%s] seven coefficients (B0..B5, C) are produced" % scenario, False, site=site, found=coefs, expect="7-tuple",
                   key="C10.O2|%s|count" % tag)
            continue
        for i in range(6):
            ok = ep.equal(I.num(coefs.items[i]), ep.sym("B%d" % i))[0]
            if not ok:
                chk.ob("C10.O2", "[%s] coefficient %d is the %d-th solution component" % (scenario, i, i), False, site=site,
                       found=coefs.items[i], expect="B%d" % i, key="C10.O2|%s|order%d" % (tag, i))
        C = I.num(coefs.items[6])
        if shift:
            # the amount added is 1 - min(end values): the smaller end value becomes exactly 1, both are positive afterwards
            okC = any(ep.equal(C, m - ep.const(1))[0] for m in (ep.sym("sv"), ep.sym("ev")))
        else:
            okC = C.is_zero()
        chk.ob("C10.O2", "[%s] the constant C is %s" % (scenario, "minus the amount added to the end values" if shift else "zero"), okC,
               site=site, found=C, expect="-(1 - min(sy, ey))" if shift else 0, key="C10.O2|%s|C" % tag)
        W_s = ep.sym("sv") - C
        W_e = ep.sym("ev") - C
        pts = (("detach", ep.sym("sx"), W_s, ep.sym("sd1"), ep.sym("sd2")), ("attach", ep.sym("ex"), W_e, ep.sym("ed1"), ep.sym("ed2")))
        want = []
        x = ep.sym("@x")
        for order in (0, 1, 2):
            for pname, px, Wv, W1, W2 in pts:
                row = []
                for j in range(6):
                    t = ep.pow_(x, ep.const(j))
                    for _ in range(order):
                        t = ep.D(t, "@x")
                    row.append(ep.substitute(t, {"@x": px}))
                rhs = [ep.log_(Wv), W1 / Wv, W2 / Wv - (W1 / Wv) * (W1 / Wv)][order]
                want.append(("%s order %d" % (pname, order), row, rhs))
        got = []
        for i, rowv in enumerate(A.items):
            got.append(([I.num(e) for e in rowv.items], I.num(B.items[i])))
        used = set()
        for what, row, rhs in want:
            hit = None
            for gi, (grow, grhs) in enumerate(got):
                if gi in used or len(grow) != 6:
                    continue
                if all(ep.equal(a, b)[0] for a, b in zip(grow, row)):
                    hit = gi
                    break
            if hit is None:
                chk.ob("C10.O2", "[%s] constraint row for %s is in the matrix" % (scenario, what), False, site=site,
                       found="no matching row", expect=row, key="C10.O2|%s|row|%s" % (tag, what))
                continue
            used.add(hit)
            chk.ob("C10.O2", "[%s] matrix row for %s = derivative row of (1, x, ..., x^5)" % (scenario, what), True, site=site,
                   key="C10.O2|%s|row|%s" % (tag, what))
            ok, why = ep.equal(got[hit][1], rhs)
            chk.ob("C10.O2", "[%s] right-hand side for %s is %s of W = V - C" % (scenario, what,
                   ["ln W", "W'/W", "W''/W - (W'/W)^2"][int(what[-1])]), ok, site=site, found=why or got[hit][1], expect=rhs,
                   key="C10.O2|%s|rhs|%s" % (tag, what))
    # an end value of exactly zero (splining onto as.zero, a potential that crosses zero at the join) is not positive either:
    # the shift is applied and its amount is 1 - min
    for which, sval, evalue, smaller in (("attach", None, 0, "ev"), ("detach", 0, None, "sv")):
        I = F.make_interp(P)
        cap = SolveCapture()
        numpy_model(I, cap, "B")

        def assume0(cond, which=which):
            if isinstance(cond, Cond) and cond.kind == "cmp" and cond.args[0] in ("<=", "<", ">", ">="):
                a, b = cond.args[1], cond.args[2]
                d = (a.rf - b.rf) if isinstance(a, Num) and isinstance(b, Num) else None
                other = ep.sym("sv" if which == "attach" else "ev")       # the other end value is positive
                if d is not None and ep.equal(d, other)[0]:
                    return cond.args[0] in (">", ">=")
                if d is not None and ep.equal(d, -other)[0]:
                    return cond.args[0] in ("<", "<=")
            return None
        assume0.text = "Exp_Spline scenario: %s value exactly 0, the other end value positive" % which
        I.assumption_fns.append(assume0)
        try:
            inst = I.instantiate(cls, [_point_syms(I, P, "s", "sx", sval), _point_syms(I, P, "e", "ex", evalue)], {}, None)
            coefs = I.getattr(inst, "spline_coefficients")
            C = I.num(coefs.items[6]) if isinstance(coefs, ListV) and len(coefs.items) == 7 else None
        except RaiseSignal as e:
            C = e.exc
        ok = C is not None and not isinstance(C, ExcV) and ep.equal(C, ep.const(-1))[0]
        chk.ob("C10.O2", "[%s value exactly 0] the end values are shifted by 1 - min = 1 before the logarithm is taken (C = -1)" % which, ok,
               site=site, found=C, expect=-1, key="C10.O2|zero-%s|C" % which)
    # coefficient order matches exp_spline's signature
    I = F.make_interp(P)
    inst = F.form_instance(I, P, "exp_spline")
    params = F.call_params(inst)
    chk.ob("C10.O2", "exp_spline takes (B0..B5, C) in the order the coefficients are produced",
           params[1:] == ["B0", "B1", "B2", "B3", "B4", "B5", "C"], site=inst.ci.site_of("__call__"), found=params,
           expect="r, B0..B5, C", key="C10.O2|signature")


def second_spline(chk, P):
    mod = "atsim.potentials.spline"
    for cname, radii, prefix in (("Buck4_Spline", ("r_dp", "r_ap", "r_min"), "u"), ("Exp_Spline", ("sx", "ex"), "B")):
        cls = P.cls(mod, cname)

        def build(I, names, cname=cname):
            args = [_point_syms(I, P, "s", names[0]), _point_syms(I, P, "e", names[1])]
            if cname == "Buck4_Spline":
                args.append(Num(ep.sym(names[2])))
            inst = I.instantiate(cls, args, {}, None)
            I.getattr(inst, "spline_coefficients")
            return inst

        def positive(cond):
            # end values positive: Exp_Spline does not shift (one scenario is enough for this rule)
            if isinstance(cond, Cond) and cond.kind == "cmp" and cond.args[0] in ("<=", "<") and repr(cond.args[1]) in ("sv", "ev"):
                return False
            return None
        for i, nm in enumerate(radii):
            changed = list(radii)
            changed[i] = nm + "_2"
            H = F.make_interp(P)
            H.assumption_fns.append(positive)
            H.assumption_fns.append(F.distinct((nm, nm + "_2")))
            cap = SolveCapture()
            numpy_model(H, cap, prefix)
            build(H, radii)
            n0 = len(cap.systems)
            build(H, changed)
            again = [(A.key(), B.key()) for A, B, _ in cap.systems[n0:]]
            Fr = F.make_interp(P)
            Fr.assumption_fns.append(positive)
            capf = SolveCapture()
            numpy_model(Fr, capf, prefix)
            build(Fr, changed)
            fresh = [(A.key(), B.key()) for A, B, _ in capf.systems]
            chk.ob("C10.O7", "%s built after one with a different %s solves the equations of its own radii" % (cname, nm), again == fresh and bool(fresh),
                   site=cls.site_of("_init_spline_coefficients"), found="the matrix of the first spline is used again" if again != fresh else None,
                   expect="the system a fresh process sets up", key="C10.O7|%s|%s" % (cname, nm))


def buck4_spline(chk, P):
    mod = "atsim.potentials.spline"
    cls = P.cls(mod, "Buck4_Spline")
    site = cls.site_of("_init_spline_coefficients")
    I = F.make_interp(P)
    cap = SolveCapture()
    numpy_model(I, cap, "u")
    # through the public constructor: which private helper solves the system is the code's business
    inst = I.instantiate(cls, [_point_syms(I, P, "s", "r_dp"), _point_syms(I, P, "e", "r_ap"), Num(ep.sym("r_min"))], {}, None)
    if len(cap.systems) != 1:
        raise AnalysisError("Buck4_Spline solves %d systems" % len(cap.systems))
    M, V, names = cap.systems[0]
    if len(M.items) != 10:
        raise AnalysisError("Buck4 system has %d rows" % len(M.items))
    a = [ep.sym("a%d" % i) for i in range(6)]
    b = [ep.sym("b%d" % i) for i in range(4)]
    x = ep.sym("@x")
    q5 = sum((a[i] * ep.pow_(x, ep.const(i)) for i in range(6)), ep.const(0))
    q3 = sum((b[i] * ep.pow_(x, ep.const(i)) for i in range(4)), ep.const(0))

    def at(e, p, order):
        for _ in range(order):
            e = ep.D(e, "@x")
        return ep.substitute(e, {"@x": p})
    rd, rm, ra = ep.sym("r_dp"), ep.sym("r_min"), ep.sym("r_ap")
    constraints = [
        ("quintic value at detach = start potential", at(q5, rd, 0), ep.sym("sv")),
        ("quintic slope at detach = start slope", at(q5, rd, 1), ep.sym("sd1")),
        ("quintic curvature at detach = start curvature", at(q5, rd, 2), ep.sym("sd2")),
        ("zero slope at r_min", at(q5, rm, 1), ep.const(0)),
        ("value continuity at r_min", at(q5, rm, 0) - at(q3, rm, 0), ep.const(0)),
        ("slope continuity at r_min", at(q5, rm, 1) - at(q3, rm, 1), ep.const(0)),
        ("curvature continuity at r_min", at(q5, rm, 2) - at(q3, rm, 2), ep.const(0)),
        ("cubic value at attach = end potential", at(q3, ra, 0), ep.sym("ev")),
        ("cubic slope at attach = end slope", at(q3, ra, 1), ep.sym("ed1")),
        ("cubic curvature at attach = end curvature", at(q3, ra, 2), ep.sym("ed2")),
    ]
    unknowns = ["a%d" % i for i in range(6)] + ["b%d" % i for i in range(4)]
    got = []
    for i, rowv in enumerate(M.items):
        got.append(([I.num(e) for e in rowv.items], I.num(V.items[i])))
    used = set()
    for what, expr, rhs in constraints:
        row = [ep.D(expr, u) for u in unknowns]
        hit = None
        for gi, (grow, grhs) in enumerate(got):
            if gi in used:
                continue
            # an equation may be scaled by -1
            for sgn in (1, -1):
                if all(ep.equal(x1 * sgn, x2)[0] for x1, x2 in zip(grow, row)) and ep.equal(grhs * sgn, rhs)[0]:
                    hit = gi
                    break
            if hit is not None:
                break
        if hit is not None:
            used.add(hit)
        chk.ob("C10.O3", "equation: %s" % what, hit is not None, site=site, found="no such row among the 10" if hit is None else None,
               expect="%r = %r" % (expr, rhs), key="C10.O3|eq|%s" % what)
    # coefficient split
    r = ep.sym("r")
    for attr, lo, n in (("_spline5", 0, 6), ("_spline3", 6, 4)):
        f = I.getattr(inst, attr[1:])     # public properties spline5 / spline3
        v = I.num(I.call(f, [Num(r)], {})) if f is not None else None
        want = sum((ep.sym("u%d" % (lo + i)) * ep.pow_(r, ep.const(i)) for i in range(n)), ep.const(0))
        ok = v is not None and ep.equal(v, want)[0]
        chk.ob("C10.O3", "%s is the polynomial of solution components %d..%d in ascending order" % (attr[1:], lo, lo + n - 1), ok, site=site,
               found=v, expect=want, key="C10.O3|split|%s" % attr)


class _Builder(object):
    def m_create_potential_function(self, I, args, kwargs):
        return Opaque(("built", args[0].key()))


def _chain(I, P, middle, mparams):
    mod = P.module("atsim.potentials.config._common")
    pfi = I.module_global(mod, "PotentialFormInstanceTuple")
    mrd = I.module_global(mod, "MultiRangeDefinitionTuple")
    third = I.call(pfi, [Const("as.zero"), ListV([], "list"), I.call(mrd, [Const(">"), Num(ep.sym("attach"))], {}), NONE], {})
    second = I.call(pfi, [Const(middle), ListV(mparams, "list"), I.call(mrd, [Const(">"), Num(ep.sym("detach"))], {}), third], {})
    first = I.call(pfi, [Const("as.buck"), ListV([Num(ep.sym("A"))], "list"), I.call(mrd, [Const(">"), Num(ep.sym("s0"))], {}), second], {})
    return first, second, third, mrd


def spline_modifier(chk, P):
    fi = F.modifier_ref(P, "spline")
    site = fi.site()
    for keyword, mparams, clsname in (("exp_spline", [], "Exp_Spline"), ("buck4_spline", [Num(ep.sym("rm"))], "Buck4_Spline")):
        I = F.make_interp(P)
        cap = SolveCapture()
        numpy_model(I, cap, "B" if keyword == "exp_spline" else "u")
        I.assumption_fns.append(F.hasattr_true({"deriv": True, "deriv2": True}))

        def quiet(cond):
            # positivity test of Exp_Spline: irrelevant here
            if isinstance(cond, Cond) and (cond.kind == "or" or (cond.kind == "cmp" and cond.args[0] == "<=")):
                return False
            return None
        quiet.text = "Exp_Spline positivity shift not taken (checked in O2)"
        I.assumption_fns.append(quiet)
        first, second, third, mrd = _chain(I, P, keyword, mparams)
        pot = fi.call(I, [ListV([first], "list"), PyObjV(_Builder())])
        if not (isinstance(pot, InstV) and pot.ci.name == "Custom_SplinePotential"):
            raise AnalysisError("spline() returned %r" % (pot,))
        spl = I.getattr(pot, "interpolationFunction")
        chk.ob("C10.O4", "keyword %r builds a %s" % (keyword, clsname), isinstance(spl, InstV) and spl.ci.name == clsname, site=site,
               found=spl, expect=clsname, key="C10.O4|%s|class" % keyword)
        dx = I.num(I.getattr(pot, "detachmentX"))
        ax = I.num(I.getattr(pot, "attachmentX"))
        chk.ob("C10.O4", "[%s] detach point is the start of the 2nd range" % keyword, ep.equal(dx, ep.sym("detach"))[0], site=site, found=dx,
               expect="detach", key="C10.O4|%s|detach" % keyword)
        chk.ob("C10.O4", "[%s] attach point is the start of the 3rd range" % keyword, ep.equal(ax, ep.sym("attach"))[0], site=site, found=ax,
               expect="attach", key="C10.O4|%s|attach" % keyword)
        sp = I.getattr(pot, "startPotential")
        want1 = first.values[:3] + [NONE]
        from ..symeval_ops import NTV as _NTV
        w1 = Opaque(("built", _NTV(first.cls, want1).key()))
        chk.ob("C10.O4", "[%s] start potential is the first range alone" % keyword, isinstance(sp, Opaque) and sp.key() == w1.key(), site=site,
               found=sp, expect=w1, key="C10.O4|%s|start" % keyword)
        epot = I.getattr(pot, "endPotential")
        ok = isinstance(epot, Opaque) and epot.path[0] == "built"
        if ok:
            k = epot.path[1]
            # ('nt', 'PotentialFormInstanceTuple', form, params, start, next)
            ok = k[2] == Const("as.zero").key() and k[5] == NONE.key() and "-inf" in repr(k[4])
        chk.ob("C10.O4", "[%s] end potential is the third form with its range opened to -infinity" % keyword, ok, site=site, found=epot,
               expect="as.zero from -inf, no further ranges", key="C10.O4|%s|end" % keyword)
        if keyword == "buck4_spline":
            rm = I.num(I.getattr(spl, "r_min"))
            chk.ob("C10.O4", "[buck4_spline] its single parameter is r_min", ep.equal(rm, ep.sym("rm"))[0], site=site, found=rm, expect="rm",
                   key="C10.O4|buck4_spline|r_min")


def buck4_shorthand(chk, P):
    I = F.make_interp(P)
    cap = SolveCapture()
    numpy_model(I, cap, "u")
    I.assumption_fns.append(F.hasattr_true({"deriv": True, "deriv2": True}))
    m = P.module(F.PFORMS)
    f = I.module_global(m, "buck4")
    site = P.func(F.PFORMS, "buck4").site()
    names = ["A", "rho", "C", "r_detach", "r_min", "r_attach"]
    params = P.func(F.PFORMS, "buck4").params()
    chk.ob("C10.O5", "buck4 takes (A, rho, C, r_detach, r_min, r_attach) as documented", params == names, site=site, found=params,
           expect=names, key="C10.O5|signature")
    pot = I.call(f, [Num(ep.sym(n)) for n in params], {})
    if not (isinstance(pot, InstV) and pot.ci.name == "Buck4_SplinePotential"):
        raise AnalysisError("buck4 returned %r" % (pot,))
    r = ep.sym("r")
    sv = I.num(I.call(I.getattr(pot, "startPotential"), [Num(r)], {}))
    ev = I.num(I.call(I.getattr(pot, "endPotential"), [Num(r)], {}))
    want_s = ep.sym("A") * ep.exp_(-r / ep.sym("rho"))
    want_e = -ep.sym("C") / ep.pow_(r, ep.const(6))
    chk.ob("C10.O5", "start potential is A exp(-r/rho)", ep.equal(sv, want_s)[0], site=site, found=sv, expect=want_s, key="C10.O5|start")
    chk.ob("C10.O5", "end potential is -C/r^6", ep.equal(ev, want_e)[0], site=site, found=ev, expect=want_e, key="C10.O5|end")
    for attr, sym_ in (("detachmentX", "r_detach"), ("attachmentX", "r_attach")):
        v = I.num(I.getattr(pot, attr))
        chk.ob("C10.O5", "%s is %s" % (attr, sym_), ep.equal(v, ep.sym(sym_))[0], site=site, found=v, expect=sym_, key="C10.O5|" + attr)
    spl = I.getattr(pot, "interpolationFunction")
    rm = I.num(I.getattr(spl, "r_min")) if isinstance(spl, InstV) else None
    chk.ob("C10.O5", "the stationary point is r_min", rm is not None and ep.equal(rm, ep.sym("r_min"))[0], site=site, found=rm, expect="r_min",
           key="C10.O5|r_min")

"""C11 - any two of nr/dr/cutoff fix the grid (DESIGN.md section 4, C11)."""
import itertools

from .. import ep
from ..model import AnalysisError
from ..values import *     # noqa
from ..symeval import RaiseSignal
from ..symeval_ops import ExcV, NTV, PyObjV
from .. import formrules as F
from .. import writerules as W

CP = "atsim.potentials.config._config_parser"

EXPLANATION = (
    "The grid options of [Tabulation] are read through a decision function over presence and sign of (nr, dr, cutoff); it is "
    "reached the way potable reaches it: ConfigParser(<file text>).tabulation on the configparser model. Every combination of "
    "{absent, 0, negative, positive} for the three options (64 cases, for the separation and the density instance) is "
    "evaluated by the abstract evaluator with positive values kept symbolic, and outcome (raise a configuration error / "
    "resulting (nr, cutoff) as normal forms) is compared with the table stated in the property. The quotient-to-count "
    "conversion is checked as an idiom on the normal form: int()/floor() of cutoff/dr plus a bare integer truncates "
    "(6.999999999999999 -> 6) and is rejected; a tolerance below the rounding error of the quotient for 20000 rows is "
    "rejected too. Grid steps dr, drho used by every writer are checked to be cutoff/(nr-1), cutoff_rho/(nrho-1), and the "
    "documented defaults are read off the factories.")

CLASSES = ("absent", "zero", "negative", "positive")


class Section(object):
    def __init__(self, values):
        self.values = values

    def m_get(self, I, args, kwargs):
        k = args[0].v
        return self.values.get(k, args[1] if len(args) > 1 else NONE)

    def get_name(self, I):
        return Const("Tabulation")


def positive(cond):
    """symbols standing for given positive options: truthy, > 0, and (row counts) >= 2"""
    if isinstance(cond, Cond):
        if cond.kind == "truthy" and isinstance(cond.args[0], Num):
            return True
        if cond.kind == "cmp" and isinstance(cond.args[2], Num) and cond.args[2].const() is not None:
            op, lhs, rhs = cond.args
            c = rhs.const()
            if op in ("<=", "<") and c <= 2 and not (op == "<=" and c == 2):
                # positive symbol (and a row count of at least 2) is not <= 0, < 2, <= 1
                return False
            if op in (">", ">=") and c <= 0:
                return True
    return None


positive.text = "options given as positive are > 0 (row counts >= 2)"


def run(chk):
    P = F.load_program()
    chk.explanation = EXPLANATION
    chk.info.update(P.stats())
    chk.rule("C11.O1", "decision table of _init_cutoff: combination -> configuration error or (nr, cutoff)", 128)
    chk.rule("C11.O2", "cutoff/dr -> row count does not truncate a quotient that lands just below the integer", 2)
    chk.rule("C11.O3", "density instance reads nrho/drho/cutoff_rho and the section exposes nr, cutoff, nrho, cutoff_rho", 4)
    chk.rule("C11.O4", "documented defaults: cutoff 10.0, nr 1001, cutoff_rho 100.0, nrho 1001", 4)
    chk.rule("C11.O4f", "the factory hands the parser's grid (defaults when absent) to the setfl tabulation's constructor slots", 5)
    chk.rule("C11.O5", "grid steps used by the writers: dr = cutoff/(nr-1), drho = cutoff_rho/(nrho-1)", 2)
    chk.attempt("O1", lambda: decision_table(chk, P))
    chk.attempt("O3", lambda: section_binding(chk, P))
    chk.attempt("O4", lambda: defaults(chk, P))
    chk.attempt("O5", lambda: steps(chk, P))
    # the grids of the spreadsheet targets (r and rho value iterators): the same steps
    from .c19 import excel_eam
    chk.attempt("O5x", lambda: excel_eam(chk, P, rule="C11.O5"))
    # "the table written has exactly that many rows on exactly that grid": the targets with two grids (separation and density)
    # write each block on its own grid - the output comparisons of C03/C04/C05/C19, evaluated here on this run's tree
    from ..report import RuleView
    chk.rule("C11.W", "EAM targets: embedding blocks on the (nrho, drho) grid, density and pair blocks on the (nr, dr) grid, in the "
                      "tabulation classes and in the procedural writers", 150)
    view = RuleView(chk, "C11.W")
    for cls, spec in (("SetFL_EAMTabulation", "setfl"), ("SetFL_FS_EAMTabulation", "setfl_fs"), ("TABEAM_EAMTabulation", "tabeam"),
                      ("TABEAM_FinnisSinclair_EAMTabulation", "tabeam_fs")):
        chk.attempt("W/" + cls, lambda cls=cls, spec=spec: W.eam_class_vs_spec(view, "C11.W/" + spec, P, cls, spec))
    for mod, fn, spec in (("atsim.potentials._lammpsWriteEAM", "writeSetFL", "setfl_api"),
                          ("atsim.potentials._lammpsWriteEAM", "writeSetFLFinnisSinclair", "setfl_fs_api"),
                          ("atsim.potentials._dlpoly_writeTABEAM", "writeTABEAM", "tabeam_api"),
                          ("atsim.potentials._dlpoly_writeTABEAM", "writeTABEAMFinnisSinclair", "tabeam_fs_api"),
                          ("atsim.potentials._lammpsWriteEAM", "writeFuncFL", "funcfl")):
        chk.attempt("W/" + fn, lambda mod=mod, fn=fn, spec=spec: W.eam_api_vs_spec(view, "C11.W/" + spec, P, mod, fn, spec))
    # every registered target (also ones added later): its write() runs on symbolic grids; a row count that hangs on a
    # floating-point comparison / a float-stepped range is reported by the .X rule of this check
    from .c16 import registered_targets, write_target
    chk.rule("C11.T", "every target of the factory table writes its table for symbolic (cutoff, nr[, cutoff_rho, nrho])", 10)
    for target, tc in registered_targets(P):
        def one(target=target, tc=tc):
            write_target(P, tc)
            chk.ob("C11.T", "target %s (%s): written with integer-controlled row loops" % (target, tc.name), True, site=tc.site_of("write"),
                   key="C11.T|%s" % target)
        chk.attempt("T/" + target, one)
    chk.exhaustive = True
    chk.assume("int() of an option string that is not a number is handled by _get_or_none (C16)")
    chk.assume("floating-point rounding of cutoff/dr is bounded by 4 ulp of the quotient (quotients up to 2e4)")


def _grid_site(P):
    ci = P.classes.get(CP + "._TabulationCutoff") if hasattr(P, "classes") else None
    try:
        ci = P.cls(CP, "_TabulationSection")
        return "%s:%d %s" % (ci.module.relpath, ci.node.lineno, ci.name)
    except Exception:
        return P.module(CP).relpath + " [Tabulation] grid options"


def build_section(P, text, assume=None):
    """ConfigParser(<text>).tabulation evaluated on the configparser model (the public route by which potable reads
    nr/dr/cutoff); option values written '@name' stand for arbitrary numbers"""
    from .. import cfgmodel as M
    I = F.make_interp(P)
    M.install_rawconfigparser(I)
    if assume is not None:
        I.assumption_fns.append(assume)
    cp = I.instantiate(P.cls(CP, "ConfigParser"), [PyObjV(M.TextFile(text))], {}, None)
    return I, I.getattr(cp, "tabulation")


def decision_table(chk, P):
    cfg = P.cls("atsim.potentials.config._common", "ConfigurationException")
    site = _grid_site(P)
    ncase = 0
    for inst_name, names, props in (("separation", ("nr", "dr", "cutoff"), ("nr", "cutoff")),
                                    ("density", ("nrho", "drho", "cutoff_rho"), ("nrho", "cutoff_rho"))):
        for combo in itertools.product(CLASSES, repeat=3):
            lines = ["[Tabulation]", "target : GULP"]
            for nm, c in zip(names, combo):
                if c == "zero":
                    lines.append("%s : 0" % nm)
                elif c == "negative":
                    lines.append("%s : -1" % nm)
                elif c == "positive":
                    lines.append("%s : @%s" % (nm, nm))
            I = None
            try:
                I, tab = build_section(P, "\n".join(lines) + "\n", positive)
                res = ListV([I.getattr(tab, props[0]), I.getattr(tab, props[1])], "tuple")
                outcome = ("ok", res)
            except RaiseSignal as e:
                outcome = ("raise", e.exc)
            if I is not None and I.raises and outcome[0] == "ok":
                # a raise under a symbolic condition that the assumptions did not decide
                outcome = ("undecided", I.raises)
            nr_c, dr_c, cut_c = combo
            nonpos = any(c in ("zero", "negative") for c in combo)
            pos = [c == "positive" for c in combo]
            if nonpos or all(pos) or (pos[1] and not pos[0] and not pos[2]):
                want = "raise"
            else:
                want = "ok"
            desc = "%s: %s" % (inst_name, ", ".join("%s %s" % (n, c) for n, c in zip(names, combo)))
            ncase += 1
            if want == "raise":
                ok = outcome[0] == "raise" and isinstance(outcome[1], ExcV) and isinstance(outcome[1].cls, ClassV) \
                    and outcome[1].cls.ci.is_subclass_of(cfg)
                chk.ob("C11.O1", "%s -> configuration error" % desc, ok, site=site, found=outcome, expect="raise ConfigurationException",
                       key="C11.O1|%s|%s" % (inst_name, "-".join(combo)))
                continue
            ok = outcome[0] == "ok" and isinstance(outcome[1], ListV) and len(outcome[1].items) == 2
            nrv = cutv = None
            if ok:
                nrv, cutv = outcome[1].items
                N, D, C = (ep.sym(n) for n in names)
                if pos[0] and pos[1]:
                    ok = _eq(I, nrv, N) and _eq(I, cutv, (N - 1) * D)
                    exp = "(nr, (nr-1)*dr)"
                elif pos[0] and pos[2]:
                    ok = _eq(I, nrv, N) and _eq(I, cutv, C)
                    exp = "(nr, cutoff)"
                elif pos[2] and pos[1]:
                    ok = _eq(I, cutv, C)
                    exp = "(count(cutoff/dr), cutoff)"
                    quotient_rule(chk, I, nrv, C / D, site, inst_name)
                else:
                    ok = (_isnone(nrv) if not pos[0] else _eq(I, nrv, N)) and (_isnone(cutv) if not pos[2] else _eq(I, cutv, C))
                    exp = "given values unchanged, others None"
            else:
                exp = "(nr, cutoff)"
            chk.ob("C11.O1", "%s -> %s" % (desc, exp), ok, site=site, found=outcome, expect=exp,
                   key="C11.O1|%s|%s" % (inst_name, "-".join(combo)))
    chk.states = ncase


def _eq(I, v, want):
    return isinstance(v, Num) and ep.equal(v.rf, want)[0]


def _isnone(v):
    return isinstance(v, Const) and v.v is None


def quotient_rule(chk, I, nrv, q, site, inst_name):
    """nrv must be a rounding-safe count of q+1"""
    key = "C11.O2|%s|quotient-to-count" % inst_name
    if not isinstance(nrv, Num):
        chk.ob("C11.O2", "[%s] row count from cutoff/dr is a number" % inst_name, False, site=site, found=nrv, expect="count", key=key)
        return
    rfv = nrv.rf
    # shapes: int(q + c) | floor(q + c) | round(q) + m | int(round(q)) + m
    verdict, why = classify_count(rfv, q)
    chk.ob("C11.O2", "[%s] count from cutoff/dr gives k+1 rows for a whole multiple k, robust to the quotient's rounding" % inst_name,
           verdict, site=site, found="%r  (%s)" % (rfv, why), expect="round(q)+1, or int/floor(q + 1 + tol) with 1e-10 <= tol <= 0.5",
           key=key)


def classify_count(rfv, q):
    st = rfv.n.single_term() if not rfv.df else None
    # linear form  app(...) + m
    apps = [a for a in rfv.atoms() if isinstance(a, ep.AppA) and a.fn in ("int", "floor", "round", "trunc")]
    if len(apps) != 1:
        return False, "no int()/floor()/round() of the quotient found"
    a = apps[0]
    rest = rfv - ep.RF(ep.patom(a))
    m = rest.as_const()
    if m is None:
        return False, "count is not <rounding>(...) + constant"
    arg = a.args[0]
    if a.fn == "round":
        c = (arg - q).as_const()
        if c is None:
            return False, "round() is not applied to cutoff/dr + constant"
        total = c + m
        return (total == 1), "round(q%+g)%+g" % (float(c), float(m))
    inner = arg
    # int(round(q)) etc.
    in_apps = [b for b in inner.atoms() if isinstance(b, ep.AppA) and b.fn == "round"]
    if in_apps:
        c = (in_apps[0].args[0] - q).as_const()
        r2 = (inner - ep.RF(ep.patom(in_apps[0]))).as_const()
        if c is None or r2 is None:
            return False, "unrecognised rounding expression"
        return (c + r2 + m == 1), "int(round(q)...)"
    c = (inner - q).as_const()
    if c is None:
        return False, "%s() is not applied to cutoff/dr + constant" % a.fn
    total = c + m
    whole = total.numerator // total.denominator
    fracp = total - whole
    if fracp == 0:
        return False, "%s(q + %s) truncates: a quotient such as 0.7/0.1 = 6.999999999999999 loses a row" % (a.fn, total)
    if not (ep.frac("1e-10") <= fracp <= ep.frac("0.5")):
        return False, "tolerance %.3g is outside [1e-10, 0.5]: smaller than the rounding error of the quotient" % float(fracp)
    return (whole == 1), "%s(q + %d + %.3g)" % (a.fn, whole, float(fracp))


class ParserModel(object):
    def __init__(self, section):
        self.section = section

    def m_has_section(self, I, args, kwargs):
        return Const(args[0].v == "Tabulation")

    def getitem(self, I, idx):
        return self.section


def section_binding(chk, P):
    site = _grid_site(P)
    I, tab = build_section(P, "[Tabulation]\ntarget : GULP\nnr : 21\ncutoff : 5.0\nnrho : 11\ndrho : 0.5\n")
    for attr, want in (("nr", 21), ("cutoff", 5), ("nrho", 11), ("cutoff_rho", 5)):
        v = I.getattr(tab, attr)
        ok = isinstance(v, Num) and v.const() == want
        chk.ob("C11.O3", "section with nr 21, cutoff 5.0, nrho 11, drho 0.5 exposes %s = %s" % (attr, want), ok, site=site, found=v,
               expect=want, key="C11.O3|%s" % attr)


def defaults(chk, P):
    r = W.factory_route(chk, P, "C11.O4f", W.resolve_target(P, "setfl"), "SetFL_EAMTabulation", eam=True, label="setfl")
    I, tab = r
    from ..treecmp import Cmp
    c = Cmp(I)
    tabpath = ("attr", ("param", "cp"), "tabulation")
    site = P.func("atsim.potentials.config._tabulation_factories", "EAMTabulationFactory.extract_cutoffs").site()
    for attr, d in (("cutoff", 10), ("nr", 1001), ("cutoff_rho", 100), ("nrho", 1001)):
        o = Opaque(("attr", tabpath, attr))
        want = Phi(Cond("isnone", o), Num(ep.const(d)), o)
        got = I.getattr(tab, attr)
        chk.ob("C11.O4", "omitted %s defaults to %s" % (attr, d), c.val_eq(got, want), site=site, found=got, expect=want,
               key="C11.O4|%s" % attr)


def steps(chk, P):
    I = F.make_interp(P)
    cls = P.cls("atsim.potentials.eam_tabulation", "SetFL_EAMTabulation")
    tab = I.instantiate(cls, W.eam_ctor(), {}, None)
    dr = I.num(I.getattr(tab, "dr"))
    drho = I.num(I.getattr(tab, "drho"))
    w1 = ep.sym("cutoff") / (ep.sym("nr") - 1)
    w2 = ep.sym("cutoff_rho") / (ep.sym("nrho") - 1)
    chk.ob("C11.O5", "dr = cutoff/(nr-1)", ep.equal(dr, w1)[0],
           site=P.cls("atsim.potentials.pair_tabulation", "PairTabulation_AbstractBase").site_of("dr"), found=dr, expect=w1,
           key="C11.O5|dr")
    chk.ob("C11.O5", "drho = cutoff_rho/(nrho-1)", ep.equal(drho, w2)[0],
           site=P.cls("atsim.potentials.eam_tabulation", "_EAMTabulationAbstractbase").site_of("drho"), found=drho, expect=w2,
           key="C11.O5|drho")

"""C07 - offered derivatives are the true derivatives (DESIGN.md section 4, C07)."""
from .. import ep
from ..model import AnalysisError
from ..values import *     # noqa
from ..symeval import RaiseSignal
from ..symeval_ops import ExcV as ExcV_
from ..symeval_ops import ExcV, NTV, PyObjV, DerivV
from .. import formrules as F
from .. import writerules as W

EXPLANATION = (
    "For every callable that offers deriv/deriv2 the value expression is differentiated symbolically (exact exp-polynomial "
    "normal form, syntax-directed D) and proved equal as a term to the offered derivative: the 14 built-in forms (polynomial "
    "for orders 0..8), the combinators plus/product/pow over opaque operands a, b (gradient(x) standing for x'), trans(), "
    "multi-range forms, splined potentials region by region, Buck4 spline selection, the factory/registry wrappers and the "
    "table form's use of the interpolant's derivative objects. gradient()/num_deriv() themselves are checked to use the "
    "analytic derivative iff present, else a central difference of the same component only.")


def run(chk):
    P = F.load_program()
    chk.explanation = EXPLANATION
    chk.info.update(P.stats())
    chk.rule("C07.O1", "built-in forms: d/dr __call__ = deriv and d/dr deriv = deriv2 (normal-form identity)", 26)
    chk.rule("C07.O1p", "polynomial orders 0..8: deriv and deriv2 are the term-wise derivatives", 18)
    chk.rule("C07.O2", "plus/product/pow: deriv = D potential and deriv2 = D deriv for opaque operands", 6)
    chk.rule("C07.O2a", "plus/product/pow offer deriv iff an operand does (deriv2 likewise), using the fallback for the other operand only", 6)
    for g in ("G1", "G2", "G3", "G4", "G5"):
        chk.rule("C07." + g, "gradient()/num_deriv() body", 1)
    chk.rule("C07.G6", "finite-difference step defaults", 4)
    chk.rule("C07.O4", "trans(): value, deriv and deriv2 are f, f', f'' at the same shifted argument r+X", 3)
    chk.rule("C07.O5", "multi-range: value and derivatives come from the same selected range; 0 when none", 6)
    chk.rule("C07.O6", "splined potentials: value/deriv/deriv2 select the same region and differentiate its function", 12)
    chk.rule("C07.O7", "wrappers keep derivative names aligned (factories, registry functions, table form)", 8)
    chk.rule("C07.O8", "Potential.force = -gradient(potentialFunction)", 1)

    chk.attempt("O1", lambda: builtin_forms(chk, P))
    chk.rule("C07.O1z", "forms that are regular at r = 0 offer derivatives that are defined at r = 0", 4)
    chk.attempt("O1z", lambda: regular_at_zero(chk, P))
    chk.attempt("O2", lambda: combinators(chk, P))
    chk.attempt("O2p", lambda: combinators_all_presences(chk, P))
    chk.attempt("G", lambda: W.gradient_obligations(chk, P, rule="C07.G"))
    chk.attempt("O4", lambda: trans(chk, P))
    chk.attempt("O5", lambda: multirange(chk, P))
    chk.attempt("O6", lambda: splines(chk, P))
    chk.attempt("O7", lambda: wrappers(chk, P))
    chk.attempt("O8", lambda: force(chk, P))
    chk.assume("accuracy of the central-difference fallback (h = 1e-6) is not decided beyond the step bound G6")
    chk.assume("scipy's UnivariateSpline.derivative() returns the derivative of the interpolant")
    chk.assume("a user callable's own .deriv/.deriv2 are its derivatives (only the repository's callables are proved)")
    chk.assume("boundary operators (< versus <=) at spline joins are not constrained: the C2 constraints make both sides agree there")


def dcheck(chk, rule, what, value, offered, site, key):
    d = ep.D(value, "r")
    ok, why = ep.equal(d, offered)
    chk.ob(rule, what, ok, site=site, found=why or offered, expect=d, key=key)
    return ok


def builtin_forms(chk, P):
    I = F.make_interp(P)
    ref_forms, extra_forms = F.all_forms(I, P)
    chk.info["further_registered_forms"] = extra_forms
    for name in ref_forms + extra_forms:
        inst = F.form_instance(I, P, name)
        params = F.call_params(inst)
        if isinstance(params, tuple):
            for order in range(0, 17 if chk.tier == "thorough" else 9):
                args = [Num(ep.sym("r"))] + [Num(ep.sym("c%d" % i)) for i in range(order + 1)]
                v = I.num(I.call(inst, args, {}))
                d1 = I.num(I.call(I.getattr(inst, "deriv"), args, {}))
                d2 = I.num(I.call(I.getattr(inst, "deriv2"), args, {}))
                dcheck(chk, "C07.O1p", "polynomial order %d: deriv = d/dr value" % order, v, d1, inst.ci.site_of("deriv"),
                       "C07.O1p|polynomial|deriv|%d" % order)
                dcheck(chk, "C07.O1p", "polynomial order %d: deriv2 = d/dr deriv" % order, d1, d2, inst.ci.lookup("deriv2").site(),
                       "C07.O1p|polynomial|deriv2|%d" % order)
            continue
        args = F.sym_args(params)
        v = I.num(I.call(inst, args, {}))
        prev = v
        for d in ("deriv", "deriv2"):
            if inst.ci.lookup(d) is None:
                continue
            dv = I.num(I.call(I.getattr(inst, d), args, {}))
            dcheck(chk, "C07.O1", "%s.%s = d/dr of %s" % (name, d, "__call__" if d == "deriv" else "deriv"), prev, dv,
                   inst.ci.lookup(d).site(), "C07.O1|%s|%s" % (name, d))
            prev = dv


def regular_at_zero(chk, P):
    """forms whose value is defined at r = 0 (no pole there) have their analytic derivatives defined at r = 0 too, equal to the
    derivative's value there - 'at every separation where it is differentiable', and tables of density functions start at 0"""
    I = F.make_interp(P)
    ref_forms, extra_forms = F.all_forms(I, P)
    zero = Num(ep.const(0))

    def at0(fn, rest):
        try:
            return ("ok", I.num(I.call(fn, [zero] + rest, {})))
        except RaiseSignal as e:
            return ("raise", e.exc)
        except (AnalysisError, ep.Unsupported) as e:
            return ("undecided", str(e))
    n = 0
    for name in ref_forms + extra_forms:
        inst = F.form_instance(I, P, name)
        params = F.call_params(inst)
        if isinstance(params, tuple):
            rest = [Num(ep.sym("c%d" % i)) for i in range(4)]
            rsym_args = [Num(ep.sym("r"))] + rest
        else:
            rest = F.sym_args(params)[1:]
            rsym_args = F.sym_args(params)
        v0 = at0(inst, rest)
        if v0[0] != "ok":
            continue                      # the form itself has a pole (or is not decided) at r = 0
        prev = I.num(I.call(inst, rsym_args, {}))
        for d in ("deriv", "deriv2"):
            if inst.ci.lookup(d) is None:
                break
            try:
                general = I.num(I.call(I.getattr(inst, d), rsym_args, {}))
                if not ep.regular_at_zero(general, "r"):
                    break                 # the derivative itself is singular at 0 (e.g. sqrt): nothing is promised there
                limit = ep.substitute(general, {"r": ep.const(0)})
            except (ep.Unsupported, ZeroDivisionError, AnalysisError):
                break
            got = at0(I.getattr(inst, d), rest)
            ok = got[0] == "ok" and ep.equal(got[1], limit)[0]
            n += 1
            chk.ob("C07.O1z", "%s is regular at r = 0: %s(0, ...) is defined there and equals the derivative's value" % (name, d), ok,
                   site=inst.ci.site_of(d), found=got[1] if got[0] != "undecided" else got, expect=limit, key="C07.O1z|%s|%s" % (name, d))
            prev = general
    if n < 4:
        raise AnalysisError("only %d derivative(s) of forms regular at r = 0 were found" % n)


def combinators(chk, P):
    m = "atsim.potentials"
    r = Num(ep.sym("r"))
    for name in ("plus", "product", "pow"):
        fi = P.func(m, name)
        # scenario 1: both operands fully analytic
        I = F.make_interp(P)
        I.assumption_fns.append(F.hasattr_true({"deriv": True, "deriv2": True}))
        a, b = W.param("a"), W.param("b")
        pot = I.run(fi, [a, b])
        v = I.num(I.call(pot, [r], {}))
        d1 = I.num(I.call(I.getattr(pot, "deriv"), [r], {}))
        d2 = I.num(I.call(I.getattr(pot, "deriv2"), [r], {}))
        dcheck(chk, "C07.O2", "%s(a,b).deriv = D %s(a,b)" % (name, name), v, d1, fi.site(), "C07.O2|%s|deriv" % name)
        dcheck(chk, "C07.O2", "%s(a,b).deriv2 = D deriv" % name, d1, d2, fi.site(), "C07.O2|%s|deriv2" % name)
        # scenario 2: presence conditions
        J = F.make_interp(P)
        pot = J.run(fi, [a, b])
        h1 = J.hasattr(pot, "deriv")
        want1 = Cond("or", Cond("hasattr", a, Const("deriv")), Cond("hasattr", b, Const("deriv")))
        ok = isinstance(h1, Cond) and _or_of(h1) == _or_of(want1)
        chk.ob("C07.O2a", "%s(a,b) offers deriv iff a or b does" % name, ok, site=fi.site(), found=h1, expect=want1,
               key="C07.O2a|%s|deriv-presence" % name)
        # scenario 3: only a is analytic -> b's derivative is the (semantic) gradient of b alone
        K = F.make_interp(P)
        def only_a(cond):
            if isinstance(cond, Cond) and cond.kind == "hasattr" and isinstance(cond.args[0], Opaque):
                return cond.args[0].path == ("param", "a")
            return None
        only_a.text = "operand a offers deriv/deriv2, operand b offers neither"
        K.assumption_fns.append(only_a)
        pot = K.run(fi, [a, b])
        v = K.num(K.call(pot, [r], {}))
        d1 = K.num(K.call(K.getattr(pot, "deriv"), [r], {}))
        dcheck(chk, "C07.O2a", "%s(a,b) with only a analytic: deriv = D value (b differentiated by the per-component fallback)" % name,
               v, d1, fi.site(), "C07.O2a|%s|mixed" % name)


def combinators_all_presences(chk, P):
    """every combination of which operand offers deriv / deriv2: whatever the combinator then offers is the derivative of what
    it returns (operands without an analytic derivative are differentiated by gradient(), whose meaning is d/dr)"""
    import itertools
    m = "atsim.potentials"
    r = Num(ep.sym("r"))
    a, b = W.param("a"), W.param("b")
    for name in ("plus", "product", "pow"):
        fi = P.func(m, name)
        bad = []
        n = 0
        for combo in itertools.product((True, False), repeat=4):
            have = {("a", "deriv"): combo[0], ("a", "deriv2"): combo[1], ("b", "deriv"): combo[2], ("b", "deriv2"): combo[3]}

            def answer(cond, have=have):
                if isinstance(cond, Cond) and cond.kind == "hasattr" and isinstance(cond.args[0], Opaque) and isinstance(cond.args[1], Const):
                    pth = cond.args[0].path
                    if pth in (("param", "a"), ("param", "b")):
                        return have.get((pth[1], cond.args[1].v))
                return None
            answer.text = "operands offer deriv/deriv2 in every combination"
            K = F.make_interp(P)
            K.assumption_fns.append(answer)
            pot = K.run(fi, [a, b])
            v = K.num(K.call(pot, [r], {}))
            prev = v
            for meth in ("deriv", "deriv2"):
                h = K.hasattr(pot, meth)
                if h is not True:
                    if h is not False:
                        bad.append("%s: presence of %s undecided (%r)" % (have, meth, h))
                    break
                d = K.num(K.call(K.getattr(pot, meth), [r], {}))
                n += 1
                ok, why = ep.equal(d, ep.D(prev, "r"))
                if not ok:
                    bad.append("a:%s/%s b:%s/%s  %s is not d/dr of the previous order (%s)" % (combo[0], combo[1], combo[2], combo[3], meth, why))
                prev = d
        chk.ob("C07.O2a", "%s(a,b): in all 16 combinations of operands offering deriv/deriv2, every derivative offered (%d in total) is "
                          "d/dr of the order below" % (name, n), not bad and n >= 12, site=fi.site(), found="; ".join(bad[:3]) if bad else n,
               expect="all identities hold", key="C07.O2a|%s|all-presences" % name)


def _or_of(c):
    if isinstance(c, Cond) and c.kind == "or":
        s = set()
        for a in c.args:
            s |= _or_of(a)
        return s
    return {repr(c.key())}


class _Builder(object):
    def m_create_potential_function(self, I, args, kwargs):
        return Opaque(("built", args[0].key()))


def trans(chk, P):
    I = F.make_interp(P)
    I.assumption_fns.append(F.hasattr_true({"deriv": True, "deriv2": True}))
    mod = P.module("atsim.potentials.config._common")
    pfi = I.module_global(mod, "PotentialFormInstanceTuple")
    first = I.call(pfi, [Const("as.buck"), ListV([], "list"), NONE, NONE], {})
    second = I.call(pfi, [Const("as.constant"), ListV([Num(ep.sym("X"))], "list"), NONE, NONE], {})
    fi = F.modifier_ref(P, "trans")
    t = fi.call(I, [ListV([first, second], "list"), PyObjV(_Builder())])
    r = Num(ep.sym("r"))
    v = I.num(I.call(t, [r], {}))
    d1 = I.num(I.call(I.getattr(t, "deriv"), [r], {}))
    d2 = I.num(I.call(I.getattr(t, "deriv2"), [r], {}))
    # whichever potential the modifier builds, its derivatives must be those of the value it returns (same shifted argument)
    dcheck(chk, "C07.O4", "trans(f, X).deriv(r) = d/dr trans(f, X)(r)", v, d1, fi.site(), "C07.O4|trans|deriv")
    dcheck(chk, "C07.O4", "trans(f, X).deriv2(r) = d/dr trans(f, X).deriv(r)", d1, d2, fi.site(), "C07.O4|trans|deriv2")
    shifted = [a for a in v.atoms() if isinstance(a, ep.AppA) and a.args and ep.equal(a.args[0], ep.sym("r") + ep.sym("X"))[0]]
    chk.ob("C07.O4", "trans(f, X)(r) evaluates its potential at r + X", len(shifted) == 1 and ep.equal(v, ep.RF(ep.patom(shifted[0])))[0],
           site=fi.site(), found=v, expect="g(r + X)", key="C07.O4|trans|value")


def multirange(chk, P):
    """a one-range potential (start 2, exclusive) built through the constructor and evaluated above and below its start"""
    mod = "atsim.potentials._multi_range_potential_form"
    cls = P.cls(mod, "Multi_Range_Potential_Form_Deriv2")
    defn = P.cls(mod, "Multi_Range_Defn")
    for has_d, has_d2 in ((True, True), (True, False), (False, False)):
        offers = "f offers %s" % (" and ".join(n for n, h in (("deriv", has_d), ("deriv2", has_d2)) if h) or "no analytic derivative")
        from fractions import Fraction
        tiny = Fraction(1, 10 ** 12)
        for scenario, rv in (("selected", 3), ("none", 1), ("selected", 2 + tiny), ("none", 2 - tiny), ("none", 2)):
            I = F.make_interp(P)
            I.assumption_fns.append(F.hasattr_true({"deriv": has_d, "deriv2": has_d2}))
            rd = I.instantiate(defn, [Const(">"), Num(ep.const(2)), W.param("f")], {}, None)
            inst = I.instantiate(cls, [rd], {"default_value": Num(ep.sym("default"))}, None)
            r = Num(ep.const(rv))
            for meth, order in (("__call__", 0), ("deriv", 1), ("deriv2", 2)):
                v = I.num(I.call(I.getattr(inst, meth), [r], {}))
                if scenario == "selected":
                    want = ep.app(("param", "f"), [ep.const(rv)], dorder=order)
                    what = "%s uses the selected range's %s at r (%s)" % (meth, ["value", "first derivative", "second derivative"][order], offers)
                else:
                    want = ep.sym("default") if order == 0 else ep.const(0)
                    what = "%s returns %s when no range contains r (%s)" % (meth, "default_value" if order == 0 else "0.0", offers)
                ok, why = ep.equal(v, want)
                chk.ob("C07.O5", what, ok, site=cls.lookup(meth).site(), found=why or v, expect=want,
                       key="C07.O5|%s|%s|%s%s" % (scenario if rv in (3, 1) else "%s@%s" % (scenario, float(rv)), meth, int(has_d), int(has_d2)))


def phi_leaves(v, conds=()):
    if isinstance(v, Phi):
        return phi_leaves(v.a, conds + ((repr(v.cond.key()), True),)) + phi_leaves(v.b, conds + ((repr(v.cond.key()), False),))
    return [(conds, v)]


def splines(chk, P, rule="C07.O6"):
    mod = "atsim.potentials.spline"
    cls = P.cls(mod, "Custom_SplinePotential")
    sp = P.cls(mod, "Spline_Point")
    I = F.make_interp(P)
    I.assumption_fns.append(F.hasattr_true({"deriv": True, "deriv2": True}))
    dp = I.instantiate(sp, [W.param("start"), Num(ep.sym("detach"))], {}, None)
    ap = I.instantiate(sp, [W.param("end"), Num(ep.sym("attach"))], {}, None)

    class Spl(object):
        """a spline object as Custom_SplinePotential sees it: two points and a callable with derivatives"""
        def get_detach_point(self, J):
            return dp

        def get_attach_point(self, J):
            return ap

        def m___call__(self, J, args, kwargs):
            return J.call(W.param("spline"), [args[0]], {})

        def m_deriv(self, J, args, kwargs):
            return J.call(DerivV(W.param("spline"), 1), [args[0]], {})

        def m_deriv2(self, J, args, kwargs):
            return J.call(DerivV(W.param("spline"), 2), [args[0]], {})
    holder = PyObjV(Spl())
    pot = I.instantiate(cls, [holder], {}, None)
    r = Num(ep.sym("r"))
    val = I.call(pot, [r], {})
    lv = phi_leaves(val)
    site = cls.site_of("__call__")
    chk.ob(rule, "Custom_SplinePotential.__call__ distinguishes three regions", len(lv) == 3, site=site, found=val,
           expect="start / end / spline by position of r", key=rule + "|custom|regions")
    for meth, order in (("deriv", 1), ("deriv2", 2)):
        dv = I.call(I.getattr(pot, meth), [r], {})
        ld = phi_leaves(dv)
        same = [c for c, _ in lv] == [c for c, _ in ld]
        chk.ob(rule, "%s classifies r into the same regions as __call__" % meth, same, site=cls.site_of("__call__"),
               found=[c for c, _ in ld], expect=[c for c, _ in lv], key=rule + "|custom|%s-regions" % meth)
        if same:
            for (c, v0), (_, v1) in zip(lv, ld):
                want = ep.D(I.num(v0), "r")
                for _ in range(order - 1):
                    want = ep.D(want, "r")
                ok, why = ep.equal(I.num(v1), want)
                chk.ob(rule, "%s in region %s is the derivative of that region's function" % (meth, _region(c)), ok,
                       site=cls.site_of("__call__"), found=why or v1, expect=want,
                       key=rule + "|custom|%s|%s" % (meth, _region(c)))
    # Exp_Spline / Buck4_Spline built through their constructors (linear solve captured: coefficients are symbols)
    from .c10 import numpy_model, SolveCapture, _point_syms
    I2 = F.make_interp(P)
    numpy_model(I2, SolveCapture(), "B")

    def noshift(cond):
        if isinstance(cond, Cond) and ((cond.kind == "cmp" and cond.args[0] == "<=") or cond.kind == "or"):
            return False
        return None
    noshift.text = "Exp_Spline positivity shift not taken (checked in C10.O2)"
    I2.assumption_fns.append(noshift)
    ecls = P.cls(mod, "Exp_Spline")
    es = I2.instantiate(ecls, [_point_syms(I2, P, "s", "sx"), _point_syms(I2, P, "e", "ex")], {}, None)
    prev = None
    for meth, order in (("__call__", 0), ("deriv", 1), ("deriv2", 2)):
        v = I2.num(I2.call(I2.getattr(es, meth), [r], {}))
        if order == 0:
            ok = v.depends_on("r") and v.depends_on("B5")
            chk.ob(rule, "Exp_Spline.__call__ is a function of r and of the solved coefficients", ok, site=ecls.lookup(meth).site(), found=v,
                   expect="exp(B0 + ... + B5 r^5) + C", key=rule + "|exp_spline|%s" % meth)
        else:
            ok, why = ep.equal(v, ep.D(prev, "r"))
            chk.ob(rule, "Exp_Spline.%s is the derivative of Exp_Spline.%s" % (meth, "__call__" if order == 1 else "deriv"), ok,
                   site=ecls.lookup(meth).site(), found=why or v, expect=ep.D(prev, "r"), key=rule + "|exp_spline|%s" % meth)
        prev = v
    # Buck4_Spline: one selector for all three
    b4 = P.cls(mod, "Buck4_Spline")
    I3 = F.make_interp(P)
    numpy_model(I3, SolveCapture(), "u")
    binst = I3.instantiate(b4, [_point_syms(I3, P, "s", "r_dp"), _point_syms(I3, P, "e", "r_ap"), Num(ep.sym("r_min"))], {}, None)
    pieces = [I3.num(I3.call(I3.getattr(binst, nm), [r], {})) for nm in ("spline5", "spline3")]
    vals = {}
    for meth, order in (("__call__", 0), ("deriv", 1), ("deriv2", 2)):
        v = I3.call(I3.getattr(binst, meth), [r], {})
        leaves = phi_leaves(v)
        vals[meth] = leaves
        ok = len(leaves) == 2
        if ok:
            for (c, leaf), piece in zip(leaves, pieces):
                want = piece
                for _ in range(order):
                    want = ep.D(want, "r")
                ok = ok and ep.equal(I3.num(leaf), want)[0]
        ok = ok and [c for c, _ in leaves] == [c for c, _ in vals["__call__"]]
        chk.ob(rule, "Buck4_Spline.%s uses the quintic below r_min and the cubic above, same test as __call__" % meth, ok,
               site=b4.lookup(meth).site(), found=v, expect="phi(r < r_min ? spline5%s(r) : spline3%s(r))" % ("'" * order, "'" * order),
               key=rule + "|buck4|%s" % meth)


def _region(conds):
    return "/".join("%s%s" % ("" if v else "not ", c[:60]) for c, v in conds)


def wrappers(chk, P):
    I = F.make_interp(P)
    r = Num(ep.sym("r"))
    # factories: wrapper.deriv(r) = D wrapper(r), for a representative of each arity
    m = P.module(F.PFORMS)
    for name in ("buck", "morse", "zbl", "polynomial"):
        fac = I.module_global(m, name)
        params = ["p0", "p1", "p2"] if name != "zbl" else ["p0", "p1"]
        f = I.call(fac, F.sym_args(params), {})
        v = I.num(I.call(f, [r], {}))
        d1 = I.num(I.call(I.getattr(f, "deriv"), [r], {}))
        d2 = I.num(I.call(I.getattr(f, "deriv2"), [r], {}))
        site = P.cls(F.PFORMS, "_FunctionFactory").site_of("__call__")
        dcheck(chk, "C07.O7", "potentialforms.%s(...).deriv is the derivative of the bound function" % name, v, d1, site,
               "C07.O7|factory|%s|deriv" % name)
        dcheck(chk, "C07.O7", "potentialforms.%s(...).deriv2 is the derivative of its deriv" % name, d1, d2, site,
               "C07.O7|factory|%s|deriv2" % name)
    tableform_derivs(chk, P, "C07.O7")


TABLES = (("uneven", (1, 2, 4, 7)), ("even", (1, 2, 3, 4, 5)))


def tableform_derivs(chk, P, rule, clauses=("derivs",)):
    """every interpolation class the table-form builder can pick (found the way the builder finds them): a thin wrapper of
    a library interpolant is decided on opaque data (its derivative objects are the interpolant's own); any other class is
    evaluated on concrete knots with symbolic y values - at the knots, outside the data and, with x confined to one knot
    interval at a time, between them"""
    for label, tf in F.tableform_classes(P):
        if is_library_wrapper(P, tf):
            if "derivs" in clauses:
                _wrapper_derivs(chk, P, rule, label, tf)
        else:
            _tableform_on_knots(chk, P, rule, label, tf, clauses)


def _tableform_on_knots(chk, P, rule, label, tf, clauses):
    from ..symeval import RaiseSignal
    has = dict((m, tf.lookup(m) is not None) for m in ("deriv", "deriv2"))
    for tname, xs in TABLES:
        n = len(xs)
        for pres in ("ascending", "descending"):
            order = list(range(n)) if pres == "ascending" else list(range(n - 1, -1, -1))
            J = F.make_interp(P)
            xl = ListV([Num(ep.const(xs[i])) for i in order], "list")
            yl = ListV([Num(ep.sym("y%d" % i)) for i in order], "list")
            what = "table form %r, %s knots %s listed %s" % (label, tname, list(xs), pres)
            key = "%s|tableform|%s|%s|%s" % (rule, label, tname, pres)
            if pres == "descending":
                # a class that hands unsorted knots straight to a library routine defined for increasing knots only does not
                # offer such data (C18 speaks of strictly increasing x); a class that orders its data first is evaluated
                try:
                    probe = F.make_interp(P)
                    pi = probe.instantiate(tf, [xl, yl], {}, None)
                    probe.call(pi, [Num(ep.const(xs[1]))], {})
                except RaiseSignal:
                    pass
                except AnalysisError as e:
                    if "not increasing" in str(e) or "not sorted" in str(e):
                        chk.assume("table form %r passes its knots unsorted to a routine defined for increasing knots: decreasing "
                                   "listings are outside its (and C18's) domain" % label)
                        continue
                    raise
            try:
                inst = J.instantiate(tf, [xl, yl], {}, None)
            except RaiseSignal as e:
                chk.ob(rule, "%s: accepted" % what, pres == "descending", site=tf.site_of("__init__"), found=e.exc,
                       expect="a table form" if pres == "ascending" else "a table form or a refusal", key=key + "|accepted")
                continue

            def ev(meth, x, J=J, inst=inst):
                try:
                    return J.num(J.call(J.getattr(inst, meth) if meth != "__call__" else inst, [Num(x)], {}))
                except RaiseSignal as e:
                    return e.exc

            def same(a, b):
                return not isinstance(a, ExcV_) and ep.equal(a, b)[0]
            if "points" in clauses:
                for i in range(n):
                    v = ev("__call__", ep.const(xs[i]))
                    chk.ob(rule, "%s: the value at the knot x = %s is the tabulated y" % (what, xs[i]), same(v, ep.sym("y%d" % i)),
                           site=tf.site_of("__call__"), found=v, expect="y%d" % i, key=key + "|knot%d" % i)
                for x0 in (xs[0] - 1, xs[-1] + 1):
                    v = ev("__call__", ep.const(x0))
                    chk.ob(rule, "%s: the value outside the data range (x = %s) is 0" % (what, x0), same(v, ep.const(0)),
                           site=tf.site_of("__call__"), found=v, expect=0, key=key + "|outside%s" % x0)
            if "derivs" in clauses and has["deriv"]:
                ivs = [(xs[k], xs[k + 1]) for k in range(n - 1)] + [(xs[0] - 5, xs[0]), (xs[-1], xs[-1] + 5)]
                for lo, hi in ivs:
                    J.sym_intervals = {"x": (lo, hi)}
                    try:
                        v = ev("__call__", ep.sym("x"))
                        d1 = ev("deriv", ep.sym("x"))
                        ok = not isinstance(v, ExcV_) and not isinstance(d1, ExcV_) and ep.equal(d1, ep.D(v, "x"))[0]
                        chk.ob(rule, "%s: deriv(x) is d/dx of the value for %s < x < %s" % (what, lo, hi), ok, site=tf.site_of("deriv"),
                               found=d1, expect=(ep.D(v, "x") if not isinstance(v, ExcV_) else v), key=key + "|deriv|%s-%s" % (lo, hi))
                        if has["deriv2"] and not isinstance(d1, ExcV_):
                            d2 = ev("deriv2", ep.sym("x"))
                            ok = not isinstance(d2, ExcV_) and ep.equal(d2, ep.D(d1, "x"))[0]
                            chk.ob(rule, "%s: deriv2(x) is d/dx of deriv for %s < x < %s" % (what, lo, hi), ok, site=tf.site_of("deriv2"),
                                   found=d2, expect=ep.D(d1, "x"), key=key + "|deriv2|%s-%s" % (lo, hi))
                    finally:
                        J.sym_intervals = {}


def _wrapper_leaves(J, v):
    """[(conditions, kind, path)] of the value a wrapper returns at x: kind 'zero' | 'app' (path applied to x) | 'other'"""
    out = []
    for conds, leaf in phi_leaves(v):
        if isinstance(leaf, Num) and leaf.rf.is_zero():
            out.append((conds, "zero", None))
            continue
        hit = None
        if isinstance(leaf, Num):
            for a in leaf.rf.atoms():
                fn = getattr(a, "fn", None)
                if fn is not None and ep.equal(leaf.rf, ep.app(fn, [ep.sym("x")]))[0]:
                    hit = fn
        out.append((conds, "app" if hit is not None else "other", hit if hit is not None else leaf))
    return out


def is_library_wrapper(P, tf):
    """does the class evaluate a library interpolant built from its data - every value it can return at x is 0 or
    <object made by a library call>(x)?"""
    J = F.make_interp(P)
    try:
        inst = J.instantiate(tf, [W.param("x"), W.param("y")], {}, None)
        lv = _wrapper_leaves(J, J.call(inst, [Num(ep.sym("x"))], {}))
    except (AnalysisError, RaiseSignal):
        return False
    return bool(lv) and all(k in ("zero", "app") for _, k, _ in lv) and any(k == "app" and "extcall" in repr(p) for _, k, p in lv)


def _wrapper_derivs(chk, P, rule, label, tf):
    """value, deriv and deriv2 distinguish the same cases; where the value is 0 the derivatives are 0, where it is S(x) for a
    library object S they are S.derivative()(x) and S.derivative().derivative()(x)"""
    J = F.make_interp(P)
    tag = "tableform" if label == "cubic_spline" else "tableform:" + label
    inst = J.instantiate(tf, [W.param("x"), W.param("y")], {}, None)
    site = tf.site_of("__init__")
    x = Num(ep.sym("x"))
    got = dict((meth, _wrapper_leaves(J, J.call(J.getattr(inst, meth), [x], {}))) for meth in ("__call__", "deriv", "deriv2"))
    base = got["__call__"]

    def dpath(p, order):
        for _ in range(order):
            p = ("call", ("attr", p, "derivative"), ())
        return p
    for meth, order, what in (("deriv", 1, "interpolant.derivative() (first derivative, no order argument)"),
                              ("deriv2", 2, "interpolant.derivative().derivative() (first derivative of the first derivative)")):
        lv = got[meth]
        ok = [c for c, _, _ in lv] == [c for c, _, _ in base]
        if ok:
            for (c, k0, p0), (_, k1, p1) in zip(base, lv):
                if k0 == "zero":
                    ok = ok and k1 == "zero"
                elif k0 == "app":
                    ok = ok and k1 == "app" and ep.equal(ep.app(p1, [ep.sym("x")]), ep.app(dpath(p0, order), [ep.sym("x")]))[0]
                else:
                    ok = False
        chk.ob(rule, "table form %r: %s evaluates %s wherever the value is the interpolant, and is 0 where the value is 0" % (label, meth, what),
               ok, site=site, found=[(k, p) for _, k, p in lv], expect="%s(x) in the cases of __call__" % what.split(" ")[0],
               key=rule + "|%s|%s" % (tag, meth))
    for meth in ("__call__", "deriv", "deriv2"):
        lv = got[meth]
        ok = all(k in ("zero", "app") for _, k, _ in lv) and any(k == "app" for _, k, _ in lv)
        chk.ob(rule, "table form %s evaluates its own library object at the argument x (or returns 0 outside its range)" % meth, ok,
               site=tf.lookup(meth).site(), found=[(k, p) for _, k, p in lv], expect="<library object>(x)", key=rule + "|%s|%s-eval" % (tag, meth))


def force(chk, P):
    I = F.make_interp(P)
    pot = I.opaque_instance(P.cls(*W.POT), ("param", "pot"))
    r = Num(ep.sym("r"))
    f = I.num(W.run_method(I, pot, "force", [r]))
    want = -ep.app(("attr", ("param", "pot"), "potentialFunction"), [ep.sym("r")], dorder=1)
    chk.ob("C07.O8", "Potential.force(r) = -d/dr potentialFunction(r)", ep.equal(f, want)[0],
           site=P.func("atsim.potentials._potential", "Potential.force").site(), found=f, expect=want, key="C07.O8|Potential.force")

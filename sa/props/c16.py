"""C16 - malformed models give configuration errors; valid ones are never rejected (DESIGN.md section 4, C16)."""
import ast
import builtins
import itertools
import os
import re
import symtable

from .. import ep
from ..model import AnalysisError, ClassInfo, FuncInfo, ExternalClass
from ..values import *     # noqa
from ..symeval import RaiseSignal
from ..symeval_ops import ExcV, NTV, PyObjV
from .. import formrules as F
from .. import writerules as W
from .. import cfgmodel as M
from .c14 import parse, CP
from .c09 import Builder

COMMON = "atsim.potentials.config._common"
MODS = "atsim.potentials._modifiers"

EXPLANATION = (
    "Error discipline on the configuration path, decided by: (E1) a symbol-table pass over every function of the package for "
    "names that resolve nowhere; (E8) a who-may-raise rule - every raise statement in the configuration modules raises a "
    "class derived from ConfigurationException (three reasoned exceptions); (E3-E6, E11) abstract evaluation of each "
    "input-validating function on every class of malformed and well-formed input of its finite input partition (delimiter "
    "patterns of keys, presence subsets of table-form options, part counts and r_min positions of spline definitions, "
    "non-numeric values, each configparser error class, unknown names) and classification of the outcome as configuration "
    "error / accepted / internal exception; (E7) every true division evaluated along any target's write path has a "
    "denominator that cannot vanish for a row count accepted by that target's validation; (E9) main() converts "
    "ConfigurationException into the 'configuration error - ...' usage error; (E10) every option value the manual lists as "
    "valid is accepted.")


def is_cfg(P, exc):
    cfg = P.cls(COMMON, "ConfigurationException")
    return isinstance(exc, ExcV) and isinstance(exc.cls, ClassV) and exc.cls.ci.is_subclass_of(cfg)


def outcome(fn):
    try:
        return ("ok", fn())
    except RaiseSignal as e:
        return ("raise", e.exc)


def classify(P, out):
    if out[0] == "ok":
        return "accepted"
    return "config-error" if is_cfg(P, out[1]) else "internal %r" % (out[1],)


def run(chk):
    P = F.load_program()
    chk.explanation = EXPLANATION
    chk.info.update(P.stats())
    chk.rule("C16.E1", "no function of the package refers to a name that is defined nowhere", 300)
    chk.rule("C16.E3", "malformed species keys (pair 'A-B', 'A->B', 'SPECIES.PROPERTY') give configuration errors; well-formed ones parse", 12)
    chk.rule("C16.E4", "non-numeric values ([Tabulation], [Species], table-form data) give configuration errors", 8)
    chk.rule("C16.E5", "table-form option subsets: exactly {x,y} or {xy} accepted, every other subset a configuration error", 8)
    chk.rule("C16.E6", "every configparser error while reading or substituting is converted to a configuration error", 7)
    chk.rule("C16.E7", "no denominator on a target's write path can vanish for a row count its validation accepts", 22)
    chk.rule("C16.E8", "every raise on the configuration path raises a ConfigurationException subclass", 40)
    chk.rule("C16.E9", "the console entry point reports ConfigurationException as 'configuration error - ...' and wires parser and options to its worker", 4)
    chk.rule("C16.E10", "values the reference manual lists as valid are accepted (targets, interpolation, modifiers, forms)", 4)
    chk.rule("C16.E11", "spline()/trans() definitions: wrong part counts, keywords, parameter counts and r_min positions rejected; well-formed accepted", 18)
    chk.rule("C16.E12", "unknown target / form / modifier / interpolation / missing section give configuration errors", 6)
    chk.attempt("E1", lambda: undefined_names(chk, P))
    chk.attempt("E3", lambda: species_keys(chk, P))
    chk.attempt("E4", lambda: non_numeric(chk, P))
    chk.attempt("E5", lambda: table_subsets(chk, P))
    chk.attempt("E6", lambda: parser_errors(chk, P))
    chk.attempt("E7", lambda: denominators(chk, P))
    chk.attempt("E8", lambda: raise_classes(chk, P))
    chk.attempt("E9", lambda: main_wraps(chk, P))
    chk.attempt("E10", lambda: documented_valid(chk, P))
    chk.attempt("E11", lambda: spline_guards(chk, P))
    chk.rule("C16.E13", "names in [Potential-Form] that the expression library refuses (a parameter or form named like another form, "
                        "an exprtk constant or built-in) give configuration errors; clash-free definitions are accepted", 5)
    chk.rule("C16.E14", "a custom form called from a formula with the wrong number of arguments is a configuration error "
                        "(exprtk calls the registered function with as many arguments as the formula wrote)", 3)
    chk.rule("C16.E15", "no except handler on the configuration path swallows the error (body empty apart from pass / logging)", 25)
    chk.attempt("E15", lambda: no_swallowing(chk, P))
    chk.attempt("E13", lambda: name_clashes(chk, P))
    chk.attempt("E14", lambda: nested_call_arity(chk, P))
    # E10 also: the documented Finnis-Sinclair targets reach the Finnis-Sinclair builder - with the plain EAM builder every
    # well-formed 'A->B' density model of that target is refused ("could not find atomic number for species A->B")
    from .c04 import factories as _fs_factories
    chk.attempt("E10fs", lambda: _fs_factories(chk, P, "C16.E10"))
    chk.attempt("E12", lambda: unknown_names(chk, P))
    chk.attempt("E12t", lambda: table_form_arity(chk, P))
    chk.assume("Python can raise from almost anything; this is conformance of the enumerated input partitions and rules, "
               "not absence of every internal exception")
    chk.assume("errors raised inside cexprtk/pyparsing for malformed formula or definition text are mapped by the handlers checked in E8/E12 "
               "(their matching is library behaviour)")


# ---------------------------------------------------------------------------
def undefined_names(chk, P):
    known_builtins = set(dir(builtins))
    n = 0
    for m in sorted(P.modules.values(), key=lambda x: x.name):
        if not m.name.startswith("atsim"):
            continue
        modnames = set(m.bindings)
        for t in m.star_imports:
            tm = P.modules.get(t)
            if tm is not None:
                modnames |= set(x for x in tm.bindings if not x.startswith("_"))
            else:
                modnames.add("*")
        try:
            import warnings
            with warnings.catch_warnings():
                warnings.simplefilter("ignore")
                top = symtable.symtable(m.src, m.path, "exec")
        except SyntaxError as e:
            raise AnalysisError("symtable failed for %s: %s" % (m.path, e))
        # names bound at module level by any statement (loops, with, etc.)
        for sym in top.get_symbols():
            if sym.is_assigned() or sym.is_imported():
                modnames.add(sym.get_name())

        def walk(tab, qual):
            nonlocal n
            for child in tab.get_children():
                cq = (qual + "." if qual else "") + child.get_name()
                if child.get_type() == "function":
                    n += 1
                    bad = []
                    for sym in child.get_symbols():
                        if sym.is_referenced() and sym.is_global() and not sym.is_assigned():
                            name = sym.get_name()
                            if name not in modnames and name not in known_builtins and "*" not in modnames and name != "__class__":
                                bad.append(name)
                    chk.ob("C16.E1", "%s:%s - every global name it reads is defined" % (m.name.split("atsim.potentials.")[-1], cq), not bad,
                           site="%s:%d %s" % (m.relpath, child.get_lineno(), cq), found=bad or None, expect="module binding, import or builtin",
                           key="C16.E1|%s|%s" % (m.name, cq))
                walk(child, cq)
        walk(top, "")
    return n


# ---------------------------------------------------------------------------
def species_keys(chk, P):
    cls = P.cls(CP, "ConfigParser")

    def rows_of(text, prop):
        def go():
            out = parse(P, text)
            if out[0] != "ok":
                raise RaiseSignal(out[1], None)
            I, cp = out[3], out[4]
            return I.getattr(cp, prop)
        return outcome(go)
    site = cls.site_of("pair")
    for key in ("AB", "A-B", " A - B ", "A-B-C", "-"):
        out = rows_of("[Pair]\n%s : as.zero\n" % key, "pair")
        want = "accepted" if key.count("-") == 1 else "config-error"
        chk.ob("C16.E3", "[Pair] key %r (%d hyphen(s)) -> %s" % (key, key.count("-"), want), classify(P, out) == want, site=site,
               found=classify(P, out), expect=want, key="C16.E3|pair|%s" % key)
    for key in ("AB", "A->B", "A -> B", "A->B->C", "A-B"):
        out = rows_of("[EAM-Density]\n%s : as.zero\n" % key, "eam_density_fs")
        want = "accepted" if key.count("->") == 1 else "config-error"
        chk.ob("C16.E3", "[EAM-Density] key %r -> %s" % (key, want), classify(P, out) == want,
               site=cls.site_of("eam_density_fs"), found=classify(P, out), expect=want, key="C16.E3|fs|%s" % key)
    # the wrapper turns any ConfigParserException of the key/definition parser into its own message (still a configuration error)
    # [Species]
    for text, want in (("[Species]\nAl.atomic_mass : 26.9\n", "accepted"), ("[Species]\nAl : 26.9\n", "config-error"),
                       ("[Species]\nAl.lattice_type : bcc\n", "accepted"), ("[Species]\nAl.foo.bar : x\n", "accepted")):
        out = parse(P, "[Pair]\nA-B : as.zero\n" + text)
        if out[0] == "ok":
            I2, cp2 = out[3], out[4]
            o2 = outcome(lambda: I2.getattr(cp2, "species"))
        else:
            o2 = out
        chk.ob("C16.E3", "%r -> %s" % (text.split("\n")[1], want), classify(P, o2) == want, site=cls.site_of("species"),
               found=classify(P, o2), expect=want, key="C16.E3|species|%s" % text.split("\n")[1])


def non_numeric(chk, P):
    cls = P.cls(CP, "ConfigParser")
    for text, accessor, want in (
            ("[Tabulation]\nnr : abc\n", "tabulation", "config-error"), ("[Tabulation]\nnr : 5.5\n", "tabulation", "config-error"),
            ("[Tabulation]\ncutoff : ten\n", "tabulation", "config-error"), ("[Tabulation]\ndrho : x\nnrho : 5\n", "tabulation", "config-error"),
            ("[Tabulation]\nnr : 11\ncutoff : 2.5\n", "tabulation", "accepted"),
            ("[Species]\nAl.atomic_mass : abc\n", "species", "config-error"), ("[Species]\nAl.atomic_number : 1.5\n", "species", "config-error"),
            ("[Species]\nAl.charge : -2\n", "species", "accepted")):
        out = parse(P, "[Pair]\nA-B : as.zero\n" + text)
        if out[0] == "ok":
            I2, cp2 = out[3], out[4]
            o2 = outcome(lambda: I2.getattr(cp2, accessor))
        else:
            o2 = out
        chk.ob("C16.E4", "%r -> %s" % (" / ".join(text.strip().split("\n")[1:]), want), classify(P, o2) == want, site=cls.lookup(accessor).site(),
               found=classify(P, o2), expect=want, key="C16.E4|%s" % text.strip().replace("\n", ";"))


def table_subsets(chk, P):
    cls = P.cls(CP, "_TableFormSection")
    opts = {"x": "x : 0 1 2 3", "y": "y : 0 1 2 3", "xy": "xy : 0 0 1 1 2 2 3 3"}
    for r in range(0, 4):
        for sub in itertools.combinations(("x", "y", "xy"), r):
            text = "[Pair]\nA-B : as.zero\n[Table-Form:t]\ninterpolation : cubic_spline\n" + "".join(opts[o] + "\n" for o in sub)
            out = parse(P, text)
            if out[0] == "ok":
                I2, cp2 = out[3], out[4]
                o2 = outcome(lambda: I2.getattr(cp2, "table_form"))
            else:
                o2 = out
            want = "accepted" if set(sub) in ({"x", "y"}, {"xy"}) else "config-error"
            chk.ob("C16.E5", "table form with options %s -> %s" % (list(sub) or "none", want), classify(P, o2) == want,
                   site=cls.site_of("_parse_data"), found=classify(P, o2), expect=want, key="C16.E5|%s" % "+".join(sub))


def parser_errors(chk, P):
    cls = P.cls(CP, "ConfigParser")
    site = cls.site_of("_init_config_parser")
    for what, text in (("text that is not an INI file", "hello world\n"), ("an option before any section", "a : 1\n[Pair]\nA-B : as.zero\n"),
                       ("a line that is neither option nor section", "[Pair]\nA-B : as.zero\njust some words\n"),
                       ("duplicate option", "[Pair]\nA-B : as.zero\nA-B : as.zero\n"), ("duplicate section", "[Pair]\nA-B : as.zero\n[Pair]\nC-D : as.zero\n")):
        out = parse(P, text)
        chk.ob("C16.E6", "%s -> configuration error" % what, classify(P, out) == "config-error", site=site, found=classify(P, out),
               expect="config-error", key="C16.E6|read|%s" % what)
    # every error class the library can raise from read_file is covered by the handlers
    for name in ("MissingSectionHeaderError", "ParsingError", "DuplicateOptionError", "DuplicateSectionError", "Error"):
        I = F.make_interp(P)
        M.install_rawconfigparser(I)
        I.ext_methods[("RawConfigParser", "read_file")] = lambda I_, inst, a, k, name=name: (_ for _ in ()).throw(RaiseSignal(M.cfg_exc(name), None))
        out = outcome(lambda: I.instantiate(cls, [PyObjV(M.TextFile(""))], {}, None))
        chk.ob("C16.E6", "configparser.%s raised by read_file -> configuration error" % name, classify(P, out) == "config-error", site=site,
               found=classify(P, out), expect="config-error", key="C16.E6|class|%s" % name)
    raw = P.cls(CP, "_RawConfigParser")
    for name in ("InterpolationMissingOptionError", "InterpolationSyntaxError", "InterpolationDepthError"):
        I = F.make_interp(P)
        M.install_rawconfigparser(I)
        out0 = parse(P, "[Pair]\nA-B : as.zero\n")
        I2, cp2 = out0[3], out0[4]
        I2.ext_methods[("RawConfigParser", "get")] = lambda I_, inst, a, k, name=name: (_ for _ in ()).throw(RaiseSignal(M.cfg_exc(name), None))
        rawinst = I2.getattr(cp2, "raw_config_parser")
        out = outcome(lambda: I2.call(I2.getattr(rawinst, "get"), [Const("Pair"), Const("A-B")], {}))
        chk.ob("C16.E6", "configparser.%s raised while a value is read -> configuration error" % name, classify(P, out) == "config-error",
               site=raw.site_of("get") if raw.lookup("get") else None, found=classify(P, out), expect="config-error",
               key="C16.E6|interp|%s" % name)


# ---------------------------------------------------------------------------
def accepted_counts(P, target, eam, upto=13, which="nr"):
    """values 1..upto of the row count `which` (nr / nrho) that survive _init_cutoff and the target factory's
    extract_cutoffs, the other count being held at a value every target accepts (52)"""
    ok = []
    for k in range(1, upto + 1):
        text = "[Tabulation]\ntarget : %s\nnr : %d\nnrho : %d\n[Pair]\nA-B : as.zero\n" % (
            target, k if which == "nr" else 52, k if which == "nrho" else 52)
        out = parse(P, text)
        if out[0] != "ok":
            continue
        I, cp = out[3], out[4]
        mod = P.module("atsim.potentials.config._tabulation_factories")
        table = I.module_global(mod, "TABULATION_FACTORIES")
        fac = table.items[Const(W.resolve_target(P, target)).key()][1]
        o = outcome(lambda: W.run_method(I, fac, "extract_cutoffs", [cp]))
        if o[0] == "ok":
            ok.append(k)
    return ok


def registered_targets(P):
    """[(target name, tabulation class)] of the package's own factory table"""
    I0 = W.make_interp(P)
    mod = P.module("atsim.potentials.config._tabulation_factories")
    table = I0.module_global(mod, "TABULATION_FACTORIES")
    return [(key.v, I0.getattr(fac, "tabulation_class").ci) for key, fac in sorted(table.items.values(), key=lambda kv: kv[0].v)]


def write_target(P, tc):
    """the tabulation class tc built on symbolic constructor arguments (its own parameter names) and written once
    -> (interpreter, is it an EAM class)"""
    from .c17 import concrete_pots, concrete_eam
    from .. import excelmodel
    eam = tc.is_subclass_of(P.cls("atsim.potentials.eam_tabulation", "_EAMTabulationAbstractbase"))
    excel = "Excel" in tc.name
    fs = "Finnis" in tc.name or "_FS_" in tc.name
    I = W.make_interp(P, elem=W.EAM_ELEM)
    if excel:
        excelmodel.install(I)
    init = tc.lookup("__init__")
    params = init.params()[1:]
    ndef = len(init.node.args.defaults)
    optional = set(params[len(params) - ndef:]) if ndef else set()
    args = []
    for p in params:
        if p in optional and p not in ("potentials", "eam_potentials", "dipole_potentials", "quadrupole_potentials", "cutoff", "nr",
                                       "cutoff_rho", "nrho"):
            break            # options keep their defaults (every parameter after the first optional one too)
        if p == "potentials":
            args.append(concrete_pots(I, P) if excel else W.param("potentials"))
        elif p == "eam_potentials":
            args.append(concrete_eam(I, P, fs) if excel else W.param("eam_potentials"))
        elif p in ("dipole_potentials", "quadrupole_potentials"):
            I.elem_classes[("param", p)] = P.cls(*W.POT)
            args.append(W.param(p))
        else:
            args.append(W.nsym(p))
    inst = I.instantiate(tc, args, {}, None)
    fp = BufV("fp", is_file=True)
    W.run_method(I, inst, "write", [fp])
    return I, eam


def denominators(chk, P):
    mod = P.module("atsim.potentials.config._tabulation_factories")
    for target, tc in registered_targets(P):
        I, eam = write_target(P, tc)
        upto_ = 48 if chk.tier == "thorough" else 13
        accepted = accepted_counts(P, target, eam, upto_)
        if not accepted:
            raise AnalysisError("validation of target %s accepts no row count in 1..13" % target)
        accepted_by = {"nr": accepted, "nrho": accepted_counts(P, target, eam, upto_, which="nrho") if eam else accepted}
        bad = []
        ndiv = 0
        for den, line, label in I.divisions:
            for symname in ("nr", "nrho"):
                if not den.depends_on(symname):
                    continue
                ndiv += 1
                for k in accepted_by[symname]:
                    v = ep.substitute(den, {symname: ep.const(k)})
                    if v.is_zero():
                        bad.append("%s line %s: denominator %r vanishes for %s = %d" % (label.split(":")[-1], line, den, symname, k))
        # conversely no usable row count is refused: every count from 2 up at which no denominator of the writer vanishes (and,
        # for the DL_POLY TABLE format, which is a multiple of four: C02) passes the validation
        upto = 48 if chk.tier == "thorough" else 13
        dens = [(den, symname) for den, line, label in I.divisions for symname in ("nr", "nrho") if den.depends_on(symname)]
        refused = []
        for k in range(2, upto + 1):
            if k in accepted:
                continue
            if tc.name.startswith("DLPoly") and k % 4 != 0:
                continue
            if any(ep.substitute(den, {symname: ep.const(k)}).is_zero() for den, symname in dens):
                continue
            refused.append(k)
        chk.ob("C16.E7", "target %s: every row count in 2..%d at which its writer's denominators are non-zero is accepted" % (target, upto),
               not refused and ndiv > 0, site="%s TABULATION_FACTORIES[%r]" % (mod.relpath, target), found=refused or None,
               expect="none refused", key="C16.E7|%s|converse" % target)
        chk.ob("C16.E7", "target %s (accepted row counts %s..): none of its %d count-dependent denominators vanishes" % (
            target, accepted[:3], ndiv), not bad and ndiv > 0, site="%s TABULATION_FACTORIES[%r]" % (mod.relpath, target),
               found="; ".join(sorted(set(bad))[:3]) if bad else ("no division found" if not ndiv else None),
               expect="validation excludes every zero of every denominator", key="C16.E7|%s" % target)


# ---------------------------------------------------------------------------
ALLOWED_RAISES = {
    ("atsim.potentials.config._config_parser", "ConfigParser._descend_tree", "Exception"):
        "unknown parse-tree node type: unreachable for trees produced by the grammar (C09.O5)",
    ("atsim.potentials.config._filtered_config_parser", "FilteredConfigParser.__init__", "ValueError"):
        "Python-API misuse (both include and exclude given); the CLI options are mutually exclusive",
    ("atsim.potentials.config._config_parser", "_RawConfigParser.options", "configparser.NoSectionError"):
        "mirrors the base class for a missing section; every caller tests has_section first",
    ("atsim.potentials.config._config_parser", "_RawConfigParser.get", "configparser.NoOptionError"):
        "mirrors the base class when no fallback is given; SectionProxy.__getitem__ tests has_option first",
}


def raise_classes(chk, P):
    cfg = P.cls(COMMON, "ConfigurationException")
    mods = [m for m in P.modules.values() if m.name.startswith("atsim.potentials.config") or m.name == MODS
            or m.name.startswith("atsim.potentials.tools.potable")]
    n = 0
    for fi in P.all_functions():
        if fi.module not in mods:
            continue
        for node in ast.walk(fi.node):
            if not isinstance(node, ast.Raise) or node.exc is None:
                continue
            # skip raises that belong to a nested function (reported there)
            owner = _owner(fi.node, node)
            if owner is not fi.node:
                continue
            exc = node.exc
            target = exc.func if isinstance(exc, ast.Call) else exc
            name = ast.unparse(target)
            n += 1
            if isinstance(target, ast.Name) and _is_local_reraise(fi.node, node, target.id):
                chk.ob("C16.E8", "%s re-raises a locally built exception %s" % (fi.qualname, name), True, site=fi.site(node),
                       key="C16.E8|%s|%s" % (fi.fq, name))
                continue
            r = P.resolve_expr(fi.module, target)
            ok = isinstance(r, ClassInfo) and r.is_subclass_of(cfg)
            why = None
            if not ok:
                why = ALLOWED_RAISES.get((fi.module.name, fi.qualname, name))
                ok = why is not None
            is_class = isinstance(r, (ClassInfo, ExternalClass)) or type(r).__name__ == "External"
            if not ok and name == "NotImplementedError" and fi.cls is not None:
                # an abstract method: its whole body is the raise, and subclasses of its class define the method
                body = [st for st in fi.node.body if not (isinstance(st, ast.Expr) and isinstance(st.value, ast.Constant))]
                subs = [c for c in P.subclasses(fi.cls, strict=True) if fi.name in c.methods]
                if len(body) == 1 and body[0] is node and subs:
                    chk.ob("C16.E8", "%s is an abstract method (NotImplementedError is its whole body; defined by %s)" % (
                        fi.qualname, ", ".join(sorted(c.name for c in subs))), True, site=fi.site(node), key="C16.E8|%s|abstract" % fi.fq)
                    continue
            if not ok and name in ("ValueError", "KeyError", "TypeError", "LookupError"):
                lit = _literal_guard(P, fi, node)
                if lit is not None:
                    pname, allowed, seen = lit
                    chk.ob("C16.E8", "%s raises %s when its parameter %s is not one of %s: every call in the package passes a literal "
                                     "from that set (%s), so no model file reaches it" % (fi.qualname, name, pname, sorted(allowed), sorted(seen)),
                           True, site=fi.site(node), key="C16.E8|%s|literal-guard" % fi.fq)
                    continue
            if not ok and name == "TypeError" and fi.name.startswith("_") and fi.cls is None and _guards_emptiness(fi.node, node):
                # a private helper refusing an empty sequence the way the library function it stands for does (functools.reduce,
                # min/max): whether a model file can make a caller pass an empty sequence is a matter of the grammar, decided by
                # the malformed-input rules E3-E5 through the entry points, not here
                if fi.module.name == MODS and _empty_modifier_refused(P):
                    chk.ob("C16.E8", "%s raises TypeError for an empty sequence of arguments: no model file reaches it (a modifier written "
                                     "without arguments is refused by the parser as a configuration error)" % fi.qualname, True,
                           site=fi.site(node), key="C16.E8|%s|empty-arguments" % fi.fq)
                    continue
                raise AnalysisError("%s line %d raises TypeError for an empty argument: whether user input can reach it is not decided "
                                    "by the who-may-raise rule" % (fi.fq, node.lineno))
            if not ok and isinstance(target, ast.Name) and target.id in [a.arg for a in fi.node.args.args + fi.node.args.kwonlyargs]:
                # raise <parameter>(...): the class is chosen by the callers - every call site in the package must pass a
                # ConfigurationException subclass in that parameter
                classes = _param_classes(P, fi, target.id)
                if classes is not None:
                    ok = bool(classes) and all(c.is_subclass_of(cfg) for c in classes)
                    is_class = True
            if not ok and isinstance(exc, ast.Call) and not is_class:
                # raise helper(...): the helper is an exception factory when every value it returns is a
                # ConfigurationException
                ok = _factory_returns_cfg(P, fi, target, cfg, 3)
                if not ok:
                    # not visible in the helper's shape (e.g. a table of exception classes): evaluate the raised expression
                    # abstractly for every exception class the enclosing handler can have caught
                    verdict = _eval_raise(P, fi, node, cfg)
                    if verdict is None:
                        raise AnalysisError("%s line %d: cannot decide which exception '%s' constructs" % (fi.fq, node.lineno, ast.unparse(exc)[:60]))
                    ok = verdict
            chk.ob("C16.E8", "%s raises %s%s" % (fi.qualname, name, " (allowed: %s)" % why if why else ""), ok, site=fi.site(node),
                   found="%s is not a ConfigurationException" % name if not ok else None, expect="ConfigurationException subclass",
                   key="C16.E8|%s|%s" % (fi.fq, name))
    # exception classes defined on the configuration path all derive from ConfigurationException
    for ci in P.classes.values():
        if ci.module in mods and any(isinstance(c, ExternalClass) and c.name.split(".")[-1] in ("Exception", "LookupError", "ValueError", "KeyError")
                                     for c in ci.mro()) or (ci.module in mods and ci.name.endswith("Exception")):
            ok = ci.is_subclass_of(cfg)
            chk.ob("C16.E8", "exception class %s derives from ConfigurationException" % ci.name, ok, site="%s:%d %s" % (ci.module.relpath, ci.node.lineno, ci.name),
                   found=[getattr(c, "name", "?") for c in ci.mro()], expect="ConfigurationException in its bases", key="C16.E8|class|%s" % ci.name)
    return n


def _param_classes(P, fi, pname):
    """classes passed for parameter pname at every call of fi in the package, or None when a call site cannot be resolved"""
    params = [a.arg for a in fi.node.args.args]
    off = 1 if fi.cls is not None and params and params[0] in ("self", "cls") else 0
    idx = params.index(pname) - off if pname in params else None
    out = []
    ncalls = 0
    for m in P.modules.values():
        if not m.name.startswith("atsim"):
            continue
        for n in ast.walk(m.tree):
            if not isinstance(n, ast.Call):
                continue
            f = n.func
            nm = f.attr if isinstance(f, ast.Attribute) else (f.id if isinstance(f, ast.Name) else None)
            if nm != fi.name:
                continue
            ncalls += 1
            arg = None
            if idx is not None and 0 <= idx < len(n.args):
                arg = n.args[idx]
            else:
                arg = next((k.value for k in n.keywords if k.arg == pname), None)
            if arg is None:
                # default value of the parameter
                defaults = fi.node.args.defaults
                di = params.index(pname) - (len(params) - len(defaults)) if pname in params else -1
                arg = defaults[di] if 0 <= di < len(defaults) else None
            if arg is None:
                return None
            r = P.resolve_expr(m, arg)
            if not isinstance(r, ClassInfo):
                return None
            out.append(r)
    return out if ncalls else None


def _eval_raise(P, fi, node, cfg):
    """-> True / False / None (undecidable here).  Evaluates the expression of 'raise <expr>' with the function's parameters
    and locals opaque and the handler variable bound, in turn, to an instance of every repository exception class the
    enclosing 'except' clause catches."""
    from ..symeval import Env
    handler = None
    def find(n, h):
        nonlocal handler
        for ch in ast.iter_child_nodes(n):
            if ch is node:
                handler = h
                return True
            if isinstance(ch, (ast.FunctionDef, ast.Lambda)) and ch is not fi.node:
                continue
            if find(ch, ch if isinstance(ch, ast.ExceptHandler) else h):
                return True
        return False
    find(fi.node, None)
    caught = [None]
    if handler is not None and handler.name is not None and handler.type is not None:
        caught = []
        types = handler.type.elts if isinstance(handler.type, ast.Tuple) else [handler.type]
        for t in types:
            r = P.resolve_expr(fi.module, t)
            if isinstance(r, ClassInfo):
                caught.extend(P.subclasses(r))
            else:
                return None
    verdicts = []
    for c in caught:
        I = W.make_interp(P)
        env = Env(module=fi.module, label=fi.fq)
        try:
            a = fi.node.args
            params = [x.arg for x in a.args + a.kwonlyargs]
            for i, pn in enumerate(params):
                if i == 0 and fi.cls is not None and not fi.is_staticmethod:
                    env.vars[pn] = I.opaque_instance(fi.cls, ("param", pn))
                else:
                    env.vars[pn] = Opaque(("param", pn))
            assigned = set()
            for n in ast.walk(fi.node):
                if isinstance(n, ast.Name) and isinstance(n.ctx, ast.Store):
                    assigned.add(n.id)
            for nm in assigned:
                env.vars.setdefault(nm, Opaque(("local", nm)))
            if c is not None:
                env.vars[handler.name] = ExcV(ClassV(c), [Opaque(("exception-argument",))])
            I.stack.append(env)
            try:
                v = I.eval(node.exc, env)
            finally:
                I.stack.pop()
        except (AnalysisError, RaiseSignal, RecursionError):
            return None
        def leaves(x):
            if isinstance(x, Phi):
                return leaves(x.a) + leaves(x.b)
            return [x]
        for lf in leaves(v):
            if isinstance(lf, ExcV) and isinstance(lf.cls, ClassV):
                verdicts.append(lf.cls.ci.is_subclass_of(cfg))
            elif isinstance(lf, ClassV):
                verdicts.append(lf.ci.is_subclass_of(cfg))
            elif isinstance(lf, ExcV):
                verdicts.append(False)
            else:
                return None
    if not verdicts:
        return None
    return all(verdicts)


def _factory_returns_cfg(P, fi, target, cfg, depth):
    """target(...) is a call of a repository function or of a method of the enclosing class all of whose returns
    construct a ConfigurationException subclass (directly or through another such factory)"""
    if depth == 0:
        return False
    callee = None
    if isinstance(target, ast.Attribute) and isinstance(target.value, ast.Name) and target.value.id in ("self", "cls") \
            and fi.cls is not None:
        callee = fi.cls.lookup(target.attr)
        for sub in P.subclasses(fi.cls):
            o = sub.lookup(target.attr)
            if o is not None and o is not callee and not _all_returns_cfg(P, o, cfg, depth):
                return False
    else:
        r = P.resolve_expr(fi.module, target)
        if isinstance(r, FuncInfo):
            callee = r
        elif isinstance(target, ast.Attribute):
            # ClassName.alternative_constructor(...)
            owner = P.resolve_expr(fi.module, target.value)
            if isinstance(owner, ClassInfo):
                callee = owner.lookup(target.attr)
    if not isinstance(callee, FuncInfo):
        return False
    return _all_returns_cfg(P, callee, cfg, depth)


def _all_returns_cfg(P, callee, cfg, depth):
    rets = [n for n in ast.walk(callee.node) if isinstance(n, ast.Return) and _owner(callee.node, n) is callee.node]
    if not rets or _falls_off_end(callee.node):
        return False
    for r in rets:
        v = r.value
        if not isinstance(v, ast.Call):
            return False
        c = P.resolve_expr(callee.module, v.func)
        if isinstance(c, ClassInfo) and c.is_subclass_of(cfg):
            continue
        if callee.is_classmethod and callee.cls is not None and isinstance(v.func, ast.Name) and callee.node.args.args \
                and v.func.id == callee.node.args.args[0].arg and callee.cls.is_subclass_of(cfg):
            continue                   # cls(...) inside a classmethod of a ConfigurationException subclass
        if not _factory_returns_cfg(P, callee, v.func, cfg, depth - 1):
            return False
    return True


def _falls_off_end(fnode):
    """conservative: the last statement of the body is neither a return nor a raise"""
    last = fnode.body[-1]
    return not isinstance(last, (ast.Return, ast.Raise))


def _owner(fnode, target):
    owner = fnode
    stack = [(fnode, fnode)]
    while stack:
        node, own = stack.pop()
        for ch in ast.iter_child_nodes(node):
            o = ch if isinstance(ch, (ast.FunctionDef, ast.Lambda)) else own
            if ch is target:
                return own
            stack.append((ch, o))
    return fnode


def _is_local_reraise(fnode, rnode, name):
    """raise raise_e where raise_e = ConfigurationException(...) earlier in the same block"""
    for node in ast.walk(fnode):
        if isinstance(node, ast.Assign) and any(isinstance(t, ast.Name) and t.id == name for t in node.targets) \
                and isinstance(node.value, ast.Call) and "Exception" in ast.unparse(node.value.func):
            return True
    return False


def main_wraps(chk, P):
    fi = W.console_entry(P)
    cfgcls = P.cls(COMMON, "ConfigParserException")
    CPI = "atsim.potentials.config._config_parser:ConfigParser.__init__"
    TAB = "atsim.potentials.tools.potable._actions:action_tabulate"

    def boom(i, fv, a, k, n):
        raise RaiseSignal(ExcV(ClassV(cfgcls), [Const("the message")]), n)
    given = {"config_file": W.param("config_file"), "out_filename": Const("out")}
    r = W.run_potable(P, given, hooks={CPI: boom, TAB: lambda i, fv, a, k, n: NONE})
    msg = r.parser.errors[0] if r.parser.errors else None
    ok = r.raised is None and msg is not None and "configuration error - " in repr(msg) and "exception" in repr(msg)
    chk.ob("C16.E9", "the console entry point catches ConfigurationException (and subclasses) raised while the model file is read and "
                     "calls parser.error('configuration error - ...')", ok,
           site=fi.site(), found=msg if msg is not None else (r.raised, r.exit), expect="configuration error - <message>", key="C16.E9|main")
    r2 = W.run_potable(P, given, hooks={TAB: boom, CPI: lambda i, fv, a, k, n: NONE})
    msg2 = r2.parser.errors[0] if r2.parser.errors else None
    ok2 = r2.raised is None and msg2 is not None and "configuration error - " in repr(msg2)
    chk.ob("C16.E9", "... and likewise when it is raised during tabulation", ok2, site=fi.site(),
           found=msg2 if msg2 is not None else (r2.raised, r2.exit), expect="configuration error - <message>", key="C16.E9|main-tabulate")
    # parser and parsed options reach the worker where it expects them: a plain run ends with exit status 0
    seen_tab = {}

    def tab(i, fv, a, k, n):
        names = fv.fi.params()
        bound = dict(zip(names, a))
        bound.update(k)
        seen_tab.update(bound)
        return NONE
    r3 = W.run_potable(P, given, hooks={CPI: lambda i, fv, a, k, n: NONE, TAB: tab})
    code = r3.exit
    ok3 = r3.raised is None and not r3.parser.errors and code is not None and (getattr(code, "v", 1) is None or (isinstance(code, Num) and code.const() == 0))
    cpv = [v for v in seen_tab.values() if isinstance(v, InstV) and v.ci.name in ("ConfigParser", "FilteredConfigParser")]
    outv = [v for v in seen_tab.values() if isinstance(v, Const) and v.v == "out"]
    tabfi = P.func("atsim.potentials.tools.potable._actions", "action_tabulate")
    tparams = tabfi.params()
    ok4 = len(seen_tab) == 2 and len(cpv) == 1 and len(outv) == 1 and isinstance(seen_tab.get(tparams[0]), InstV) \
        and isinstance(seen_tab.get(tparams[1]), Const)
    chk.ob("C16.E9", "the tabulation action receives (the parsed model, the output file name) in its parameter order", ok4,
           site=fi.site(), found=dict((k_, repr(v)) for k_, v in seen_tab.items()), expect="%s(parser, 'out')" % tabfi.name,
           key="C16.E9|tabulate-arguments")
    chk.ob("C16.E9", "a plain 'potable MODEL OUT' run hands the argument parser and the parsed options on in the worker's parameter order "
                     "and ends with exit status 0", ok3,
           site=fi.site(), found=(r3.raised, r3.parser.errors, code), expect="exit 0", key="C16.E9|main-arguments")


def documented_valid(chk, P):
    repo = P.repo
    txt = F.read_rst(os.path.join(repo, "docs", "reference", "potable_input.rst"))
    try:
        i = txt.index(".. _ref-potable-input-tabulation-target:")
        j = txt.index(":Description:", i)
        block = txt[i:j]
        vo = block.index(":Valid Options:")
    except ValueError:
        raise AnalysisError("the layout of docs/reference/potable_input.rst is not recognised (target entry)")
    targets = []
    for m in re.finditer(r"``([^`]+)``", block[vo:]):
        targets.extend(m.group(1).split("|"))
    if len(targets) < 12:
        raise AnalysisError("the documented list of targets is not recognised (%d entries found)" % len(targets))
    I = W.make_interp(P)
    mod = P.module("atsim.potentials.config._tabulation_factories")
    table = I.module_global(mod, "TABULATION_FACTORIES")
    keys = set(k.v for k, _ in table.items.values())
    bad = [t for t in targets if W.resolve_target(P, t) not in keys]
    chk.ob("C16.E10", "every documented target (%d: %s) resolves to a registered factory" % (len(targets), ", ".join(targets)),
           not bad, site=mod.relpath + " TABULATION_FACTORIES", found=bad or None, expect="all accepted",
           key="C16.E10|targets")
    # interpolation
    m = re.search(r"interpolation\n-+\n\n:Item: ``interpolation``\n:Format: (.*)\n", txt)
    doc_interp = re.findall(r"``([^`]+)``", m.group(1)) if m else []
    if not doc_interp:
        raise AnalysisError("the documented interpolation types are not recognised in docs/reference/potable_input.rst")
    tbcls = P.cls("atsim.potentials.config._table_form_builder", "Table_Form_Builder")
    tt_ = I.module_global(P.module(COMMON), "TableFormTuple")
    refused = {}
    for lab in doc_interp:
        Jt = F.make_interp(P)
        tb = Jt.instantiate(tbcls, [], {}, None)
        o = outcome(lambda: W.run_method(Jt, tb, "create_potential_form", [Jt.call(tt_, [Const("t"), Const(lab)] + list(_table_data()), {})]))
        if o[0] != "ok":
            refused[lab] = classify(P, o)
    chk.ob("C16.E10", "every documented interpolation type %s is accepted by the table-form builder" % doc_interp, bool(doc_interp) and not refused,
           site=tbcls.site_of("create_potential_form"), found=refused or None, expect="all accepted", key="C16.E10|interpolation")
    # forms
    sigs = F.manual_signatures(repo)
    from .c06 import _form_tuple_hook
    J = F.make_interp(P)
    M.install_cexprtk(J)
    J.hooks["atsim.potentials.config._common:make_potential_form_tuple_from_function"] = _form_tuple_hook(P)
    from .c20 import Cfg
    reg = J.instantiate(P.cls("atsim.potentials.config._potential_form_registry", "Potential_Form_Registry"),
                        [PyObjV(Cfg(ListV([], "list"), ListV([], "list"), missing=True))], {"register_standard": TRUE, "register_pymath_functions": TRUE}, None)
    have = set(x.v for x in J.as_iterable(J.getattr(reg, "registered")).items)
    missing = sorted("as." + n for n in sigs if "as." + n not in have)
    chk.ob("C16.E10", "every form with a ':potable signature:' in the manual (%d) is registered" % len(sigs), not missing,
           site=P.cls("atsim.potentials.config._potential_form_registry", "Potential_Form_Registry").site_of("__init__"), found=missing or None,
           expect="all registered", key="C16.E10|forms")
    txt3 = F.read_rst(os.path.join(repo, "docs", "reference", "potential_modifiers.rst"))
    doc_mods = set(re.findall(r"^\.\. _modifier-(\w+):", txt3, re.M))
    mr = I.instantiate(P.cls("atsim.potentials.config._modifier_registry", "Modifier_Registry"), [], {}, None)
    if len(doc_mods) < 5:
        raise AnalysisError("the layout of docs/reference/potential_modifiers.rst is not recognised (%d labels found)" % len(doc_mods))
    regm = F.registered_modifiers(I, mr, doc_mods)
    chk.ob("C16.E10", "every documented modifier %s is registered" % sorted(doc_mods), doc_mods <= regm,
           site=P.cls("atsim.potentials.config._modifier_registry", "Modifier_Registry").site_of("_register_standard"), found=sorted(regm),
           expect=sorted(doc_mods), key="C16.E10|modifiers")


# ---------------------------------------------------------------------------
def _pfi(I, P, label, params, marker, start, nxt):
    mod = P.module(COMMON)
    pfi = I.module_global(mod, "PotentialFormInstanceTuple")
    mrd = I.module_global(mod, "MultiRangeDefinitionTuple")
    return I.call(pfi, [Const(label), ListV([Num(ep.const(p)) for p in params], "list"), I.call(mrd, [Const(marker), Num(ep.const(start))], {}), nxt], {})


def _pmt(I, P, label, forms, marker, start, nxt):
    mod = P.module(COMMON)
    pmt = I.module_global(mod, "PotentialModifierTuple")
    mrd = I.module_global(mod, "MultiRangeDefinitionTuple")
    return I.call(pmt, [Const(label), ListV(forms, "list"), I.call(mrd, [Const(marker), Num(ep.const(start))], {}), nxt], {})


def spline_guards(chk, P):
    from .c10 import numpy_model, SolveCapture
    fi = F.modifier_ref(P, "spline")

    def attempt(build):
        I = F.make_interp(P)
        numpy_model(I, SolveCapture(), "u")
        I.assumption_fns.append(F.hasattr_true({"deriv": True, "deriv2": True}))

        def quiet(cond):
            if isinstance(cond, Cond) and (cond.kind == "or" or (cond.kind == "cmp" and cond.args[0] == "<=")):
                return False
            return None
        I.assumption_fns.append(quiet)
        forms = build(I)
        return classify(P, outcome(lambda: fi.call(I, [ListV(forms, "list"), PyObjV(Builder())])))

    def chain(I, middle, mparams, starts=(0, 1, 3), n=3, first_mod=False, middle_mod=False, last_mod=False):
        nodes = None
        labels = ["as.buck", middle, "as.zero", "as.zero", "as.zero"][:n]
        params = [[1000, 0.3, 0], mparams, [], [], []][:n]
        sts = list(starts) + [5, 7]
        for idx in range(n - 1, -1, -1):
            ismod = (idx == 0 and first_mod) or (idx == 1 and middle_mod) or (idx == 2 and last_mod)
            if ismod:
                nodes = _pmt(I, P, "sum", [_pfi(I, P, "as.zero", [], ">", 0, NONE)], ">", sts[idx], nodes if nodes is not None else NONE)
            else:
                nodes = _pfi(I, P, labels[idx], params[idx], ">", sts[idx], nodes if nodes is not None else NONE)
        return [nodes]
    cases = [
        ("three parts, exp_spline", lambda I: chain(I, "exp_spline", []), "accepted"),
        ("three parts, buck4_spline r_min inside", lambda I: chain(I, "buck4_spline", [2]), "accepted"),
        ("one part", lambda I: chain(I, "exp_spline", [], n=1), "config-error"),
        ("two parts", lambda I: chain(I, "exp_spline", [], n=2), "config-error"),
        ("four parts", lambda I: chain(I, "exp_spline", [], n=4), "config-error"),
        ("five parts", lambda I: chain(I, "exp_spline", [], n=5), "config-error"),
        ("two definitions as arguments", lambda I: chain(I, "exp_spline", []) * 2, "config-error"),
        ("unknown spline keyword", lambda I: chain(I, "cubic", []), "config-error"),
        ("exp_spline given a parameter", lambda I: chain(I, "exp_spline", [1]), "config-error"),
        ("buck4_spline without r_min", lambda I: chain(I, "buck4_spline", []), "config-error"),
        ("buck4_spline with two parameters", lambda I: chain(I, "buck4_spline", [2, 2.5]), "config-error"),
        ("buck4_spline r_min below detach", lambda I: chain(I, "buck4_spline", [0.5]), "config-error"),
        ("buck4_spline r_min equal to detach", lambda I: chain(I, "buck4_spline", [1]), "config-error"),
        ("buck4_spline r_min equal to attach", lambda I: chain(I, "buck4_spline", [3]), "config-error"),
        ("buck4_spline r_min above attach", lambda I: chain(I, "buck4_spline", [5]), "config-error"),
        ("detach not below attach", lambda I: chain(I, "exp_spline", [], starts=(0, 3, 3)), "config-error"),
        ("first range not below detach", lambda I: chain(I, "exp_spline", [], starts=(2, 1, 3)), "config-error"),
        ("a modifier as first part", lambda I: chain(I, "exp_spline", [], first_mod=True), "accepted"),
        ("a modifier as last part", lambda I: chain(I, "exp_spline", [], last_mod=True), "accepted"),
        ("a modifier as middle part", lambda I: chain(I, "exp_spline", [], middle_mod=True), "config-error"),
    ]
    for what, build, want in cases:
        got = attempt(build)
        chk.ob("C16.E11", "spline(): %s -> %s" % (what, want), got == want, site=fi.site(), found=got, expect=want, key="C16.E11|spline|%s" % what)
    tfi = F.modifier_ref(P, "trans")

    def tattempt(forms):
        I = F.make_interp(P)
        I.assumption_fns.append(F.hasattr_true({"deriv": True, "deriv2": True}))
        return classify(P, outcome(lambda: tfi.call(I, [ListV(forms(I), "list"), PyObjV(Builder())])))
    z = lambda I: _pfi(I, P, "as.zero", [], ">", 0, NONE)
    c = lambda I, ps=(1,): _pfi(I, P, "as.constant", list(ps), ">", 0, NONE)
    for what, forms, want in (("two arguments, second as.constant X", lambda I: [z(I), c(I)], "accepted"),
                              ("one argument", lambda I: [z(I)], "config-error"), ("three arguments", lambda I: [z(I), c(I), z(I)], "config-error"),
                              ("second argument not as.constant", lambda I: [z(I), z(I)], "config-error"),
                              ("as.constant without a value", lambda I: [z(I), c(I, ())], "config-error"),
                              ("as.constant with two values", lambda I: [z(I), c(I, (1, 2))], "config-error"),
                              ("second argument a modifier", lambda I: [z(I), _pmt(I, P, "sum", [z(I)], ">", 0, NONE)], "config-error")):
        got = tattempt(forms)
        chk.ob("C16.E11", "trans(): %s -> %s" % (what, want), got == want, site=tfi.site(), found=got, expect=want, key="C16.E11|trans|%s" % what)


def unknown_names(chk, P):
    # unknown target
    out = parse(P, "[Tabulation]\ntarget : NOPE\n[Pair]\nA-B : as.zero\n")
    I, cp = out[3], out[4]
    conf = I.instantiate(P.cls("atsim.potentials.config._configuration", "Configuration"), [], {}, None)
    o = outcome(lambda: W.run_method(I, conf, "read_from_parser", [cp]))
    chk.ob("C16.E12", "unknown tabulation target -> configuration error", classify(P, o) == "config-error",
           site=P.cls("atsim.potentials.config._configuration", "Configuration").site_of("read_from_parser"), found=classify(P, o),
           expect="config-error", key="C16.E12|target")
    # missing section
    out = parse(P, "[Tabulation]\ntarget : GULP\n")
    I, cp = out[3], out[4]
    for acc in ("pair", "eam_embed", "eam_density", "potential_form"):
        o = outcome(lambda: I.getattr(cp, acc))
        chk.ob("C16.E12", "reading %s from a file without that section -> configuration error" % acc, classify(P, o) == "config-error",
               site=P.cls(CP, "ConfigParser").lookup(acc).site(), found=classify(P, o), expect="config-error", key="C16.E12|missing|%s" % acc)
    # unknown interpolation
    I = F.make_interp(P)
    tb = I.instantiate(P.cls("atsim.potentials.config._table_form_builder", "Table_Form_Builder"), [], {}, None)
    tt = I.module_global(P.module(COMMON), "TableFormTuple")
    tup = I.call(tt, [Const("t"), Const("nope")] + list(_table_data()), {})
    o = outcome(lambda: W.run_method(I, tb, "create_potential_form", [tup]))
    chk.ob("C16.E12", "unknown interpolation type -> configuration error", classify(P, o) == "config-error",
           site=P.cls("atsim.potentials.config._table_form_builder", "Table_Form_Builder").site_of("create_potential_form"),
           found=classify(P, o), expect="config-error", key="C16.E12|interpolation")
    # data the interpolation cannot use
    I = F.make_interp(P)
    tb = I.instantiate(P.cls("atsim.potentials.config._table_form_builder", "Table_Form_Builder"), [], {}, None)
    for lab, tfc in F.tableform_classes(P):
        I = F.make_interp(P)
        tb = I.instantiate(P.cls("atsim.potentials.config._table_form_builder", "Table_Form_Builder"), [], {}, None)
        I.hooks["%s:%s.__init__" % (tfc.module.name, tfc.name)] = \
            lambda i, fv, a, k, n: (_ for _ in ()).throw(RaiseSignal(ExcV(ExtV("builtins.ValueError"), [Const("m must be > k")]), n))
        xd, yd = _table_data()
        tup = I.call(tt, [Const("t"), Const(lab), xd, yd], {})
        o = outcome(lambda: W.run_method(I, tb, "create_potential_form", [tup]))
        chk.ob("C16.E12", "ValueError from the constructor of the %r interpolation (data it cannot use) -> configuration error" % lab,
               classify(P, o) == "config-error",
               site=P.cls("atsim.potentials.config._table_form_builder", "Table_Form_Builder").site_of("create_potential_form"),
               found=classify(P, o), expect="config-error", key="C16.E12|table-data" + ("" if lab == "cubic_spline" else "|" + lab))


def _table_data(n=6):
    """data of a table form as the parser delivers it: n increasing x values, symbolic y values"""
    return (ListV([Num(ep.const(i + 1)) for i in range(n)], "list"), ListV([Num(ep.sym("y%d" % i)) for i in range(n)], "list"))


def table_form_arity(chk, P):
    """'NAME params...' for a table form: parameters are rejected, the bare name is accepted (uses the real signature inspection)"""
    I = F.make_interp(P)
    tb = I.instantiate(P.cls("atsim.potentials.config._table_form_builder", "Table_Form_Builder"), [], {}, None)
    tt = I.module_global(P.module(COMMON), "TableFormTuple")
    tup = I.call(tt, [Const("t"), Const("cubic_spline")] + list(_table_data()), {})
    pf = W.run_method(I, tb, "create_potential_form", [tup])
    site = P.cls("atsim.potentials.config._potential_form", "Existing_Potential_Form").site_of("__call__")
    o = outcome(lambda: I.call(pf, [], {}))
    chk.ob("C16.E12", "a table form used without parameters is accepted", classify(P, o) == "accepted", site=site, found=classify(P, o),
           expect="accepted", key="C16.E12|table-form|bare")
    o = outcome(lambda: I.call(pf, [Num(ep.const(1))], {}))
    chk.ob("C16.E12", "a table form given a parameter -> configuration error", classify(P, o) == "config-error", site=site, found=classify(P, o),
           expect="config-error", key="C16.E12|table-form|parameter")


# ---------------------------------------------------------------------------
class _FormsCfg(object):
    """a parser that has only custom formulae"""
    def __init__(self, forms):
        self.forms = forms

    def get_table_form(self, I):
        return ListV([], "list")

    def get_potential_form(self, I):
        return self.forms


def name_clashes(chk, P):
    from .c06 import _form_tuple_hook
    reg = P.cls("atsim.potentials.config._potential_form_registry", "Potential_Form_Registry")
    site = P.cls("atsim.potentials.config._cexprtk_potential_function", "_Cexptrk_Potential_Function").site_of("__init__")

    def attempt(forms):
        """forms: [(label, [parameter names after r])]; the registry is built and every form evaluated once"""
        I = F.make_interp(P)
        M.install_cexprtk(I)
        I.hooks["atsim.potentials.config._common:make_potential_form_tuple_from_function"] = _form_tuple_hook(P)
        mod = P.module(COMMON)
        pft = I.module_global(mod, "PotentialFormTuple")
        sig = I.module_global(mod, "PotentialFormSignatureTuple")
        fl = ListV([I.call(pft, [I.call(sig, [Const(n), ListV([Const("r")] + [Const(p) for p in ps], "list"), FALSE], {}), Const("r")], {})
                    for n, ps in forms], "list")

        def go():
            r = I.instantiate(reg, [PyObjV(_FormsCfg(fl))], {"register_standard": TRUE, "register_pymath_functions": TRUE}, None)
            for n, ps in forms:
                pf = I.getitem(r, Const(n))
                f = I.call(pf, [Num(ep.const(1)) for _ in ps], {})
                I.call(f, [Num(ep.const(2))], {})
            return r
        return outcome(go)
    cases = [
        ("a parameter named like another custom form", [("g", ["a"]), ("f", ["g"])], True),
        ("a parameter named like an exprtk constant (pi)", [("f", ["pi"])], True),
        ("two forms, one named like an exprtk constant (pi)", [("pi", ["a"]), ("f", ["a"])], True),
        ("two forms, one named like a built-in exprtk function (exp)", [("exp", ["a"]), ("f", ["a"])], True),
        ("clash-free forms sharing parameter names", [("g", ["a", "b"]), ("f", ["a", "b"])], False),
    ]
    for what, forms, clash in cases:
        o = attempt(forms)
        got = classify(P, o)
        want = "config-error" if clash else "accepted"
        chk.ob("C16.E13", "%s -> %s" % (what, want), got == want, site=site, found=got if got != "other-exception" else o, expect=want,
               key="C16.E13|%s" % what)


def nested_call_arity(chk, P):
    """g(r, a) registered with the expression library; the library calls it back with the arguments the calling formula
    wrote.  Too few / too many -> configuration error; the right number -> evaluated."""
    ci = P.cls("atsim.potentials.config._cexprtk_potential_function", "_Cexptrk_Potential_Function")
    site = ci.site_of("__call__")
    for nargs, want in ((2, "accepted"), (1, "config-error"), (3, "config-error")):
        I = F.make_interp(P)
        M.install_cexprtk(I)
        mod = P.module(COMMON)
        pft = I.module_global(mod, "PotentialFormTuple")
        sig = I.module_global(mod, "PotentialFormSignatureTuple")
        tup = I.call(pft, [I.call(sig, [Const("g"), ListV([Const("r"), Const("a")], "list"), FALSE], {}), Const("a*r")], {})
        o = outcome(lambda: I.call(I.instantiate(ci, [tup], {}, None), [Num(ep.const(i + 1)) for i in range(nargs)], {}))
        got = classify(P, o)
        chk.ob("C16.E14", "g(r, a) called back with %d argument(s) -> %s" % (nargs, want), got == want, site=site,
               found=got if got != "other-exception" else o, expect=want, key="C16.E14|callback|%d" % nargs)


def _callee_always_raises(P, fi, func, depth):
    from ..symeval_stmt import always_raises
    if depth == 0:
        return False
    callee = None
    if isinstance(func, ast.Attribute) and isinstance(func.value, ast.Name) and func.value.id in ("self", "cls") and fi.cls is not None:
        callee = fi.cls.lookup(func.attr)
    else:
        r = P.resolve_expr(fi.module, func)
        if isinstance(r, FuncInfo):
            callee = r
    if not isinstance(callee, FuncInfo):
        return False
    body = [st for st in callee.node.body if not (isinstance(st, ast.Expr) and isinstance(st.value, ast.Constant))]
    if always_raises(body):
        return True
    last = body[-1] if body else None
    if isinstance(last, ast.Expr) and isinstance(last.value, ast.Call) and isinstance(last.value.func, ast.Attribute) \
            and last.value.func.attr in ("error", "exit") and not "log" in ast.unparse(last.value.func.value).lower():
        return True               # the helper ends in ArgumentParser.error / sys.exit: it ends the program
    return isinstance(last, ast.Expr) and isinstance(last.value, ast.Call) and _callee_always_raises(P, callee, last.value.func, depth - 1)


def _literal_guard(P, fi, raise_node, depth=2):
    """the raise sits under `if <parameter> not in <constant tuple/list/set of strings>` (a class or module constant, or a
    literal) and every call of the function in the package - followed through functions that merely hand one of their own
    parameters on - passes a string literal that is in the set -> (parameter, allowed set, literals seen), else None"""
    params = [a.arg for a in fi.node.args.args]
    guard = None
    for n in ast.walk(fi.node):
        if isinstance(n, ast.If) and raise_node in n.body:
            t = n.test
            if isinstance(t, ast.UnaryOp) and isinstance(t.op, ast.Not) and isinstance(t.operand, ast.Compare):
                c = t.operand
                if len(c.ops) == 1 and isinstance(c.ops[0], ast.In):
                    guard = (c.left, c.comparators[0])
            elif isinstance(t, ast.Compare) and len(t.ops) == 1 and isinstance(t.ops[0], ast.NotIn):
                guard = (t.left, t.comparators[0])
    if guard is None or not (isinstance(guard[0], ast.Name) and guard[0].id in params):
        return None
    pname = guard[0].id
    cexpr = guard[1]
    if isinstance(cexpr, ast.Attribute) and isinstance(cexpr.value, ast.Name) and cexpr.value.id in ("self", "cls") and fi.cls is not None:
        _, cexpr = fi.cls.lookup_class_attr(cexpr.attr)
    elif isinstance(cexpr, ast.Name):
        b = fi.module.bindings.get(cexpr.id)
        cexpr = getattr(getattr(b, "node", None), "value", None) if b is not None and b.kind == "assign" else None
    if not isinstance(cexpr, (ast.Tuple, ast.List, ast.Set)) or not all(isinstance(e, ast.Constant) and isinstance(e.value, str) for e in cexpr.elts):
        return None
    allowed = set(e.value for e in cexpr.elts)

    def literals_passed(fn_name, param_index, kw, level):
        """string literals passed for that parameter by every call of a function/method of that name in the package; None if
        some call passes something that is neither a literal nor a handed-on parameter that can be followed"""
        seen = set()
        ncalls = 0
        for m in P.modules.values():
            if not m.name.startswith("atsim."):
                continue
            for f2 in [x for x in P.all_functions() if x.module is m]:
                for c in ast.walk(f2.node):
                    if not isinstance(c, ast.Call):
                        continue
                    f = c.func
                    nm = f.attr if isinstance(f, ast.Attribute) else (f.id if isinstance(f, ast.Name) else None)
                    if nm != fn_name:
                        continue
                    ncalls += 1
                    idx = param_index - (1 if isinstance(f, ast.Attribute) else 0)
                    arg = c.args[idx] if 0 <= idx < len(c.args) else next((k.value for k in c.keywords if k.arg == kw), None)
                    if isinstance(arg, ast.Constant) and isinstance(arg.value, str):
                        seen.add(arg.value)
                    elif isinstance(arg, ast.Name) and arg.id in [a.arg for a in f2.node.args.args] and level > 0 and f2 is not fi:
                        sub = literals_passed(f2.name, [a.arg for a in f2.node.args.args].index(arg.id), arg.id, level - 1)
                        if sub is None:
                            return None
                        seen |= sub
                    else:
                        return None
        return seen if ncalls else None
    seen = literals_passed(fi.name, params.index(pname), pname, depth)
    if seen is None or not seen or not seen <= allowed:
        return None
    return pname, allowed, seen


_EMPTY_MOD = {}


def _empty_modifier_refused(P):
    """is 'A-B : NAME()' refused with a configuration error for every registered modifier NAME?"""
    if "v" not in _EMPTY_MOD:
        I = F.make_interp(P)
        mr = I.instantiate(P.cls("atsim.potentials.config._modifier_registry", "Modifier_Registry"), [], {}, None)
        names = sorted(F.registered_modifiers(I, mr, set()))
        ok = bool(names)
        for nm in names:
            out = parse(P, "[Pair]\nA-B : %s()\n" % nm)
            if out[0] == "ok":
                o = outcome(lambda: out[3].getattr(out[4], "pair"))
                ok = ok and classify(P, o) == "config-error"
            else:
                ok = ok and classify(P, out) == "config-error"
        _EMPTY_MOD["v"] = ok
    return _EMPTY_MOD["v"]


def _guards_emptiness(fnode, raise_node):
    """the raise sits directly under `if not <parameter>` / `if len(<parameter>) == 0` / an except StopIteration of next(iter(...))"""
    params = set(a.arg for a in fnode.args.args)
    for n in ast.walk(fnode):
        if isinstance(n, ast.If) and raise_node in n.body:
            t = n.test
            if isinstance(t, ast.UnaryOp) and isinstance(t.op, ast.Not) and isinstance(t.operand, ast.Name) and t.operand.id in params:
                return True
            if isinstance(t, ast.Compare) and isinstance(t.left, ast.Call) and ast.unparse(t.left.func) == "len" and t.left.args \
                    and isinstance(t.left.args[0], ast.Name) and t.left.args[0].id in params and len(t.comparators) == 1 \
                    and isinstance(t.comparators[0], ast.Constant) and t.comparators[0].value == 0:
                return True
        if isinstance(n, ast.ExceptHandler) and raise_node in n.body and n.type is not None and ast.unparse(n.type) == "StopIteration":
            return True
    return False


def _enclosing_try(fnode, handler):
    for n in ast.walk(fnode):
        if isinstance(n, ast.Try) and handler in n.handlers:
            return n
    return None


def _after(fnode, stmt):
    """the statements that follow stmt in its own block"""
    for n in ast.walk(fnode):
        for fld in ("body", "orelse", "finalbody"):
            blk = getattr(n, fld, None)
            if isinstance(blk, list) and stmt in blk:
                return blk[blk.index(stmt) + 1:]
    return []


def no_swallowing(chk, P):
    """an error caught on the configuration path is re-raised (as a configuration error: E8), answered with a fallback value,
    or ends the program - never dropped, because what the try block was computing is then missing further on"""
    mods = [m for m in P.modules.values() if m.name.startswith("atsim.potentials.config") or m.name == MODS
            or m.name.startswith("atsim.potentials.tools.potable")]
    for fi in P.all_functions():
        if fi.module not in mods:
            continue
        for node in ast.walk(fi.node):
            if not isinstance(node, ast.ExceptHandler) or _owner(fi.node, node) is not fi.node:
                continue
            eff = []
            for st in node.body:
                if isinstance(st, ast.Pass):
                    continue
                if isinstance(st, ast.Expr) and isinstance(st.value, ast.Constant):
                    continue
                if isinstance(st, ast.Expr) and isinstance(st.value, ast.Call) and isinstance(st.value.func, ast.Attribute) \
                        and st.value.func.attr in ("debug", "info", "warning", "warn", "error", "exception", "critical") \
                        and "log" in ast.unparse(st.value.func.value).lower():
                    continue
                eff.append(st)
            what = ast.unparse(node.type) if node.type is not None else "everything"
            # errors that are about the interpreter's environment rather than the user's file are not the property's business
            if node.type is not None and all(ast.unparse(t).split(".")[-1] in ("ImportError", "ModuleNotFoundError", "AttributeError",
                                                                              "StopIteration", "NameError")
                                             for t in (node.type.elts if isinstance(node.type, ast.Tuple) else [node.type])):
                continue
            ok = False
            tr0 = _enclosing_try(fi.node, node)
            if not eff and tr0 is not None and tr0.body and isinstance(tr0.body[-1], ast.Return) and not tr0.finalbody and not tr0.orelse \
                    and not any(isinstance(n, ast.Name) and isinstance(n.ctx, ast.Store) for st in tr0.body for n in ast.walk(st)) \
                    and fi.node.body and any(isinstance(n, (ast.Return, ast.Raise)) for st in _after(fi.node, tr0) for n in ast.walk(st)):
                # 'try: return <look-up>' with an empty handler: the guarded block hands its result straight back and binds
                # nothing, so nothing it computed is missing in the code after it - that code is the other way to the result
                ok = True
            if eff:
                last = eff[-1]
                if isinstance(last, (ast.Raise, ast.Return, ast.Continue, ast.Break)):
                    ok = True
                elif isinstance(last, ast.Expr) and isinstance(last.value, ast.Call) and isinstance(last.value.func, ast.Attribute) \
                        and last.value.func.attr in ("error", "exit"):
                    ok = True         # ArgumentParser.error / sys.exit end the program
                elif isinstance(last, ast.Expr) and isinstance(last.value, ast.Call) and _callee_always_raises(P, fi, last.value.func, 3):
                    ok = True         # a helper of the package that always raises
                else:
                    # fallback value: the handler binds a name that the guarded block was binding
                    tr = _enclosing_try(fi.node, node)
                    bound_try = set(n.id for st in (tr.body if tr is not None else []) for n in ast.walk(st)
                                    if isinstance(n, ast.Name) and isinstance(n.ctx, ast.Store))
                    bound_h = set(n.id for st in eff for n in ast.walk(st) if isinstance(n, ast.Name) and isinstance(n.ctx, ast.Store))
                    ok = bool(bound_try & bound_h)
            chk.ob("C16.E15", "%s: the handler for %s re-raises, returns, ends the program or supplies a fallback value" % (fi.qualname, what),
                   ok, site=fi.site(node), found="the error is dropped and execution continues without the guarded result" if not ok else None,
                   expect="raise / return / fallback value", key="C16.E15|%s|%s" % (fi.fq, what))

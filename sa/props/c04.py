"""C04 - Finnis-Sinclair routing (DESIGN.md section 4, C04)."""
from .. import ep
from ..model import AnalysisError
from ..values import *     # noqa
from ..strtree import *    # noqa
from ..symeval import RaiseSignal
from ..symeval_ops import ExcV, NTV
from .. import writerules as W
from .. import excelmodel

EXPLANATION = (
    "Convention (property statement): EAMPotential(A).electronDensityFunction[B] is the density at an A site from a B "
    "neighbour. The eam/fs setfl writer, the EEAM TABEAM writer and their public functions are translated into output trees "
    "and compared with reference writers in which the block of element X lists Y.electronDensityFunction[X.species] for Y "
    "in header order (LAMMPS) and 'dens A B' holds A.electronDensityFunction[B] (DL_POLY). The Excel columns, the 'A->B' "
    "key parser, the FS builder's dictionary nesting and the zero filling are decided by abstract evaluation on an "
    "asymmetric model with opaque, pairwise distinct density functions, so any transposition changes a compared value.")

SPECIES = ["Fe", "Al", "Zr"]   # deliberately not in alphabetical order


def run(chk):
    P = W.load_program()
    chk.explanation = EXPLANATION
    chk.info.update(P.stats())
    chk.rule("C04.W1", "SetFL_FS_EAMTabulation.write: densities routed as the eam/fs reader expects", 25)
    chk.rule("C04.W2", "writeSetFLFinnisSinclair(...) emits the reference eam/fs file", 25)
    chk.rule("C04.W3", "TABEAM_FinnisSinclair_EAMTabulation.write: 'dens A B' = EAMPotential(A).electronDensityFunction[B]", 25)
    chk.rule("C04.W4", "writeTABEAMFinnisSinclair(...) emits the reference EEAM file", 25)
    chk.rule("C04.X", "Excel column 'A->B' holds EAMPotential(A).electronDensityFunction[B] at the row's r", 9)
    chk.rule("C04.P", "potable key 'A->B' is parsed as (from=A, to=B)", 3)
    chk.rule("C04.B", "FS builder stores the function of 'A->B' at density[A][B] and hands density[S] to EAMPotential(S)", 8)
    chk.rule("C04.Z", "undeclared combinations are zero-filled without overwriting declared ones", 8)
    chk.rule("C04.F", "potable FS targets use the FS builder and the FS tabulation classes", 6)

    chk.attempt("W1", lambda: W.eam_class_vs_spec(chk, "C04.W1", P, "SetFL_FS_EAMTabulation", "setfl_fs"))
    chk.attempt("W2", lambda: W.eam_api_vs_spec(chk, "C04.W2", P, "atsim.potentials._lammpsWriteEAM", "writeSetFLFinnisSinclair", "setfl_fs_api"))
    chk.attempt("W3", lambda: W.eam_class_vs_spec(chk, "C04.W3", P, "TABEAM_FinnisSinclair_EAMTabulation", "tabeam_fs"))
    chk.attempt("W4", lambda: W.eam_api_vs_spec(chk, "C04.W4", P, "atsim.potentials._dlpoly_writeTABEAM", "writeTABEAMFinnisSinclair", "tabeam_fs_api"))
    chk.attempt("X", lambda: excel_fs(chk, P, "C04.X"))
    chk.attempt("P", lambda: parser_key(chk, P, "C04.P"))
    chk.attempt("B", lambda: builder(chk, P, "C04.B"))
    chk.attempt("Z", lambda: zero_fill(chk, P, "C04.Z"))
    chk.attempt("F", lambda: factories(chk, P, "C04.F"))
    W.path_state_rule(chk, P, "C04.S", "Finnis-Sinclair write and build path")
    chk.assume("the consumers' conventions are as restated in the property: eam/fs block of X lists for each Y the density X "
               "contributes at a Y site; DL_POLY 'dens A B' is the density at A from B")
    chk.assume("species labels are non-empty strings")


def fs_model(I, P, species=SPECIES):
    """EAMPotential objects with pairwise distinct opaque density functions rho[A][B]"""
    ci = P.cls(*W.EAMPOT)
    pots = []
    for a in species:
        d = DictV()
        for b in species:
            d.items[Const(b).key()] = (Const(b), W.param("rho_%s_from_%s" % (a, b)))
        pots.append(I.instantiate(ci, [Const(a), Num(ep.const(1)), Num(ep.const(1)), W.param("F_" + a), d], {}, None))
    return ListV(pots, "list")


def excel_fs(chk, P, rule):
    I = W.make_interp(P)
    excelmodel.install(I)
    cls = P.cls("atsim.potentials.eam_tabulation", "Excel_FinnisSinclair_EAMTabulation")
    tab = I.instantiate(cls, [ListV([], "list"), fs_model(I, P), W.nsym("cutoff"), W.nsym("nr"), W.nsym("cutoff_rho"), W.nsym("nrho")], {}, None)
    wb = I.getattr(tab, "workbook")
    ws = wb.obj.sheet("EAM-Density")
    site = cls.site_of("_add_eam_density")
    if ws is None:
        raise AnalysisError("no EAM-Density sheet produced")
    heads = {}
    rowkeys = set()
    for (row, col), v in ws.cells.items():
        if row.as_const() == 1:
            heads[col] = v
        else:
            rowkeys.add(row)
    if len(rowkeys) != 1:
        raise AnalysisError("expected one symbolic data row family in the sheet, found %r" % (rowkeys,))
    row = list(rowkeys)[0]
    rval = ws.cells.get((row, 1))
    n = 0
    for a in SPECIES:
        for b in SPECIES:
            label = "%s->%s" % (a, b)
            cols = [c for c, v in heads.items() if isinstance(v, Const) and v.v == label]
            ok = len(cols) == 1
            found = None
            if ok:
                found = ws.cells.get((row, cols[0]))
                want = ep.app(("param", "rho_%s_from_%s" % (a, b)), [I.num(rval)])
                ok = isinstance(found, Num) and ep.equal(found.rf, want)[0]
            chk.ob(rule, "column %r holds EAMPotential(%s).electronDensityFunction[%s](r)" % (label, a, b), ok, site=site,
                   found=found, expect="rho_%s_from_%s(r of that row)" % (a, b), key="%s|col|%s" % (rule, label))


def parser_key(chk, P, rule):
    """[EAM-Density] keys through ConfigParser(text).eam_density_fs"""
    from .c14 import parse
    ci = P.cls("atsim.potentials.config._config_parser", "ConfigParser")
    site = ci.site_of("eam_density_fs")
    for key, (fr, to) in (("Al->Fe", ("Al", "Fe")), (" Fe -> Al ", ("Fe", "Al")), ("A->B", ("A", "B"))):
        out = parse(P, "[EAM-Density]\n%s : as.zero\n" % key)
        r = out[1]
        if out[0] == "ok":
            I, cp = out[3], out[4]
            try:
                rows = I.as_iterable(I.getattr(cp, "eam_density_fs"))
                r = I.getattr(rows.items[0], "species") if isinstance(rows, ListV) and len(rows.items) == 1 else rows
            except RaiseSignal as e:
                r = e.exc
        ok = isinstance(r, NTV) and r.cls.fields == ["from_species", "to_species"] \
            and isinstance(r.values[0], Const) and r.values[0].v == fr and r.values[1].v == to
        chk.ob(rule, "key %r parses to (from_species=%r, to_species=%r)" % (key, fr, to), ok, site=site, found=r,
               expect="EAMFSDensitySpeciesTuple(%r, %r)" % (fr, to), key="%s|key|%s" % (rule, key.strip().replace(" ", "")))


def _zero_at(I, f):
    if f is None:
        return None
    try:
        v = I.call(f, [W.nsym("r")], {})
    except RaiseSignal as e:
        return e.exc
    return v


def builder(chk, P, rule):
    """EAM_Potential_Builder_FS(cp, forms, modifiers, reference_data=rd).eam_potentials on an asymmetric model"""
    from .. import eamrules as E
    ci = P.cls(E.BUILDER_MOD, "EAM_Potential_Builder_FS")
    site = ci.site_of("eam_potentials")
    pairs = [("Fe", "Al"), ("Al", "Fe"), ("Al", "Al")]
    # concrete definitions as the parser delivers them; Fe->Al and Al->Fe use the same forms and parameters and differ only in
    # where the second range starts, Al->Al only in the marker of that range
    specs = {("Fe", "Al"): ("as.polynomial", [0, 3], (">=", 0), ("as.zero", [], (">", 2), None)),
             ("Al", "Fe"): ("as.polynomial", [0, 3], (">=", 0), ("as.zero", [], (">", 3), None)),
             ("Al", "Al"): ("as.polynomial", [0, 3], (">=", 0), ("as.zero", [], (">=", 3), None))}
    dens = [((a, b), specs[(a, b)]) for a, b in pairs]
    embed = [("Fe", W.param("F_Fe")), ("Al", W.param("F_Al"))]
    out = E.build(P, W.make_interp, True, embed, dens)
    if out[1] != "ok":
        chk.ob(rule, "the asymmetric Finnis-Sinclair model builds", False, site=site, found=out[2], expect="two EAMPotential objects",
               key=rule + "|builds")
        return
    I, pots = out[0], out[2]

    def slot(a, b):
        p = pots.get(a)
        d = I.getattr(p, "electronDensityFunction") if p is not None else None
        if isinstance(d, DictV) and Const(b).key() in d.items:
            return d.items[Const(b).key()][1]
        return None
    for a, bb in pairs:
        got = slot(a, bb)
        want = E.built(E.defn_value(I, P, specs[(a, bb)]))
        chk.ob(rule, "entry '%s->%s' is stored at EAMPotential(%s).electronDensityFunction[%s] (its own definition, ranges included)" % (a, bb, a, bb),
               got is not None and got.key() == want.key(), site=site, found=got, expect=want, key="%s|store|%s->%s" % (rule, a, bb))
    z = _zero_at(I, slot("Fe", "Fe"))
    chk.ob(rule, "the undeclared slot Fe->Fe holds the zero function, not a transposed entry", isinstance(z, Num) and z.const() == 0,
           site=site, found=z if z is not None else "no entry", expect="0.0 at every r", key=rule + "|store|no-transpose")
    o2 = E.build(P, W.make_interp, True, embed, [(("Fe", "Al"), W.param("d1")), (("Fe", "Al"), W.param("d2"))])
    chk.ob(rule, "a repeated A->B entry is a configuration error", o2[1] == "raise" and E.is_config_error(P, o2[2]), site=site,
           found=o2[2] if o2[1] == "raise" else "accepted", expect="ConfigurationException", key=rule + "|duplicate")
    for s_ in ("Fe", "Al"):
        p = pots.get(s_)
        d = I.getattr(p, "electronDensityFunction") if p is not None else None
        keys = sorted(k.v for k, _ in d.items.values()) if isinstance(d, DictV) else None
        chk.ob(rule, "EAMPotential(%s) receives the dictionary of densities at a %s site (one entry per species)" % (s_, s_),
               keys == ["Al", "Fe"], site=site, found=keys if keys is not None else d, expect=["Al", "Fe"], key="%s|owner|%s" % (rule, s_))
        ef = I.getattr(p, "embeddingFunction") if p is not None else None
        chk.ob(rule, "EAMPotential(%s) receives the embedding function declared for %s" % (s_, s_),
               ef is not None and ef.key() == E.built(W.param("F_" + s_)).key(), site=site, found=ef, expect="built(F_%s)" % s_,
               key="%s|species|%s" % (rule, s_))


def zero_fill(chk, P, rule):
    from .. import eamrules as E
    ci = P.cls(E.BUILDER_MOD, "EAM_Potential_Builder_FS")
    site = ci.site_of("eam_potentials")
    out = E.build(P, W.make_interp, True, [("Fe", W.param("F_Fe"))], [(("Fe", "Al"), W.param("declared_Fe_Al"))])
    if out[1] != "ok":
        chk.ob(rule, "an under-specified Finnis-Sinclair model builds (undeclared functions are zero-filled)", False, site=site, found=out[2],
               expect="EAMPotential objects for Fe and Al", key=rule + "|builds")
        return
    I, pots = out[0], out[2]
    for a in ("Fe", "Al"):
        p = pots.get(a)
        d = I.getattr(p, "electronDensityFunction") if p is not None else None
        for bb in ("Fe", "Al"):
            got = d.items[Const(bb).key()][1] if isinstance(d, DictV) and Const(bb).key() in d.items else None
            if (a, bb) == ("Fe", "Al"):
                ok = got is not None and got.key() == E.built(W.param("declared_Fe_Al")).key()
                chk.ob(rule, "declared entry Fe->Al is not overwritten", ok, site=site, found=got, expect="built(declared_Fe_Al)",
                       key=rule + "|keep|Fe->Al")
            else:
                val = _zero_at(I, got)
                chk.ob(rule, "undeclared %s->%s is filled with the zero function" % (a, bb), isinstance(val, Num) and val.const() == 0,
                       site=site, found=val if got is not None else "no entry", expect="0.0 at every r", key="%s|zero|%s->%s" % (rule, a, bb))
    # the plain EAM builder: a species with a density but no embedding function, and one with an embedding function but no density
    ci0 = P.cls(E.BUILDER_MOD, "EAM_Potential_Builder")
    site0 = ci0.site_of("eam_potentials")
    for what, embed, dens, missing_attr, kept in (
            ("embedding", [("Al", W.param("F_Al"))], [("Al", W.param("rho_Al")), ("Cu", W.param("rho_Cu"))], "embeddingFunction", ("Al", "embeddingFunction", "F_Al")),
            ("density", [("Al", W.param("F_Al")), ("Cu", W.param("F_Cu"))], [("Al", W.param("rho_Al"))], "electronDensityFunction", ("Al", "electronDensityFunction", "rho_Al"))):
        o = E.build(P, W.make_interp, False, embed, dens)
        if o[1] != "ok":
            chk.ob(rule, "an EAM model lacking the %s function of Cu builds" % what, False, site=site0, found=o[2], expect="zero-filled",
                   key="%s|eam-builds|%s" % (rule, what))
            continue
        J, pp = o[0], o[2]
        k = J.getattr(pp[kept[0]], kept[1]) if kept[0] in pp else None
        chk.ob(rule, "EAM %s of Al is kept" % what, k is not None and k.key() == E.built(W.param(kept[2])).key(), site=site0, found=k,
               expect="built(%s)" % kept[2], key="%s|eam-keep|%s" % (rule, what))
        z = J.getattr(pp["Cu"], missing_attr) if "Cu" in pp else None
        val = _zero_at(J, z)
        chk.ob(rule, "EAM %s of the species Cu, which declares none, is the zero function" % what, isinstance(val, Num) and val.const() == 0,
               site=site0, found=val if z is not None else "no EAMPotential for Cu", expect="0.0", key="%s|eam-zero|%s" % (rule, what))


def factories(chk, P, rule):
    I = W.make_interp(P)
    mod = P.module("atsim.potentials.config._tabulation_factories")
    table = I.module_global(mod, "TABULATION_FACTORIES")
    for target, cls in (("setfl_fs", "SetFL_FS_EAMTabulation"), ("DL_POLY_EAM_fs", "TABEAM_FinnisSinclair_EAMTabulation"),
                        ("excel_eam_fs", "Excel_FinnisSinclair_EAMTabulation")):
        key = Const(W.resolve_target(P, target)).key()
        site = "%s TABULATION_FACTORIES[%r]" % (mod.relpath, target)
        ent = table.items.get(key)
        fac = ent[1] if ent else None
        tc = I.getattr(fac, "tabulation_class") if fac is not None else None
        bc = I.getattr(fac, "eam_builder_class") if fac is not None else None
        chk.ob(rule, "target %r tabulates with %s" % (target, cls), isinstance(tc, ClassV) and tc.ci.name == cls, site=site, found=tc,
               expect=cls, key="%s|class|%s" % (rule, target))
        chk.ob(rule, "target %r builds its model with EAM_Potential_Builder_FS" % target,
               isinstance(bc, ClassV) and bc.ci.name == "EAM_Potential_Builder_FS", site=site, found=bc,
               expect="EAM_Potential_Builder_FS", key="%s|builder|%s" % (rule, target))

"""C04 - Finnis-Sinclair routing (DESIGN.md section 4, C04)."""
from .. import ep
from ..model import AnalysisError
from ..values import *     # noqa
from ..strtree import *    # noqa
from ..symeval import RaiseSignal
from ..symeval_ops import ExcV, NTV
from .. import writerules as W
from .. import excelmodel

EXPLANATION = (
    "Convention (property statement): EAMPotential(A).electronDensityFunction[B] is the density at an A site from a B "
    "neighbour. The eam/fs setfl writer, the EEAM TABEAM writer and their public functions are translated into output trees "
    "and compared with reference writers in which the block of element X lists Y.electronDensityFunction[X.species] for Y "
    "in header order (LAMMPS) and 'dens A B' holds A.electronDensityFunction[B] (DL_POLY). The Excel columns, the 'A->B' "
    "key parser, the FS builder's dictionary nesting and the zero filling are decided by abstract evaluation on an "
    "asymmetric model with opaque, pairwise distinct density functions, so any transposition changes a compared value.")

SPECIES = ["Fe", "Al", "Zr"]   # deliberately not in alphabetical order


def run(chk):
    P = W.load_program()
    chk.explanation = EXPLANATION
    chk.info.update(P.stats())
    chk.rule("C04.W1", "SetFL_FS_EAMTabulation.write: densities routed as the eam/fs reader expects", 25)
    chk.rule("C04.W2", "writeSetFLFinnisSinclair(...) emits the reference eam/fs file", 25)
    chk.rule("C04.W3", "TABEAM_FinnisSinclair_EAMTabulation.write: 'dens A B' = EAMPotential(A).electronDensityFunction[B]", 25)
    chk.rule("C04.W4", "writeTABEAMFinnisSinclair(...) emits the reference EEAM file", 25)
    chk.rule("C04.X", "Excel column 'A->B' holds EAMPotential(A).electronDensityFunction[B] at the row's r", 9)
    chk.rule("C04.P", "potable key 'A->B' is parsed as (from=A, to=B)", 3)
    chk.rule("C04.B", "FS builder stores the function of 'A->B' at density[A][B] and hands density[S] to EAMPotential(S)", 8)
    chk.rule("C04.Z", "undeclared combinations are zero-filled without overwriting declared ones", 8)
    chk.rule("C04.F", "potable FS targets use the FS builder and the FS tabulation classes", 6)

    chk.attempt("W1", lambda: W.eam_class_vs_spec(chk, "C04.W1", P, "SetFL_FS_EAMTabulation", "setfl_fs"))
    chk.attempt("W2", lambda: W.eam_api_vs_spec(chk, "C04.W2", P, "atsim.potentials._lammpsWriteEAM", "writeSetFLFinnisSinclair", "setfl_fs_api"))
    chk.attempt("W3", lambda: W.eam_class_vs_spec(chk, "C04.W3", P, "TABEAM_FinnisSinclair_EAMTabulation", "tabeam_fs"))
    chk.attempt("W4", lambda: W.eam_api_vs_spec(chk, "C04.W4", P, "atsim.potentials._dlpoly_writeTABEAM", "writeTABEAMFinnisSinclair", "tabeam_fs_api"))
    chk.attempt("X", lambda: excel_fs(chk, P, "C04.X"))
    chk.attempt("P", lambda: parser_key(chk, P, "C04.P"))
    chk.attempt("B", lambda: builder(chk, P, "C04.B"))
    chk.attempt("Z", lambda: zero_fill(chk, P, "C04.Z"))
    chk.attempt("F", lambda: factories(chk, P, "C04.F"))
    W.path_state_rule(chk, P, "C04.S", "Finnis-Sinclair write and build path")
    chk.assume("the consumers' conventions are as restated in the property: eam/fs block of X lists for each Y the density X "
               "contributes at a Y site; DL_POLY 'dens A B' is the density at A from B")
    chk.assume("species labels are non-empty strings")


def fs_model(I, P, species=SPECIES):
    """EAMPotential objects with pairwise distinct opaque density functions rho[A][B]"""
    ci = P.cls(*W.EAMPOT)
    pots = []
    for a in species:
        d = DictV()
        for b in species:
            d.items[Const(b).key()] = (Const(b), W.param("rho_%s_from_%s" % (a, b)))
        pots.append(I.instantiate(ci, [Const(a), Num(ep.const(1)), Num(ep.const(1)), W.param("F_" + a), d], {}, None))
    return ListV(pots, "list")


def excel_fs(chk, P, rule):
    I = W.make_interp(P)
    excelmodel.install(I)
    cls = P.cls("atsim.potentials.eam_tabulation", "Excel_FinnisSinclair_EAMTabulation")
    tab = I.instantiate(cls, [ListV([], "list"), fs_model(I, P), W.nsym("cutoff"), W.nsym("nr"), W.nsym("cutoff_rho"), W.nsym("nrho")], {}, None)
    wb = I.getattr(tab, "workbook")
    ws = wb.obj.sheet("EAM-Density")
    site = cls.site_of("_add_eam_density")
    if ws is None:
        raise AnalysisError("no EAM-Density sheet produced")
    heads = {}
    rowkeys = set()
    for (row, col), v in ws.cells.items():
        if row.as_const() == 1:
            heads[col] = v
        else:
            rowkeys.add(row)
    if len(rowkeys) != 1:
        raise AnalysisError("expected one symbolic data row family in the sheet, found %r" % (rowkeys,))
    row = list(rowkeys)[0]
    rval = ws.cells.get((row, 1))
    n = 0
    for a in SPECIES:
        for b in SPECIES:
            label = "%s->%s" % (a, b)
            cols = [c for c, v in heads.items() if isinstance(v, Const) and v.v == label]
            ok = len(cols) == 1
            found = None
            if ok:
                found = ws.cells.get((row, cols[0]))
                want = ep.app(("param", "rho_%s_from_%s" % (a, b)), [I.num(rval)])
                ok = isinstance(found, Num) and ep.equal(found.rf, want)[0]
            chk.ob(rule, "column %r holds EAMPotential(%s).electronDensityFunction[%s](r)" % (label, a, b), ok, site=site,
                   found=found, expect="rho_%s_from_%s(r of that row)" % (a, b), key="%s|col|%s" % (rule, label))


def parser_key(chk, P, rule):
    I = W.make_interp(P)
    captured = {}

    def capture(i, fv, a, k, n):
        captured["func"] = a[2]
        return NONE
    I.hooks["atsim.potentials.config._config_parser:ConfigParser._parse_label_type_params_line"] = capture
    ci = P.cls("atsim.potentials.config._config_parser", "ConfigParser")
    inst = InstV(ci)
    W.run_method(I, inst, "_parse_eam_fs_density_line", [Const("A->B"), Const("as.zero")])
    f = captured.get("func")
    site = ci.site_of("_parse_eam_fs_density_line")
    if f is None:
        raise AnalysisError("FS density line parser no longer passes a key function")
    for key, (fr, to) in (("Al->Fe", ("Al", "Fe")), (" Fe -> Al ", ("Fe", "Al")), ("A->B", ("A", "B"))):
        r = I.call(f, [Const(key)], {})
        ok = isinstance(r, NTV) and r.cls.fields == ["from_species", "to_species"] \
            and isinstance(r.values[0], Const) and r.values[0].v == fr and r.values[1].v == to
        chk.ob(rule, "key %r parses to (from_species=%r, to_species=%r)" % (key, fr, to), ok, site=site, found=r,
               expect="EAMFSDensitySpeciesTuple(%r, %r)" % (fr, to), key="%s|key|%s" % (rule, key.strip().replace(" ", "")))


def _fs_rows(P, I, pairs):
    mod = P.module("atsim.potentials.config._common")
    sp_t = I.module_global(mod, "EAMFSDensitySpeciesTuple")
    row_t = I.module_global(mod, "EAMDensityTuple")
    rows = []
    for a, b in pairs:
        sp = I.call(sp_t, [Const(a), Const(b)], {})
        rows.append(I.call(row_t, [sp, W.param("defn_%s_%s" % (a, b))], {}))
    return ListV(rows, "list")


class _PFB(object):
    """stands for Potential_Form_Builder: create_potential_function(defn_X) -> func(defn_X)"""
    def m_create_potential_function(self, I, args, kwargs):
        return Opaque(("built", args[0].key()))


def builder(chk, P, rule):
    from ..symeval_ops import PyObjV
    I = W.make_interp(P)
    ci = P.cls("atsim.potentials.config._eam_potential_builder", "EAM_Potential_Builder_FS")
    b = InstV(ci)
    b.attrs["_reference_data"] = W.param("rd")
    pairs = [("Fe", "Al"), ("Al", "Fe"), ("Al", "Al")]
    rows = _fs_rows(P, I, pairs)
    d = W.run_method(I, b, "_density_to_potential_form_dict", [rows, PyObjV(_PFB())])
    site = ci.site_of("_density_to_potential_form_dict")
    if not isinstance(d, DictV):
        raise AnalysisError("FS density dictionary is not a dict: %r" % (d,))
    for a, bb in pairs:
        inner = d.items.get(Const(a).key())
        got = inner[1].items.get(Const(bb).key())[1] if inner and isinstance(inner[1], DictV) and Const(bb).key() in inner[1].items else None
        want = Opaque(("built", W.param("defn_%s_%s" % (a, bb)).key()))
        chk.ob(rule, "entry '%s->%s' is stored at density[%s][%s]" % (a, bb, a, bb), got is not None and got.key() == want.key(),
               site=site, found=got, expect=want, key="%s|store|%s->%s" % (rule, a, bb))
    # transposed slot must stay empty
    inner = d.items.get(Const("Fe").key())
    chk.ob(rule, "nothing is stored at the transposed slot density[Fe][Fe]",
           not (inner and Const("Fe").key() in inner[1].items), site=site, found=inner, expect="no Fe->Fe entry",
           key=rule + "|store|no-transpose")
    # duplicates rejected
    I2 = W.make_interp(P)
    b2 = InstV(ci)
    rows2 = _fs_rows(P, I2, [("Fe", "Al"), ("Fe", "Al")])
    cfg = P.cls("atsim.potentials.config._common", "ConfigurationException")
    try:
        W.run_method(I2, b2, "_density_to_potential_form_dict", [rows2, PyObjV(_PFB())])
        out = "accepted"
    except RaiseSignal as e:
        out = e.exc
    ok = isinstance(out, ExcV) and isinstance(out.cls, ClassV) and out.cls.ci.is_subclass_of(cfg)
    chk.ob(rule, "a repeated A->B entry is a configuration error", ok, site=site, found=out, expect="ConfigurationException",
           key=rule + "|duplicate")
    # EAMPotential(S) receives density[S]
    embed = DictV()
    for s in ("Fe", "Al"):
        embed.items[Const(s).key()] = (Const(s), W.param("F_" + s))
    for s in ("Fe", "Al"):
        pot = W.run_method(I, b, "_create_eam_potential", [Const(s), embed, d])
        got = pot.attrs.get("electronDensityFunction") if isinstance(pot, InstV) else None
        want = d.items[Const(s).key()][1]
        chk.ob(rule, "EAMPotential(%s) receives density[%s]" % (s, s), got is want, site=ci.site_of("_create_eam_potential"),
               found=got, expect=want, key="%s|owner|%s" % (rule, s))
        sp = pot.attrs.get("species") if isinstance(pot, InstV) else None
        chk.ob(rule, "EAMPotential(%s).species is %s" % (s, s), isinstance(sp, Const) and sp.v == s,
               site=ci.site_of("_create_eam_potential"), found=sp, expect=s, key="%s|species|%s" % (rule, s))


def zero_fill(chk, P, rule):
    I = W.make_interp(P)
    ci = P.cls("atsim.potentials.config._eam_potential_builder", "EAM_Potential_Builder_FS")
    b = InstV(ci)
    rows = _fs_rows(P, I, [("Fe", "Al")])
    I.hooks["atsim.potentials.config._eam_potential_builder:EAM_Potential_Builder_FS._extract_density"] = lambda i, fv, a, k, n: rows
    embed = DictV()
    embed.items[Const("Fe").key()] = (Const("Fe"), W.param("F_Fe"))
    dens = DictV()
    inner = DictV()
    inner.items[Const("Al").key()] = (Const("Al"), W.param("declared_Fe_Al"))
    dens.items[Const("Fe").key()] = (Const("Fe"), inner)
    W.run_method(I, b, "_add_null_density_functions", [W.param("cp"), embed, dens])
    site = ci.site_of("_add_null_density_functions")
    r = W.nsym("r")
    for a in ("Fe", "Al"):
        for bb in ("Fe", "Al"):
            ent = dens.items.get(Const(a).key())
            got = ent[1].items.get(Const(bb).key())[1] if ent and isinstance(ent[1], DictV) and Const(bb).key() in ent[1].items else None
            if (a, bb) == ("Fe", "Al"):
                ok = got is not None and got.key() == W.param("declared_Fe_Al").key()
                chk.ob(rule, "declared entry Fe->Al is not overwritten", ok, site=site, found=got, expect="declared_Fe_Al",
                       key=rule + "|keep|Fe->Al")
            else:
                ok = False
                val = None
                if got is not None:
                    val = I.call(got, [r], {})
                    ok = isinstance(val, Num) and val.const() == 0
                chk.ob(rule, "undeclared %s->%s is filled with the zero function" % (a, bb), ok, site=site, found=val if got is not None else None,
                       expect="0.0 at every r", key="%s|zero|%s->%s" % (rule, a, bb))
    # same for the plain EAM builder's density and embedding fill
    ci0 = P.cls("atsim.potentials.config._eam_potential_builder", "EAM_Potential_Builder")
    I0 = W.make_interp(P)
    mod = P.module("atsim.potentials.config._common")
    row_t = I0.module_global(mod, "EAMDensityTuple")
    rows0 = ListV([I0.call(row_t, [Const("Al"), W.param("defn_Al")], {}), I0.call(row_t, [Const("Cu"), W.param("defn_Cu")], {})], "list")
    I0.hooks["atsim.potentials.config._eam_potential_builder:EAM_Potential_Builder._extract_density"] = lambda i, fv, a, k, n: rows0
    b0 = InstV(ci0)
    embed0 = DictV()
    embed0.items[Const("Al").key()] = (Const("Al"), W.param("F_Al"))
    dens0 = DictV()
    dens0.items[Const("Al").key()] = (Const("Al"), W.param("rho_Al"))
    W.run_method(I0, b0, "_add_null_functions", [W.param("cp"), embed0, dens0])
    for dct, name, declared in ((embed0, "embedding", "F_Al"), (dens0, "density", "rho_Al")):
        keep = dct.items.get(Const("Al").key())
        chk.ob(rule, "EAM %s of Al is kept" % name, keep is not None and keep[1].key() == W.param(declared).key(),
               site=ci0.site_of("_add_null_functions"), found=keep, expect=declared, key="%s|eam-keep|%s" % (rule, name))
        z = dct.items.get(Const("Cu").key())
        val = I0.call(z[1], [r], {}) if z is not None else None
        chk.ob(rule, "EAM %s of the undeclared species Cu is the zero function" % name,
               isinstance(val, Num) and val.const() == 0, site=ci0.site_of("_add_null_functions"), found=val, expect="0.0",
               key="%s|eam-zero|%s" % (rule, name))


def factories(chk, P, rule):
    I = W.make_interp(P)
    mod = P.module("atsim.potentials.config._tabulation_factories")
    table = I.module_global(mod, "TABULATION_FACTORIES")
    for target, cls in (("setfl_fs", "SetFL_FS_EAMTabulation"), ("DL_POLY_EAM_fs", "TABEAM_FinnisSinclair_EAMTabulation"),
                        ("excel_eam_fs", "Excel_FinnisSinclair_EAMTabulation")):
        key = Const(W.resolve_target(P, target)).key()
        site = "%s TABULATION_FACTORIES[%r]" % (mod.relpath, target)
        ent = table.items.get(key)
        fac = ent[1] if ent else None
        tc = I.getattr(fac, "tabulation_class") if fac is not None else None
        bc = I.getattr(fac, "eam_builder_class") if fac is not None else None
        chk.ob(rule, "target %r tabulates with %s" % (target, cls), isinstance(tc, ClassV) and tc.ci.name == cls, site=site, found=tc,
               expect=cls, key="%s|class|%s" % (rule, target))
        chk.ob(rule, "target %r builds its model with EAM_Potential_Builder_FS" % target,
               isinstance(bc, ClassV) and bc.ci.name == "EAM_Potential_Builder_FS", site=site, found=bc,
               expect="EAM_Potential_Builder_FS", key="%s|builder|%s" % (rule, target))
